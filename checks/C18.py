"""C18 — config parser delivers exactly the documented events and typed values.

Theorems: lean/UsualProofs/Props/C18.lean (models lean/Usual/C18/{Num,CfParser,Spec,Config}.lean).
Tie: correspondence run of the model driver drv_c18 against harness/C18/h.c, which runs the
working tree's usual/cfparser.c (+ fileutil.c load_file, string.c strtod_dot) on REAL files in a
private scratch directory build/C18/tmp (created and removed per run), with every allocation of
the library tracked (--wrap) and every loaded buffer compared with the file when it is freed."""
import os
import shutil
import time
import vf

PID = "C18"
PROP_MODULES = ["UsualProofs.Props.C18"]
REPO_SRCS = ["repo:usual/cfparser.c", "repo:usual/fileutil.c", "repo:usual/string.c",
             "repo:usual/mbuf.c", "repo:usual/cxalloc.c", "repo:usual/base.c"]
WRAP = "-Wl," + ",".join("--wrap=" + f for f in
                         ("malloc", "calloc", "realloc", "free", "strdup", "strndup", "reallocarray", "posix_memalign",
                          "aligned_alloc", "fopen", "fopen64",
                          "getpwnam", "getpwuid"))


def build(ck):
    ck.forbid_scan()
    ck.build_proofs(PROP_MODULES, driver="drv_c18")
    # per-run harness binary and scratch directory: several runs of this check (other seeds,
    # scratch copies of the repository) may be going on at the same time in the same build/C18
    tag = "%d" % os.getpid()
    root = os.path.join(ck.bdir, "tmp")
    os.makedirs(root, exist_ok=True)
    now = time.time()
    for name in os.listdir(ck.bdir):          # leftovers of runs that died: older than 6 hours
        path = os.path.join(ck.bdir, name)
        if name.startswith("h-") and now - os.path.getmtime(path) > 6 * 3600:
            try:
                os.remove(path)
            except OSError:
                pass
    for name in os.listdir(root):
        path = os.path.join(root, name)
        if now - os.path.getmtime(path) > 6 * 3600:
            shutil.rmtree(path, ignore_errors=True)
    h = ck.cc(os.path.join(ck.bdir, "h-" + tag), [os.path.join(vf.HARNESS, PID, "h.c")] + REPO_SRCS,
              flags=[WRAP])
    tmp = os.path.join(root, "r" + tag)
    shutil.rmtree(tmp, ignore_errors=True)
    os.makedirs(tmp, exist_ok=True)
    return [h, tmp], [ck.driver_path("drv_c18")]


def cleanup(hcmd):
    shutil.rmtree(hcmd[1], ignore_errors=True)
    try:
        os.remove(hcmd[0])
    except OSError:
        pass


def hx(b):
    if isinstance(b, str):
        b = b.encode("latin-1")
    return vf.hexs(bytes(b))


# ------------------------------------------------------------------ line-grammar generator
WS_LEAD = [b"", b"", b" ", b"\t", b"  ", b" \t ", b"\r", b"\v", b"\f"]
WS_TRAIL = [b"", b"", b" ", b"\t", b"  \t", b"\r", b" \r", b"\v\f"]
BLANKS = [b"", b"", b" ", b"\t", b"  ", b" \t"]
EOLS = [b"\n", b"\n", b"\n", b"\r\n", b"\n\n", b"\n \n"]
# characters at the borders of [A-Za-z0-9_.*-]
KEY_IN = b"AZaz09_.*-mQ5"
KEY_OUT = b"/:@[`{+,)^ !\x7f\x80\xff"
VAL_CH = b"abc XYZ019=#;[]%\t\r\x80\xff.-_*\"'\\"
SECT_CH = b"abAZ09 ._-*/=#;[%\t\r\x0b\x0c\x80"


def pick_bytes(rng, alphabet, lo, hi):
    return bytes(rng.choice(alphabet) for _ in range(lo + rng.below(hi - lo + 1)))


def gen_key(rng):
    r = rng.below(20)
    if r == 0:
        return b""
    k = pick_bytes(rng, KEY_IN, 1, 6)
    if r == 1:
        k += bytes([rng.choice(KEY_OUT)]) + pick_bytes(rng, KEY_IN, 0, 2)
    return k


def gen_value(rng):
    r = rng.below(10)
    if r == 0:
        return b""
    v = pick_bytes(rng, VAL_CH, 1, 8)
    return v


def gen_line(rng, names):
    """one logical line without terminator; returns bytes"""
    r = rng.below(100)
    lead = rng.choice(WS_LEAD)
    trail = rng.choice(WS_TRAIL)
    if r < 8:
        return lead
    if r < 16:
        return lead + rng.choice([b"#", b";"]) + gen_value(rng) + trail
    if r < 34:
        body = b"[" + pick_bytes(rng, SECT_CH, 0, 6) + b"]"
        t = rng.below(10)
        if t == 0:
            body = body[:-1]                     # unterminated
        elif t == 1:
            body += rng.choice(BLANKS) + gen_key(rng) + b"=" + gen_value(rng)
        elif t == 2:
            body += b"[" + pick_bytes(rng, SECT_CH, 0, 3) + b"]"
        elif t == 3:
            body += b" # c"
        elif t == 4:
            body += b" junk"
        return lead + body + trail
    if r < 50 and names:
        nm = rng.choice(names)
        t = rng.below(12)
        if t == 0:
            return lead + b"%include" + nm                       # no blank
        if t == 1:
            return lead + b"%include"
        if t == 2:
            return lead + b"%INCLUDE " + nm
        if t == 3:
            return lead + b"%include " + trail                   # empty name
        if t == 4:
            return lead + b"%includes " + nm
        return lead + b"%include" + rng.choice([b" ", b"\t", b"  ", b" \t"]) + nm + trail
    # key = value
    k = gen_key(rng)
    t = rng.below(14)
    if t == 0:
        return lead + k                                          # '=' missing
    if t == 1:
        return lead + k + b" " + gen_key(rng) + b" = x"          # two words
    return lead + k + rng.choice(BLANKS) + b"=" + rng.choice(BLANKS) + gen_value(rng) + trail


def gen_text(rng, names, nlines=None):
    n = rng.below(9) if nlines is None else nlines
    out = bytearray()
    for i in range(n):
        out += gen_line(rng, names)
        if i < n - 1 or rng.chance(3, 4):
            out += rng.choice(EOLS)
    return bytes(out)


MUT_BYTES = b"\x00\n\r =[]#;%\t\x80\xffaZ0/.*-_"


def mutate(rng, data):
    b = bytearray(data)
    for _ in range(1 + rng.below(3)):
        op = rng.below(3)
        if op == 0 and b:
            b[rng.below(len(b))] = rng.choice(MUT_BYTES) if rng.chance(3, 4) else rng.below(256)
        elif op == 1:
            b.insert(rng.below(len(b) + 1), rng.choice(MUT_BYTES))
        elif b:
            del b[rng.below(len(b))]
    return bytes(b)


NAME_POOL = [b"a.ini", b"b", b"c.d", b"x y", b"inc/f", b".", b"n\xe9", b"%include", b"[s]", b"k=v"]


LONG_SIZES = [127, 128, 129, 1023, 1024, 4095, 4096, 4097]


def parse_case(rng):
    kind = rng.below(100)
    ops = []
    if kind < 15:
        # include chain of depth d (0..12): file i includes file i+1
        d = rng.below(13)
        names = [b"f%d" % i for i in range(d + 1)]
        for i, nm in enumerate(names):
            txt = b"k%d = %d\n" % (i, i)
            if i < d:
                txt += b"%include " + names[i + 1] + rng.choice([b"\n", b"", b" \n", b"\r\n"])
            if rng.chance(1, 2):
                txt += b"after%d=1\n" % i
            ops.append("file %s %s" % (hx(nm), hx(txt)))
        if rng.chance(1, 6):
            ops.append("file %s %s" % (hx(names[-1]), hx(b"%include " + names[rng.below(len(names))] + b"\n")))
        ops.append("parse %s %d" % (hx(names[0]), 0 if rng.chance(3, 4) else 1 + rng.below(2 * d + 2)))
        if d >= 1 and rng.chance(1, 2):
            ops.append("parse %s 0" % hx(names[1]))
        return ops
    if kind == 30:
        # very long lines, around the sizes a line buffer would have (the parser has none: whole file)
        # (the model reads its buffer as a list, i.e. quadratic in the line length: the largest
        # sizes only in the thorough tier)
        n = rng.choice(LONG_SIZES)
        what = rng.below(6)
        fill = bytes(rng.choice(b"abcXYZ019_.-*") for _ in range(n))
        if what == 0:
            body = b"k = " + fill
        elif what == 1:
            body = fill + b" = v"
        elif what == 2:
            body = b"[" + fill + b"]"
        elif what == 3:
            body = b"# " + fill
        elif what == 4:
            body = b"k =" + b" " * n + b"v" + b" \t" * (n // 2)
        else:
            body = b" " * n + b"k=v"
        txt = b"[s]\n" + body + rng.choice([b"\n", b"\r\n", b""]) + rng.choice([b"", b"after = 1\n"])
        ops.append("file %s %s" % (hx(b"long"), hx(txt)))
        ops.append("parse %s %d" % (hx(b"long"), rng.choice([0, 0, 2])))
        return ops
    if kind < 30:
        # raw bytes
        alpha = MUT_BYTES + b"abck=[]\n\n  "
        data = bytes(rng.choice(alpha) if rng.chance(7, 8) else rng.below(256) for _ in range(rng.below(40)))
        ops.append("file %s %s" % (hx(b"r"), hx(data)))
        ops.append("parse %s 0" % hx(b"r"))
        return ops
    nfiles = 1 + rng.below(4)
    names = [NAME_POOL[rng.below(len(NAME_POOL))] for _ in range(nfiles)]
    missing = [b"nosuch"] if rng.chance(1, 5) else []
    written = []
    for nm in names:
        txt = gen_text(rng, names + missing)
        if kind >= 70:
            txt = mutate(rng, txt)
        ops.append("file %s %s" % (hx(nm), hx(txt)))
        written.append(nm)
    fa = 0 if rng.chance(2, 3) else 1 + rng.below(6)
    ops.append("parse %s %d" % (hx(names[0]), fa))
    if rng.chance(1, 4):
        ops.append("parse %s 0" % hx(rng.choice(names)))
    return ops


# ------------------------------------------------------------------ typed values / histories
INT_VALS = ["0", "1", "-1", "5", " 5", "5 ", "", "+7", "2147483647", "2147483648", "-2147483648",
            "-2147483649", "4294967295", "4294967296", "0x10", "0X1f", "010", "08", "0x", "-0x8",
            "9223372036854775807", "9223372036854775808", "-9223372036854775808",
            "-9223372036854775809", "18446744073709551615", "18446744073709551616",
            "99999999999999999999", "1e3", "abc", "yes", "no", "on", "off", "true", "false", "TRUE",
            "Yes", "oN", "1 1", "\t3", "3\t", "- 3", "--3", "+-3", "0b1", "00", "-0", "0x0", "0xg",
            "\x0b9", "12a", "7fffffff", "0x7fffffff", "0x80000000", "-017"]
TIME_VALS = ["1.5", "2.5", "0", "0.000249", "0.000001", "1e-6", "1e3", "1E3", "1.5s", "1.5 ", "1,5",
             ".5", "5.", "-1", "-0", "inf", "nan", "INF", "-inf", "infinity", "nan(1)", "1e30",
             "18446744073709", "18446744073710", "18446744073709.5", "0x10", "0x1p-1", "1e400",
             "1e-400", "1.0000005", "999999.9999995", "  2", "+3.25", "1e", "1e+", ".", "", "1.001",
             "0.29", "123456", "1234567", "0.0001", "0.00001", "3600", "86400.000001", "1.5ms",
             "1d", "-1e-400", "0.1", "0.7", "33.33333333333", "4.35", "1e-7"]


def _time_boundaries():
    """spellings of the doubles around the limits of cf_set_time_usec: USEC*v + 0.5 at 2^64 (the
    range check, exactly 2^64 must be rejected), 2^63 and 2^53, each +-3 ulp, as shortest repr,
    fixed with 3 and 6 decimals, and exponent form; plus the decimal neighbours of 2^64/10^6"""
    import math
    out = ["18446744073709.551", "18446744073709.551615", "18446744073709.551616", "18446744073709.55",
           "18446744073709.552", "18446744073709.549", "1.8446744073709551e13", "1.8446744073709552e13",
           "1.844674407370955e13", "18446744073709551e-3", "9223372036854.775807", "9223372036854.775808",
           "9.223372036854775e12", "9007199254.740992", "9007199254.740993", "9007199254.740991",
           "9.007199254740992e9", "4294.967295", "4294.967296", "2147.483647", "2147.483648"]
    for b in (2 ** 64, 2 ** 63, 2 ** 53):
        x = b / 1e6
        xs = [x]
        up = dn = x
        for _ in range(3):
            up = math.nextafter(up, math.inf)
            dn = math.nextafter(dn, -math.inf)
            xs += [up, dn]
        for v in xs:
            out += [repr(v), "%.6f" % v, "%.3f" % v, "%.16e" % v]
    seen, res = set(), []
    for v in out:
        if v not in seen:
            seen.add(v)
            res.append(v)
    return res


TIME_BOUNDARY = _time_boundaries()
TIME_VALS = TIME_VALS + TIME_BOUNDARY

LOOKUP_VALS = ["one", "ONE", "Two", "three", "THREE", "uno", "four", "", "on", "one ", "tw"]
FILE_VALS = ["~", "~/x", "~alice", "~alice/p", "~bob/", "~carol/x", "plain", "/abs", "~/", "~~",
             "a~b", "", "~alice/~bob", "~/a/b"]
STR_VALS = ["", "x", "hello world", "a=b", "[x]", "#c", "\xff\x80", "%include z", "~"]
ALL_VALS = INT_VALS + TIME_VALS + LOOKUP_VALS + FILE_VALS + STR_VALS

SCHEMA_SECTS = {
    0: ["main", "two", "baddef", ""],
    1: ["main", "two", "nobase", "a", "b", "c", "zz", "shadowed", "*"],
    2: ["main", "wo", "bad", "a", "b", "zz", "*"],
    3: ["main", "two", "nobase", "a", "b", "zz"],
    4: ["main", "fixed", "a", "b", "zz", "main", "main"],
    5: ["a", "b", "main", "fixed", "zz"],
}
SCHEMA_KEYS = {
    0: {"main": ["i", "u", "b", "s", "f", "t", "d", "l", "ro", "roa", "nr", "nrs", "ns", "ng", "a.b-c_d*", ""],
        "two": ["s2", "i2"], "baddef": ["x"], "": ["k"]},
    1: {"main": ["i", "s", "abs"], "two": ["s2", "t", "nr"], "nobase": ["x"]},
    2: {"main": ["i", "s"]},
    4: {"fixed": ["i", "s"], "main": ["k1", "k2", "xk"]},
    5: {},
}
KEY_TYPE = {"i": INT_VALS, "u": INT_VALS, "b": INT_VALS, "t": TIME_VALS, "d": TIME_VALS, "l": LOOKUP_VALS,
            "f": FILE_VALS, "ro": INT_VALS, "roa": INT_VALS, "nr": INT_VALS, "ng": INT_VALS, "i2": INT_VALS,
            "abs": INT_VALS, "x": INT_VALS, "a.b-c_d*": INT_VALS, "q": INT_VALS}


# string-valued keys (cf_get returns the stored pointer itself) per section
SELF_KEYS = {"main": ["s", "f", "nrs", "", "s", "i", "l"], "two": ["s2"], "": ["k"], "a": ["y", "k1"],
             "b": ["y", "k1"], "wo": ["k1"]}


def pick_sect(rng, sid):
    if rng.chance(1, 12):
        return rng.choice(["nosuch", "Main", "main ", "mai"])
    return rng.choice(SCHEMA_SECTS[sid])


def pick_key(rng, sid, sect):
    keys = SCHEMA_KEYS[sid if sid != 3 else 1].get(sect)
    if keys is None:
        keys = ["x", "y", "k1", "k2", "xk", "q"]
    if rng.chance(1, 12):
        return rng.choice(["nokey", "I", "i ", "k1", "xk"])
    return rng.choice(keys)


def pick_val(rng, key):
    pool = KEY_TYPE.get(key)
    if pool is None or rng.chance(1, 6):
        pool = ALL_VALS
    return rng.choice(pool)


def cf_text(rng, sid, names):
    """config text for cf_load_file: mostly well-formed lines over the schema"""
    out = bytearray()
    sect = None
    n = rng.below(10)
    if rng.chance(5, 6) and not (sid in (4, 5) and rng.chance(1, 3)):
        out += b"[main]" + rng.choice(EOLS)
        sect = "main"
    for _ in range(n):
        r = rng.below(100)
        lead = rng.choice(WS_LEAD)
        if r < 22:
            sect = pick_sect(rng, sid)
            out += lead + b"[" + sect.encode("latin-1") + b"]"
        elif r < 30 and names:
            out += lead + b"%include " + rng.choice(names)
        elif r < 31:
            out += lead + b"%include nosuch"                      # missing file in the middle of a load
        elif r < 36:
            out += lead + rng.choice([b"# c", b"; c", b""])
        elif r < 40:
            out += gen_line(rng, names)
        else:
            key = pick_key(rng, sid, sect if sect is not None else "main")
            if rng.chance(1, 8):
                key = rng.choice(["i", "s", "x", "k1"])             # the same key names in every section
            val = pick_val(rng, key).replace("\n", " ")
            if rng.chance(1, 60):
                val = "v" * rng.choice([127, 128, 4095, 4096, 4097, 9000])
            out += lead + key.encode("latin-1") + rng.choice(BLANKS) + b"=" + rng.choice(BLANKS) + \
                val.encode("latin-1") + rng.choice(WS_TRAIL)
        out += rng.choice(EOLS)
    return bytes(out)


def cf_case(rng):
    sid = rng.below(6)
    ops = ["schema %d" % sid]
    if rng.chance(1, 3):
        ops.append("loaded 1")
    if rng.chance(1, 6):
        ops.append("home " + rng.choice(["nil", hx(b"/h"), hx(b""), hx(b"/home/x y/")]))
    names = [b"inc1", b"inc2"]
    if rng.chance(3, 4):
        # the include files exist from the start (otherwise most loads end in "could not load file")
        ops.append("file %s %s" % (hx(b"inc2"), hx(cf_text(rng, sid, []))))
        ops.append("file %s %s" % (hx(b"inc1"), hx(cf_text(rng, sid, names[1:]))))
    ops.append("file %s %s" % (hx(b"main.ini"), hx(cf_text(rng, sid, names))))
    for _ in range(2 + rng.below(14)):
        r = rng.below(100)
        if r < 22:
            nm = rng.choice([b"main.ini"] + names)
            txt = cf_text(rng, sid, names if nm == b"main.ini" else names[1:])
            if rng.chance(1, 8):
                txt = mutate(rng, txt)
            ops.append("file %s %s" % (hx(nm), hx(txt)))
            if rng.chance(2, 3):
                ops.append("load %s" % hx(b"main.ini"))
        elif r < 30:
            ops.append("load %s" % hx(rng.choice([b"main.ini", b"main.ini", b"main.ini", b"inc1", b"nosuch"])))
        elif r < 65:
            sect = pick_sect(rng, sid)
            key = pick_key(rng, sid, sect)
            val = pick_val(rng, key)
            ops.append("set %s %s %s" % (hx(sect), hx(key), hx(val)))
            if rng.chance(2, 3):
                ops.append("get %s %s" % (hx(sect), hx(key)))
            if rng.chance(1, 3):
                # feed the library its own returned pointer (+offset) back: the new value aliases the old
                ops.append("setself %s %s %d" % (hx(sect), hx(key), rng.choice([0, 0, 1, 2, 5])))
        elif r < 70:
            sect = pick_sect(rng, sid)
            key = rng.choice(SELF_KEYS.get(sect, ["y", "k1", "s"]))
            ops.append("setself %s %s %d" % (hx(sect), hx(key), rng.choice([0, 0, 1, 3, 40])))
        elif r < 80:
            sect = pick_sect(rng, sid)
            ops.append("get %s %s" % (hx(sect), hx(pick_key(rng, sid, sect))))
        elif r < 90:
            ops.append("dump")
        elif r < 95:
            ops.append("loaded %d" % rng.below(2))
        else:
            ops.append("schema %d" % sid)
    ops.append("dump")
    return ops


def rt_case(rng):
    """round trip: what a getter renders is fed back to the setter (get -> set -> get is stable)"""
    key = rng.choice(["i", "u", "t", "d", "l", "s", "b"])
    r = rng.below(4)
    if key in ("t", "d"):
        if r == 0:
            v = "%d.%06d" % (rng.below(3), rng.below(1000000))
            v = v.rstrip("0").rstrip(".")
        elif r == 1:
            v = "%d" % rng.below(1000000)
        elif r == 2:
            v = "%g" % (rng.below(1000000) / 10.0 ** rng.below(12))
        elif rng.chance(1, 2):
            v = rng.choice(TIME_BOUNDARY)
        else:
            v = rng.choice(TIME_VALS)
    elif key in ("i", "b"):
        v = str(rng.choice([0, 1, -1, 2147483647, -2147483648, rng.below(1 << 31), -rng.below(1 << 31)]))
    elif key == "u":
        v = str(rng.choice([0, 1, 4294967295, rng.below(1 << 32)]))
    elif key == "l":
        v = rng.choice(LOOKUP_VALS)
    else:
        v = pick_bytes(rng, VAL_CH, 0, 6).decode("latin-1")
    m, k = hx("main"), hx(key)
    ops = ["schema 0", "set %s %s %s" % (m, k, hx(v)), "get %s %s" % (m, k)]
    if rng.chance(1, 2):
        ops += ["setself %s %s %d" % (m, k, rng.choice([0, 0, 1, 2])), "get %s %s" % (m, k)]
    return ops + ["dump"]


BRANCH = {}     # what the implementation answered, per op (measured on its own output)
FEATURE = {}    # what the generated files contained


def _tally(d, k, n=1):
    d[k] = d.get(k, 0) + n


def note_features(cases):
    for c in cases:
        for l in c:
            w = l.split()
            if w[0] != "file" or w[2] == "-":
                if w[0] == "file":
                    _tally(FEATURE, "file_empty")
                continue
            b = bytes.fromhex(w[2])
            _tally(FEATURE, "files")
            if b"\r\n" in b:
                _tally(FEATURE, "file_with_crlf")
            if 0 in b:
                _tally(FEATURE, "file_with_nul")
            if b"\x0b" in b or b"\x0c" in b:
                _tally(FEATURE, "file_with_vt_or_ff")
            if not b.endswith(b"\n"):
                _tally(FEATURE, "file_without_final_newline")
            if any(x >= 0x80 for x in b):
                _tally(FEATURE, "file_with_high_bytes")
            ls = b.split(b"\n")
            m = max(len(x) for x in ls)
            if m >= 4096:
                _tally(FEATURE, "line_ge_4096")
            elif m >= 128:
                _tally(FEATURE, "line_ge_128")
            inc = b.count(b"%include")
            if inc:
                _tally(FEATURE, "file_with_include")
                _tally(FEATURE, "include_directives", inc)
            if b"%include nosuch" in b:
                _tally(FEATURE, "include_of_missing_file")
            first = [x.strip() for x in ls if x.strip() and x.strip()[:1] not in (b"#", b";", b"%")]
            if first and not first[0].startswith(b"["):
                _tally(FEATURE, "key_before_any_section")
            if sum(1 for x in ls if x.strip().startswith(b"[")) >= 2:
                _tally(FEATURE, "several_sections")


FN_TARGETS = [1, 2, 100, 254, 255, 256, 257, 1022, 1023, 1024, 1025, 1026, 2047, 2048, 3000, 4095, 4096, 4097, 9000]
PW_DIRS = {"alice": "/home/alice", "bob": "/b"}


def fn_case(rng):
    """CF_FILE values starting with `~`: $HOME short / long / empty / unset, `~`, `~/rest`, `~user`,
    `~user/rest`, unknown user; expansion lengths around 255/256, 1023/1024/1025, 4095/4096 and
    a few thousand; through cf_set and through a (long) line of a loaded file; cf_get gives the
    whole expansion back (the hex text carries its length)."""
    ops = ["schema 0"]
    hk = rng.below(10)
    if hk == 0:
        home, ops = "/home/uid", ops + ["home nil"]              # getpwuid(getuid())
    elif hk == 1:
        home, ops = "", ops + ["home -"]
    elif hk < 5:
        home = rng.choice(["/h", "/home/u0", "/home/x y/"])
        ops.append("home " + hx(home))
    else:
        n = rng.choice([200, 250, 254, 255, 256, 1000, 1020, 1023, 1024, 1025, 4090, 4096])
        home = "/" + "H" * (n - 1)
        ops.append("home " + hx(home))
    for _ in range(1 + rng.below(3)):
        form = rng.below(10)
        if form < 5:
            base, prefix = home, "~"
        elif form < 7:
            u = rng.choice(["alice", "bob"])
            base, prefix = PW_DIRS[u], "~" + u
        elif form == 7:
            base, prefix = None, "~carol"                           # unknown user: the setter fails
        else:
            base, prefix = home, "~"
        t = rng.choice(FN_TARGETS) + rng.choice([0, 0, 0, -1, 1])
        if form == 8:
            val = prefix                                            # `~` / `~user` alone
        else:
            restlen = max(0, t - (len(base) if base is not None else 6) - 1)
            val = prefix + "/" + "".join(rng.choice("abcxyz019._-") for _ in range(restlen))
        if rng.chance(1, 3):
            ops.append("file %s %s" % (hx("fn.ini"), hx("[main]\nf = " + val + rng.choice(["\n", " \n", "\r\n", ""]))))
            ops.append("load %s" % hx("fn.ini"))
        else:
            ops.append("set %s %s %s" % (hx("main"), hx("f"), hx(val)))
        ops.append("get %s %s" % (hx("main"), hx("f")))
        if rng.chance(1, 4):
            ops.append("setself %s %s %d" % (hx("main"), hx("f"), rng.choice([0, 1])))
            ops.append("get %s %s" % (hx("main"), hx("f")))
    ops.append("dump")
    return ops


def leak_case(rng):
    """every way a nested include can fail, at every depth, with the handler refusing at every
    event index: nothing may stay allocated (live=0) on any unwinding path"""
    d = 1 + rng.below(10)
    kind = rng.below(8)
    ops = []
    names = [b"g%d" % i for i in range(d + 1)]
    for i in range(d):
        ops.append("file %s %s" % (hx(names[i]), hx(b"a%d=1\n%%include %s\nb%d=2\n" % (i, names[i + 1], i))))
    last = {0: None,                                   # the innermost file is missing
            1: b"ok = 1\nbad line\nnever=1\n",        # syntax error inside the include
            2: b"[s]\nz=1\n",                          # fine
            3: b"%include " + names[d] + b"\n",         # includes itself -> depth limit
            4: b"%include g0\n",                        # loop through the top file
            5: b"[unterminated\n",
            6: b"k=v\n%include nosuch\n",              # missing file one level further down
            7: b""}[kind]
    if last is not None:
        ops.append("file %s %s" % (hx(names[d]), hx(last)))
    ops.append("parse %s 0" % hx(names[0]))
    if rng.chance(1, 2):
        for k in range(1, 2 * d + 5):                 # handler refuses the k-th event, every k
            ops.append("parse %s %d" % (hx(names[0]), k))
    else:
        ops.append("parse %s %d" % (hx(names[0]), 1 + rng.below(2 * d + 4)))
    if rng.chance(1, 2):
        # the same through cf_load_file: missing main section, unknown key / section inside the include
        inner = rng.choice([b"zz=1\n", b"[nosuch]\n", b"i=7\n", b"i=notanumber\n", b"[two]\ns2=x\n", None])
        ops.append("schema 0")
        ops.append("file %s %s" % (hx(b"top"), hx(rng.choice([b"[main]\n", b"", b"[two]\n"]) + b"%include m1\ns=after\n")))
        ops.append("file %s %s" % (hx(b"m1"), hx(b"u=1\n%include m2\n")))
        if inner is not None:
            ops.append("file %s %s" % (hx(b"m2"), hx(inner)))
        ops += ["load %s" % hx(b"top"), "dump"]
    return ops


def monitor(lines, c_lines):
    """property monitor on the implementation's own output (independent of the model):
    nothing may stay allocated, a loaded buffer must be intact when freed, and in a
    `set k v; get k` pair where v is the canonical rendering, get must give v back."""
    prev = None
    for i, l in enumerate(lines):
        if i >= len(c_lines):
            break
        w = l.split()
        out = c_lines[i].split(" ## ")[0]
        if w and w[0] in ("parse", "load", "set", "setself", "get"):
            err = c_lines[i].split(" ## err=")[1].split()[0] if " ## err=" in c_lines[i] else ""
            res = out.split()[0] if out else "?"
            if w[0] == "get":
                res = "nil" if out == "nil" else "value"
            _tally(BRANCH, w[0] + ":" + res + (("/" + err) if err and err != "none" else ""))
            if w[0] == "parse":
                ev = out.split()[1] if len(out.split()) > 1 else "none"
                nev = 0 if ev == "none" else ev.count(",") + 1
                _tally(BRANCH, "parse:events_" + ("0" if nev == 0 else "1-3" if nev <= 3 else "4-10" if nev <= 10 else "11+"))
        if w and w[0] in ("parse", "load", "set", "setself"):
            if "NOT-INTACT" in out:
                yield i, "a loaded buffer was freed with a NUL patch left in it: " + out, "intact"
            if " live=" in out and not out.endswith(" live=0"):
                yield i, "memory still allocated after the call: " + out, "leak"
        if w and w[0] == "get" and prev is not None and prev[0] == w[1] and prev[1] == w[2]:
            val, ok = prev[2], prev[3]
            if ok and w[1] == hx("main") and w[2] in CANON and CANON[w[2]](val) and out != hx(val):
                yield i, "get after set of a canonical spelling renders %s instead of %s" % (out, hx(val)), "roundtrip"
        prev = None
        if w and w[0] == "set" and len(w) == 4:
            prev = (w[1], w[2], bytes.fromhex(w[3]) if w[3] != "-" else b"", out.startswith("1"))


def _canon_int(v, lo, hi):
    try:
        s = v.decode("ascii")
        n = int(s)
    except (ValueError, UnicodeDecodeError):
        return False
    return str(n) == s and lo <= n <= hi


def _canon_time(v):
    # what "%g" prints for a value on the usec grid with <= 6 significant digits, plain notation
    try:
        s = v.decode("ascii")
    except UnicodeDecodeError:
        return False
    import re
    if not re.fullmatch(r"(0|[1-9][0-9]{0,5})(\.[0-9]{1,6})?", s):
        return False
    if "." in s and s.endswith("0"):
        return False
    digits = s.replace(".", "").lstrip("0")
    return len(digits) <= 6 and ("%g" % float(s)) == s


CANON = {hx("i"): lambda v: _canon_int(v, -2 ** 31, 2 ** 31 - 1), hx("b"): lambda v: v in (b"0", b"1"),
         hx("u"): lambda v: _canon_int(v, 0, 2 ** 32 - 1), hx("t"): _canon_time, hx("d"): _canon_time,
         hx("s"): lambda v: True}


def run(ck):
    hcmd, dcmd = build(ck)
    ck.level = "proof"
    ck.cov["trusted_base"] = [
        "Lean 4.33.0 kernel; axioms of the property theorems: subset of propext, Quot.sound, Classical.choice (audited this run)",
        "models lean/Usual/C18/{CfParser,Config,Num}.lean are tied to usual/cfparser.c, fileutil.c load_file by the "
        "differential run of drv_c18 vs harness/C18/h.c on real files (generator + canonicalisation in checks/C18.py); "
        "the driver also runs the line-grammar spec next to the model on every parse",
        "modelled libc (parameters of the theorems, concrete instances in Num.lean): strtol/strtoul base 0, strtod in the C locale, "
        "snprintf %d %u %g, getenv(HOME), getpwnam/getpwuid (wrapped with a fixed table in the harness), fopen/fstat/fread",
        "pointer-level safety is ASan/UBSan's on an exact-size buffer; allocation balance is the --wrap tracker's",
    ]
    ck.assumptions += ["C locale (isspace/isalnum/strtod decimal point)",
                       "malloc/strdup never fail here (allocation failure is property C10)",
                       "LP64: long is 64 bit, int 32 bit",
                       "file names contain no NUL; include names are resolved against the set of files written by the case"]
    ck.cov["rule"] = ("parse cases: files from a line-grammar generator (random blanks incl. \\r \\v \\f, comments, CRLF, missing "
                      "final newline, sections/keys with characters at the borders of the key charset, '=' missing, empty "
                      "values, trailing whitespace, several sections on a line, %include with/without blank, nested includes "
                      "to depth 12, self-includes, missing files), the same with 1-3 byte mutations (incl. NUL), and raw bytes; "
                      "handler refusing the n-th event; failing-include cases: chains of depth 1..10 whose innermost file is missing / has a syntax error / includes itself / loops / is fine, parsed with the handler refusing at EVERY event index k, and the same through cf_load_file (missing main section, unknown key/section inside an include) — `live` after each call must be 0.  cf cases: histories of schema/loaded/home/file/load/set/get/dump over "
                      "six schemas (absolute, relative with base_lookup, dynamic set_key, relative with NULL base, MAIN section dynamic, `*` wildcard as first section) with typed "
                      "values at boundaries; filename cases: `~`, `~/rest`, `~user[/rest]`, unknown user, with $HOME short / "
                      "long (200..4096 bytes) / empty / unset and expansion lengths around 255/256, 1023/1024/1025, 4095/4096, "
                      "9000, through cf_set and through a long line of a loaded file; `setself` feeds the pointer cf_get returned (+offset) back into cf_set, so the new "
                      "value aliases the stored one.  A case counts as non-trivial when it is distinct and contains a parse/load/set.")
    if not ck.quick():
        ck.leanchecker(PROP_MODULES + ["UsualProofs.C18." + m for m in
                                       ("View", "Ref", "LineSpec", "Scan", "NumP", "ConfigP", "LoadP", "Float", "StrtodP", "FmtP")])
    ck.cov["partial"] = ["set_get_roundtrip_time_partial: proved for all values: microseconds with <= 6 significant digits "
                         "in %g's fixed range (set_get_roundtrip_time_usec), more digits (time_usec_get_set_get_stable + "
                         "witness: identity needs <= 6 digits), doubles on canonical spellings "
                         "(set_get_roundtrip_time_double); still a finite kernel evaluation: texts %g prints in exponent "
                         "notation (below 1e-4 s, from 1e6 s)",
                         "cf_set_filename: $HOME / getpwnam / getpwuid are parameters (Env) of set_filename and set_filename_user"]
    BRANCH.clear()
    FEATURE.clear()
    if not ck.quick():
        LONG_SIZES.extend([8191, 8192, 8193])
    rng = vf.SplitMix(ck.seed)
    nontriv = lambda c: any(l.split()[0] in ("parse", "load", "set", "setself") for l in c)
    hist = {}

    def go(cases, label):
        for c in cases:
            for l in c:
                op = l.split()[0]
                hist[op] = hist.get(op, 0) + 1
        note_features(cases)
        for ch in vf.chunks(cases, 2500):
            ck.compare_cases(hcmd, dcmd, ch, label=label, nontrivial=nontriv, monitor=monitor)

    go(vf.corpus_cases(PID), "corpus")
    mult = 4 if not ck.proof_ok else 1
    n = ck.scale(12000, 300000) * mult
    pc = [parse_case(rng) for _ in range(n)]
    go(pc, "parse")
    cc = [cf_case(rng) for _ in range(n // 3)]
    go(cc, "cf")
    rc = [rt_case(rng) for _ in range(n // 3)]
    go(rc, "roundtrip")
    fc = [fn_case(rng) for _ in range(n // 8)]
    go(fc, "filename")
    lc = [leak_case(rng) for _ in range(n // 12)]
    go(lc, "failing-includes")
    for c in (pc[0], pc[1], cc[0], rc[0], fc[0]):
        ck.sample(c[:10])
    ck.cov["op_histogram"] = hist
    ck.cov["branch_distribution"] = dict(sorted(BRANCH.items()))
    ck.cov["input_features"] = dict(sorted(FEATURE.items()))
    cleanup(hcmd)


def replay(ck, path):
    hcmd, dcmd = build(ck)
    rc = vf.generic_replay(ck, path, hcmd, dcmd)
    cleanup(hcmd)
    return rc
