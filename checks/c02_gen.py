"""C02 T-tie: regenerate lean/Usual/Gen/C02Tables.lean from the *current* usual/json.c.

harness/C02/extract.c #includes the working tree's usual/json.c and prints the enum values,
STATE_STEPS, string_examine_chars (the INTMAP256_CONST expansion, evaluated by the compiler),
the limits and the option bits.  This module compiles and runs it and renders the Lean file."""
import os
import subprocess

NAMES_STATE = ["S_INITIAL_VALUE", "S_LIST_VALUE", "S_LIST_VALUE_OR_CLOSE", "S_LIST_COMMA_OR_CLOSE",
               "S_DICT_KEY", "S_DICT_KEY_OR_CLOSE", "S_DICT_COLON", "S_DICT_VALUE",
               "S_DICT_COMMA_OR_CLOSE", "S_PARENT", "S_DONE", "MAX_STATES"]
NAMES_TOK = ["T_STRING", "T_OTHER", "T_COMMA", "T_COLON", "T_OPEN_DICT", "T_OPEN_LIST",
             "T_CLOSE_DICT", "T_CLOSE_LIST", "MAX_TOKENS"]
NAMES_NAT = ["NUMBER_BUF", "JSON_MAX_KEY", "JSON_PARSE_RELAXED", "JSON_PARSE_IGNORE_ENCODING"]
NAMES_INT = ["JSON_MAXINT", "JSON_MININT"]


class ExtractError(Exception):
    pass


def extract(repo, verif, bdir):
    exe = os.path.join(bdir, "extract")
    cmd = ["gcc", "-w", "-O1", "-ffunction-sections", "-fdata-sections", "-Wl,--gc-sections",
           "-I" + repo, "-DHAVE_CONFIG_H", "-o", exe, os.path.join(verif, "harness", "C02", "extract.c")]
    p = subprocess.run(cmd, stdout=subprocess.PIPE, stderr=subprocess.STDOUT, text=True)
    if p.returncode != 0:
        raise ExtractError("extract.c does not compile against %s/usual/json.c:\n%s" % (repo, p.stdout[-1500:]))
    out = subprocess.run([exe], stdout=subprocess.PIPE, text=True, check=True).stdout
    consts, steps, examine, fourcc, dims = {}, {}, None, {}, None
    for line in out.split("\n"):
        w = line.split()
        if not w:
            continue
        if w[0] == "const":
            consts[w[1]] = int(w[2])
        elif w[0] == "dims":
            dims = [int(x) for x in w[1:]]
        elif w[0] == "steps":
            steps[int(w[1])] = [int(x) for x in w[2:]]
        elif w[0] == "examine":
            examine = [int(x) for x in w[1:]]
        elif w[0] == "fourcc":
            fourcc[w[1]] = [int(x) for x in w[2:]]
    if dims != [consts["MAX_STATES"], consts["MAX_TOKENS"], 256] or len(examine) != 256:
        raise ExtractError("unexpected table dimensions %r" % (dims,))
    return consts, steps, examine, fourcc


def render(consts, steps, examine, fourcc):
    o = []
    o.append("/-! GENERATED on every run by checks/C02.py (c02_gen.py + harness/C02/extract.c) from the\n"
             "    working tree's usual/json.c: enum ParseState / TokenTypes, STATE_STEPS,\n"
             "    string_examine_chars (INTMAP256_CONST(meta_string) as evaluated by the compiler),\n"
             "    NUMBER_BUF, JSON_MAXINT/MININT, JSON_MAX_KEY, the option bits and the FOURCC byte\n"
             "    strings.  Do not edit. -/\n"
             "namespace Usual.Gen.C02Tables\n")
    o.append("/-! enum ParseState -/")
    for n in NAMES_STATE:
        o.append("def %s : Nat := %d" % (n, consts[n]))
    o.append("\n/-! enum TokenTypes -/")
    for n in NAMES_TOK:
        o.append("def %s : Nat := %d" % (n, consts[n]))
    o.append("")
    for n in NAMES_NAT:
        o.append("def %s : Nat := %d" % (n, consts[n]))
    for n in NAMES_INT:
        o.append("def %s : Int := %d" % (n, consts[n]))
    o.append("\n/-- `STATE_STEPS[MAX_STATES][MAX_TOKENS]`, row = old state, column = token, 0 = reject -/")
    o.append("def stateSteps : List (List Nat) := [")
    rows = []
    for s in range(consts["MAX_STATES"]):
        rows.append("  [" + ", ".join(str(x) for x in steps[s]) + "]")
    o.append(",\n".join(rows) + "]")
    o.append("\n/-- `string_examine_chars[256]` -/")
    o.append("def stringExamineChars : List Nat := [")
    rows = []
    for i in range(0, 256, 32):
        rows.append("  " + ", ".join(str(x) for x in examine[i:i + 32]))
    o.append(",\n".join(rows) + "]")
    o.append("")
    for n in ("C_NULL", "C_TRUE", "C_ALSE"):
        o.append("/-- bytes of `%s` in memory order (what `memcmp`/the `uint32_t` compare sees) -/" % n)
        o.append("def %s : List UInt8 := [%s]" % (n, ", ".join(str(x) for x in fourcc[n])))
    o.append("\nend Usual.Gen.C02Tables\n")
    return "\n".join(o)


def regenerate(repo, verif, bdir, write_if_changed):
    txt = render(*extract(repo, verif, bdir))
    path = os.path.join(verif, "lean", "Usual", "Gen", "C02Tables.lean")
    changed = write_if_changed(path, txt)
    return path, txt, changed


if __name__ == "__main__":
    import sys
    sys.path.insert(0, os.path.join(os.path.dirname(os.path.abspath(__file__)), "..", "lib"))
    import vf
    os.makedirs(os.path.join(vf.BUILD, "C02"), exist_ok=True)
    print(regenerate(vf.REPO, vf.VERIF, os.path.join(vf.BUILD, "C02"), vf.write_if_changed)[2])
