"""C02: two Python-side references used as *property monitors* on the implementation's own
output (independent of the Lean model, which follows the table extracted from json.c — a
mutated table changes model and code alike, the monitors below do not move).

1. `rfc_expect(doc)`  — the independent decoder: Python's `json` module (strict RFC 8259
   grammar, its own correctly rounding float parser) + the property's preconditions (unique
   names, no U+0000, integers within +-(2^53-1), finite doubles, number tokens < 100 bytes,
   names <= JSON_MAX_KEY).  Returns the canonical dump every option set must produce, or None
   when the document is outside the "every RFC 8259 document is accepted" clause.

2. `lax_result(doc, relaxed, ignore_enc)` — a recursive-descent recogniser/evaluator (no state
   table) for exactly the language the property lets json_parse accept: RFC 8259 plus the
   laxities the property leaves open (white space \\f \\v, number tokens as strtol/strtod take
   them: `01`, `1.`, `-.5`; raw control characters other than NUL inside strings), plus, in
   relaxed mode, comments and one trailing comma directly (white space only) before a closer,
   plus, with IGNORE_ENCODING, ill-formed bytes >= 0x80 passed through.  Returns the dump or
   None (= must be rejected).
"""
import json
import struct
import sys

sys.setrecursionlimit(100000)

MAXINT = (1 << 53) - 1
MAX_KEY = 1024 * 1024
NUMBER_BUF = 100


def hexs(b):
    return bytes(b).hex() if len(b) else "-"


def fbits(x):
    return "d%x" % struct.unpack("<Q", struct.pack("<d", x))[0]


# ---------------------------------------------------------------- 1. independent decoder
class _OutOfScope(Exception):
    pass


class _Num(object):
    __slots__ = ("kind", "tok")

    def __init__(self, kind, tok):
        self.kind, self.tok = kind, tok


def _pairs(ps):
    seen = set()
    for k, _ in ps:
        if k in seen:
            raise _OutOfScope("duplicate name")
        seen.add(k)
    return ("D", ps)


def _const(c):
    raise ValueError("constant " + c)


def _dump_py(v):
    if v is None:
        return "n"
    if v is True:
        return "t"
    if v is False:
        return "f"
    if isinstance(v, _Num):
        if len(v.tok) >= NUMBER_BUF:
            raise _OutOfScope("long token")
        if v.kind == "i":
            i = int(v.tok)
            if abs(i) > MAXINT:
                raise _OutOfScope("integer out of range")
            return "i%d" % i
        x = float(v.tok)
        if x != x or x in (float("inf"), float("-inf")):
            raise _OutOfScope("non-finite")
        return fbits(x)
    if isinstance(v, str):
        if "\x00" in v:
            raise _OutOfScope("U+0000")
        return "s" + hexs(v.encode("utf-8"))        # lone surrogates raise UnicodeEncodeError
    if isinstance(v, list):
        return "[" + ",".join(_dump_py(x) for x in v) + "]"
    if isinstance(v, tuple) and v[0] == "D":
        items = []
        for k, x in v[1]:
            if "\x00" in k:
                raise _OutOfScope("U+0000")
            kb = k.encode("utf-8")
            if len(kb) > MAX_KEY:
                raise _OutOfScope("large key")
            items.append((kb, x))
        items.sort(key=lambda p: p[0])
        return "{" + ",".join(hexs(k) + ":" + _dump_py(x) for k, x in items) + "}"
    raise _OutOfScope("type")


def rfc_expect(doc):
    try:
        s = bytes(doc).decode("utf-8")
        v = json.loads(s, parse_float=lambda t: _Num("f", t), parse_int=lambda t: _Num("i", t),
                       parse_constant=_const, object_pairs_hook=_pairs)
        return _dump_py(v)
    except (ValueError, _OutOfScope, RecursionError, UnicodeError):
        return None


# ---------------------------------------------------------------- 2. lax recogniser
class Rej(Exception):
    pass


WS = frozenset(b" \t\n\r\f\v")
NUMCH = frozenset(b"0123456789+-.eE")
DIG = frozenset(b"0123456789")
SIMPLE = {0x22: 0x22, 0x5C: 0x5C, 0x2F: 0x2F, 0x62: 8, 0x66: 12, 0x6E: 10, 0x72: 13, 0x74: 9}
HEXV = {}
for _i, _c in enumerate(b"0123456789abcdef"):
    HEXV[_c] = _i
for _i, _c in enumerate(b"ABCDEF"):
    HEXV[_c] = 10 + _i


def utf8_seq(doc, i, n):
    """length of the well-formed UTF-8 sequence at doc[i] (lead byte >= 0x80), 0 if none
    (Unicode Table 3-7)"""
    b0 = doc[i]
    if b0 < 0xC2:
        return 0
    if b0 < 0xE0:
        return 2 if i + 1 < n and 0x80 <= doc[i + 1] <= 0xBF else 0
    if b0 < 0xF0:
        if i + 2 >= n:
            return 0
        b1, b2 = doc[i + 1], doc[i + 2]
        lo, hi = 0x80, 0xBF
        if b0 == 0xE0:
            lo = 0xA0
        if b0 == 0xED:
            hi = 0x9F
        return 3 if lo <= b1 <= hi and 0x80 <= b2 <= 0xBF else 0
    if b0 < 0xF5:
        if i + 3 >= n:
            return 0
        b1, b2, b3 = doc[i + 1], doc[i + 2], doc[i + 3]
        lo, hi = 0x80, 0xBF
        if b0 == 0xF0:
            lo = 0x90
        if b0 == 0xF4:
            hi = 0x8F
        return 4 if lo <= b1 <= hi and 0x80 <= b2 <= 0xBF and 0x80 <= b3 <= 0xBF else 0
    return 0


def _hex4(doc, i, n):
    if i + 4 > n:
        raise Rej()
    v = 0
    for k in range(4):
        c = doc[i + k]
        if c not in HEXV:
            raise Rej()
        v = v * 16 + HEXV[c]
    return v


class Lax(object):
    def __init__(self, doc, relaxed, ignore):
        self.d = bytes(doc)
        self.n = len(self.d)
        self.relaxed = relaxed
        self.ignore = ignore

    def skip(self, i):
        d, n = self.d, self.n
        while i < n:
            c = d[i]
            if c in WS:
                i += 1
            elif c == 0x2F and self.relaxed:
                if i + 1 < n and d[i + 1] == 0x2F:
                    j = d.find(b"\n", i + 2)
                    i = n if j < 0 else j + 1
                elif i + 1 < n and d[i + 1] == 0x2A:
                    j = d.find(b"*/", i + 2)
                    if j < 0:
                        raise Rej()
                    i = j + 2
                else:
                    raise Rej()
            else:
                break
        return i

    def extra_comma(self, i, closer):
        """d[i] is ','.  In relaxed mode: position after the closer when only white space
        separates the comma from it, else -1"""
        if not self.relaxed:
            return -1
        d, n = self.d, self.n
        j = i + 1
        while j < n and d[j] in WS:
            j += 1
        if j < n and d[j] == closer:
            return j + 1
        return -1

    def string(self, i):
        """i = index after the opening quote; returns (bytes, index after closing quote)"""
        d, n = self.d, self.n
        out = bytearray()
        while True:
            if i >= n:
                raise Rej()
            c = d[i]
            if c == 0x22:
                return bytes(out), i + 1
            if c == 0:
                raise Rej()
            if c == 0x5C:
                if i + 1 >= n:
                    raise Rej()
                e = d[i + 1]
                if e in SIMPLE:
                    out.append(SIMPLE[e])
                    i += 2
                elif e == 0x75:
                    cp = _hex4(d, i + 2, n)
                    i += 6
                    if cp == 0:
                        raise Rej()
                    if 0xD800 <= cp <= 0xDFFF:
                        if cp >= 0xDC00:
                            raise Rej()
                        if not (i + 1 < n and d[i] == 0x5C and d[i + 1] == 0x75):
                            raise Rej()
                        lo = _hex4(d, i + 2, n)
                        if not (0xDC00 <= lo <= 0xDFFF):
                            raise Rej()
                        cp = 0x10000 + ((cp - 0xD800) << 10) + (lo - 0xDC00)
                        i += 6
                    out += chr(cp).encode("utf-8")
                else:
                    raise Rej()
            elif c >= 0x80:
                k = utf8_seq(d, i, n)
                if k:
                    out += d[i:i + k]
                    i += k
                elif self.ignore:
                    out.append(c)
                    i += 1
                else:
                    raise Rej()
            else:
                out.append(c)
                i += 1

    def number(self, i):
        d, n = self.d, self.n
        j = i
        while j < n and d[j] in NUMCH:
            j += 1
        tok = d[i:j]
        if len(tok) >= NUMBER_BUF:
            raise Rej()
        if b"." in tok or b"e" in tok or b"E" in tok:
            try:
                x = float(tok.decode("ascii"))
            except ValueError:
                raise Rej()
            if x != x or x in (float("inf"), float("-inf")):
                raise Rej()
            return fbits(x), j
        body = tok[1:] if tok[:1] == b"-" else tok
        if not body or any(c not in DIG for c in body):
            raise Rej()
        v = int(tok)
        if len(tok) >= 8 and abs(v) > MAXINT:
            raise Rej()
        return "i%d" % v, j

    def value(self, i):
        d, n = self.d, self.n
        if i >= n:
            raise Rej()
        c = d[i]
        if c == 0x5B:
            items = []
            i = self.skip(i + 1)
            if i < n and d[i] == 0x2C:
                j = self.extra_comma(i, 0x5D)
                if j >= 0:
                    return "[]", j
                raise Rej()
            if i < n and d[i] == 0x5D:
                return "[]", i + 1
            while True:
                v, i = self.value(i)
                items.append(v)
                i = self.skip(i)
                if i >= n:
                    raise Rej()
                if d[i] == 0x5D:
                    return "[" + ",".join(items) + "]", i + 1
                if d[i] != 0x2C:
                    raise Rej()
                j = self.extra_comma(i, 0x5D)
                if j >= 0:
                    return "[" + ",".join(items) + "]", j
                i = self.skip(i + 1)
        if c == 0x7B:
            items = {}
            i = self.skip(i + 1)
            if i < n and d[i] == 0x2C:
                j = self.extra_comma(i, 0x7D)
                if j >= 0:
                    return "{}", j
                raise Rej()
            if i < n and d[i] == 0x7D:
                return "{}", i + 1
            while True:
                if i >= n or d[i] != 0x22:
                    raise Rej()
                k, i = self.string(i + 1)
                i = self.skip(i)
                if i >= n or d[i] != 0x3A:
                    raise Rej()
                if len(k) > MAX_KEY or k in items:
                    raise Rej()
                i = self.skip(i + 1)
                v, i = self.value(i)
                items[k] = v
                i = self.skip(i)
                if i >= n:
                    raise Rej()
                if d[i] == 0x7D:
                    i += 1
                    break
                if d[i] != 0x2C:
                    raise Rej()
                j = self.extra_comma(i, 0x7D)
                if j >= 0:
                    i = j
                    break
                i = self.skip(i + 1)
            return "{" + ",".join(hexs(k) + ":" + items[k] for k in sorted(items)) + "}", i
        if c == 0x22:
            s, i = self.string(i + 1)
            return "s" + hexs(s), i
        if c == 0x6E:
            if d[i:i + 4] == b"null":
                return "n", i + 4
            raise Rej()
        if c == 0x74:
            if d[i:i + 4] == b"true":
                return "t", i + 4
            raise Rej()
        if c == 0x66:
            if d[i:i + 5] == b"false":
                return "f", i + 5
            raise Rej()
        if c == 0x2D or c in DIG:
            return self.number(i)
        raise Rej()

    def run(self):
        try:
            i = self.skip(0)
            v, i = self.value(i)
            i = self.skip(i)
            if i < self.n:
                raise Rej()
            return v
        except (Rej, RecursionError):
            return None


def lax_result(doc, relaxed, ignore):
    return Lax(doc, relaxed, ignore).run()


# the five result columns of op `d`: options 0..3 set with json_set_options, and a context on which
# json_set_options was never called (documented default: JSON_STRICT, UTF-8 validated = options 0)
COLUMNS = [0, 1, 2, 3, 0]
COLNAME = ["options=0", "options=1", "options=2", "options=3", "default context (json_set_options never called)"]


def expected_for(doc, optlist):
    """(expected results ('ok <dump>' | 'err') for the given option values, rfc dump or None)"""
    cache = {}
    out = []
    for o in optlist:
        if o not in cache:
            v = lax_result(doc, bool(o & 1), bool(o & 2))
            cache[o] = "err" if v is None else "ok " + v
        out.append(cache[o])
    return out, rfc_expect(doc)


def judge(doc, impl_line, optlist=None, names=None):
    """compare the implementation's output line for `d <hex(doc)>` with the references.
    Returns None when fine, else (class, message)."""
    optlist = COLUMNS if optlist is None else optlist
    names = COLNAME if names is None else names
    parts = impl_line.split(" | ")
    if len(parts) != len(optlist):
        return ("shape", "unexpected output shape: " + impl_line[:200])
    exp, rfc = expected_for(doc, optlist)
    for k, o in enumerate(optlist):
        got = parts[k]
        nm = names[k]
        if not (got.startswith("ok ") or got.startswith("err ")) or "?" in got:
            return ("malformed-result", "%s: %s" % (nm, got[:200]))
        if got == "err none":
            return ("null-without-message", "%s: json_parse returned NULL and json_strerror is NULL" % nm)
        if rfc is not None and got != "ok " + rfc:
            return ("rfc-document", "%s: RFC 8259 document inside the property's preconditions; "
                    "reference value %s, implementation says %s" % (nm, rfc[:200], got[:200]))
        if exp[k] == "err":
            if got.startswith("ok "):
                cls = "strict-accepts" if not (o & 1) else "relaxed-accepts"
                return (cls, "%s: document outside the accepted language is accepted: %s" % (nm, got[:200]))
        elif got != exp[k]:
            cls = "value" if got.startswith("ok ") else ("relaxed-rejects" if (o & 1) else "rejects")
            return (cls, "%s: expected %s, implementation says %s" % (nm, exp[k][:200], got[:200]))
    return None


def judge_seq(docs, impl_line):
    """several documents parsed one after the other on one context (op `s`): every json_parse call
    stands for itself, so each document is judged like a single one.  Returns None or
    (class, message) with the index of the offending document in the message."""
    groups = impl_line.split(" | ")
    if len(groups) != 5:
        return ("shape", "unexpected output shape: " + impl_line[:200])
    parts = [g.split(" ; ") for g in groups]
    if any(len(p) != len(docs) for p in parts):
        return ("shape", "unexpected output shape: " + impl_line[:200])
    for i, d in enumerate(docs):
        # fifth group: never-configured context for the first document, json_set_options(i % 4) before
        # every later one
        o5 = 0 if i == 0 else i % 4
        n5 = COLNAME[4] if i == 0 else "options=%d set on a context first used without json_set_options" % o5
        j = judge(d, " | ".join(parts[g][i] for g in range(5)), [0, 1, 2, 3, o5], COLNAME[:4] + [n5])
        if j is not None:
            return ("reuse:" + j[0] if i > 0 else j[0],
                    "document #%d of %d on one context (%r): %s" % (i + 1, len(docs), bytes(d)[:60], j[1]))
    return None
