#!/usr/bin/env python3
"""Third opinion for C05: speaks the d.* / h.* / c.* part of the C05 line protocol using
Python's hashlib/hmac (OpenSSL) and an independent transcription of ChaCha20 (original
djb layout: 64-bit counter, 64-bit nonce).  Used only as a cross-check of harness output
against something that is neither libusual nor the Lean model."""
import hashlib
import hmac as pyhmac
import struct
import sys

NAMES = {"md5": ("md5", 16), "sha1": ("sha1", 20), "sha224": ("sha224", 28), "sha256": ("sha256", 32),
         "sha384": ("sha384", 48), "sha512": ("sha512", 64), "sha3_224": ("sha3_224", 28),
         "sha3_256": ("sha3_256", 32), "sha3_384": ("sha3_384", 48), "sha3_512": ("sha3_512", 64),
         "shake128": ("shake_128", 32), "shake256": ("shake_256", 64)}
BLOCK = {"md5": 64, "sha1": 64, "sha224": 64, "sha256": 64, "sha384": 128, "sha512": 128,
         "sha3_224": 144, "sha3_256": 136, "sha3_384": 104, "sha3_512": 72, "shake128": 168, "shake256": 136}


def H(name, data):
    n, rl = NAMES[name]
    h = hashlib.new(n, data)
    return h.digest(rl) if n.startswith("shake") else h.digest()


def hmac_ref(name, key, msg):
    B = BLOCK[name]
    if len(key) > B:
        key = H(name, key)
    key = key + bytes(B - len(key))
    return H(name, bytes(b ^ 0x5c for b in key) + H(name, bytes(b ^ 0x36 for b in key) + msg))


def unhex(s):
    if s == "-":
        return b""
    if len(s) % 2:
        return None
    try:
        return bytes.fromhex(s)
    except ValueError:
        return None


def hexs(b):
    return b.hex() if b else "-"


def nat(s):
    if not s or len(s) > 12 or not s.isdigit() or not s.isascii():
        return None
    return int(s)


def rol(x, n):
    return ((x << n) | (x >> (32 - n))) & 0xffffffff


def chacha_block(words):
    x = list(words)

    def q(a, b, c, d):
        x[a] = (x[a] + x[b]) & 0xffffffff; x[d] = rol(x[d] ^ x[a], 16)
        x[c] = (x[c] + x[d]) & 0xffffffff; x[b] = rol(x[b] ^ x[c], 12)
        x[a] = (x[a] + x[b]) & 0xffffffff; x[d] = rol(x[d] ^ x[a], 8)
        x[c] = (x[c] + x[d]) & 0xffffffff; x[b] = rol(x[b] ^ x[c], 7)
    for _ in range(10):
        q(0, 4, 8, 12); q(1, 5, 9, 13); q(2, 6, 10, 14); q(3, 7, 11, 15)
        q(0, 5, 10, 15); q(1, 6, 11, 12); q(2, 7, 8, 13); q(3, 4, 9, 14)
    return struct.pack("<16I", *[(x[i] + words[i]) & 0xffffffff for i in range(16)])


class ChaCha:
    def __init__(self):
        self.key = [0] * 12
        self.nonce = [0, 0]
        self.ctr = 0
        self.buf = b""          # unread rest of the current block
        self.has_key = self.has_nonce = False

    def set_key(self, k):
        if len(k) == 32:
            self.key = list(struct.unpack("<12I", b"expand 32-byte k" + k))
        else:
            self.key = list(struct.unpack("<12I", b"expand 16-byte k" + k + k))
        self.buf = b""
        self.has_key = True

    def set_nonce(self, lo, hi, iv):
        self.ctr = (hi << 32) | lo
        if iv is not None:
            self.nonce = list(struct.unpack("<2I", iv))
        self.buf = b""

    def stream(self, n):
        out = b""
        while len(out) < n:
            if not self.buf:
                w = self.key + [self.ctr & 0xffffffff, self.ctr >> 32] + self.nonce
                self.buf = chacha_block(w)
                self.ctr = (self.ctr + 1) & ((1 << 64) - 1)
            k = min(n - len(out), len(self.buf))
            out += self.buf[:k]
            self.buf = self.buf[k:]
        return out

    def internal(self):
        pos = 64 - len(self.buf)
        return " ## %d %d %d" % (pos, self.ctr & 0xffffffff, self.ctr >> 32)


def main():
    dig = None          # [name, data]
    dig_done = False
    hm = None           # [name, key, data]
    hm_done = False
    cc = ChaCha()
    out = []
    for line in sys.stdin:
        w = line.split()
        r = "bad-op"
        if w == ["#case"]:
            dig = hm = None
            dig_done = hm_done = False
            cc = ChaCha()
            r = "#case"
        elif len(w) == 2 and w[0] == "d.new" and w[1] in NAMES:
            dig, dig_done, r = [w[1], b""], False, "ok"
        elif len(w) == 2 and w[0] == "d.upd" and dig and not dig_done and unhex(w[1]) is not None:
            dig[1] += unhex(w[1]); r = "ok"
        elif w == ["d.fin"] and dig and not dig_done:
            dig_done = True; r = hexs(H(dig[0], dig[1]))
        elif len(w) == 4 and w[0] == "d.long" and w[1] in NAMES and nat(w[2]) is not None and nat(w[3]) is not None \
                and nat(w[2]) <= 8589934592 and nat(w[3]) <= 255:
            # long-message family: byte j = (j % 251 + seed) & 0xff, 1 MiB at a time
            total, seed = nat(w[2]), nat(w[3])
            n, rl = NAMES[w[1]]
            h = hashlib.new(n)
            CH = 1048576
            pat = bytes((i % 251 + seed) & 0xff for i in range(251)) * (CH // 251 + 3)
            off = 0
            while off < total:
                k = min(CH, total - off)
                o = off % 251
                h.update(memoryview(pat)[o:o + k])
                off += k
            r = hexs(h.digest(rl) if n.startswith("shake") else h.digest())
        elif w == ["d.reset"] and dig:
            dig[1] = b""; dig_done = False; r = "ok"
        elif len(w) == 3 and w[0] == "h.new" and w[1] in NAMES and unhex(w[2]) is not None:
            hm, hm_done, r = [w[1], unhex(w[2]), b""], False, "ok"
        elif len(w) == 2 and w[0] == "h.upd" and hm and not hm_done and unhex(w[1]) is not None:
            hm[2] += unhex(w[1]); r = "ok"
        elif w == ["h.fin"] and hm and not hm_done:
            hm_done = True
            v = hmac_ref(hm[0], hm[1], hm[2])
            if not hm[0].startswith("shake"):
                assert v == pyhmac.new(hm[1], hm[2], NAMES[hm[0]][0]).digest()
            r = hexs(v)
        elif w == ["h.reset"] and hm:
            hm[2] = b""; hm_done = False; r = "ok"
        elif len(w) == 2 and w[0] in ("c.key256", "c.key128"):
            k = unhex(w[1])
            if k is not None and len(k) == (32 if w[0] == "c.key256" else 16):
                cc.set_key(k); r = "ok"
        elif len(w) == 4 and w[0] == "c.nonce":
            lo, hi = nat(w[1]), nat(w[2])
            if lo is not None and hi is not None and lo < 2 ** 32 and hi < 2 ** 32:
                if w[3] == "null":
                    if cc.has_nonce:
                        cc.set_nonce(lo, hi, None); r = "ok"
                else:
                    iv = unhex(w[3])
                    if iv is not None and len(iv) == 8:
                        cc.set_nonce(lo, hi, iv); cc.has_nonce = True; r = "ok"
        elif len(w) == 2 and w[0] == "c.ks":
            n = nat(w[1])
            if n is not None and n <= 1048576 and cc.has_key and cc.has_nonce:
                r = hexs(cc.stream(n)) + cc.internal()
        elif len(w) == 2 and w[0] == "c.xor":
            b = unhex(w[1])
            if b is not None and cc.has_key and cc.has_nonce:
                ks = cc.stream(len(b))
                r = hexs(bytes(x ^ y for x, y in zip(b, ks))) + cc.internal()
        out.append(r)
    sys.stdout.write("\n".join(out) + ("\n" if out else ""))


main()
