"""C01 — talloc: an object lives exactly while some parent or reference holds it.
(Also the shared machinery of C19, see checks/C19.py.)

Theorems: lean/UsualProofs/Props/C01.lean about the executable model lean/Usual/C01/Talloc.lean
(every chunk talloc.c allocates is an object of the model: user objects, TRef chunks, the
.memlimit chunk).  Tie: differential run of the model driver drv_c01 against harness/C01/h.c,
which #includes the working tree's usual/talloc.c and usual/cxalloc.c with a tracking allocator
as USUAL_ALLOC and as explicit CxMem, and prints after EVERY op: result code, destructor calls,
and for every live object parent, reference count, size, talloc_total_size/blocks, the set of
objects for which talloc_is_parent holds, contents-intact, allocator balance per CxMem
(observable) and child order, destructor/release order, memlimit flags and cur/max (internal).
Histories come from the model-guided generator inside the driver (`drv_c01 gen|exh`), so that
arguments are live and the holder graph stays acyclic (the property's quantifier)."""
import os
import subprocess
import vf

PID = "C01"
PROP_MODULES = ["UsualProofs.Props.C01"]
DRIVER = "drv_c01"


def build(ck, prop_modules=None):
    ck.forbid_scan()
    ck.build_proofs(prop_modules or PROP_MODULES, driver=DRIVER)
    h = ck.cc(os.path.join(ck.bdir, "h"), [os.path.join(vf.HARNESS, "C01", "h.c"), "repo:usual/base.c"])
    return [h], [ck.driver_path(DRIVER)]


def split_cases(text):
    cases, cur = [], None
    for l in text.split("\n"):
        if l == "#case":
            cur = []
            cases.append(cur)
        elif l and cur is not None:
            cur.append(l)
    return cases


def gen_cases(ck, seed, count, profile):
    """histories from the model-guided generator of the driver"""
    p = subprocess.run([ck.driver_path(DRIVER), "gen", str(seed), str(count), profile],
                       stdout=subprocess.PIPE, text=True, check=True)
    return split_cases(p.stdout)


def exh_cases(ck, depth):
    p = subprocess.run([ck.driver_path(DRIVER), "exh", str(depth)], stdout=subprocess.PIPE, text=True, check=True)
    return split_cases(p.stdout)


MUTATING = ("free", "fchildren", "unlink", "steal", "move", "reparent", "realloc", "ref", "limit", "autofree")


def nontrivial(c):
    return len(c) >= 2 and any(l.split()[0] in MUTATING for l in c)


class Stats:
    def __init__(self):
        self.ops = {}
        self.kinds = {"refusing-dtor": 0, "reference": 0, "from_cx-root": 0, "null-tracking": 0,
                      "alloc-failure-injected": 0, "huge-size": 0, "memlimit": 0, "probe": 0}
        # branch / outcome of every op as classified by the model (driver mode `stat`)
        self.outcomes = {}

    def add_outcomes(self, ck, cases):
        text = "".join("#case\n" + "\n".join(c) + "\n" for c in cases)
        p = subprocess.run([ck.driver_path(DRIVER), "stat"], input=text, stdout=subprocess.PIPE, text=True)
        for l in p.stdout.split("\n"):
            if l.startswith("tags "):
                for t in l.split()[1:]:
                    self.outcomes[t] = self.outcomes.get(t, 0) + 1

    def add(self, cases):
        for c in cases:
            seen = set()
            for l in c:
                w = l.split()
                self.ops[w[0]] = self.ops.get(w[0], 0) + 1
                if w[0] == "dtor" and len(w) > 2 and w[2] == "refuse":
                    seen.add("refusing-dtor")
                elif w[0] == "ref":
                    seen.add("reference")
                elif w[0] == "alloc" and w[2] == "-" and w[4] == "1":
                    seen.add("from_cx-root")
                elif w[0] == "nullon":
                    seen.add("null-tracking")
                elif w[0] == "limit":
                    seen.add("memlimit")
                elif w[0] == "probe":
                    seen.add("probe")
                if w[-1] == "F":
                    seen.add("alloc-failure-injected")
                if w[0] in ("alloc", "realloc") and int(w[3]) >= 0x10000000 - 1:
                    seen.add("huge-size")
            for k in seen:
                self.kinds[k] += 1


def go(ck, hcmd, dcmd, cases, label, stats, chunk=2500):
    stats.add(cases)
    # outcome distribution: everything in the quick tier, a 40k-history sample per label otherwise
    stats.add_outcomes(ck, cases if ck.tier == "quick" else cases[:40000])
    for ch in vf.chunks(cases, chunk):
        ck.compare_cases(hcmd, dcmd, ch, label=label, nontrivial=nontrivial)


TRUSTED = [
    "Lean 4.33.0 kernel; axioms of the property theorems: subset of propext, Quot.sound, Classical.choice (audited this run)",
    "model lean/Usual/C01/Talloc.lean is tied to usual/talloc.c by the differential run of drv_c01 vs harness/C01/h.c "
    "after every op (generator lean/Usual/C01/HistGen.lean, canonicalisation lean/Usual/C01/Drv.lean + h.c); "
    "the model of the code as pinned (Cfg.old, used by the counterexample theorems) was validated the same way against the pinned code",
    "pointers are modelled by ids; header relocation in _talloc_realloc, MAGIC_FREE poisoning and all pointer-level "
    "safety are watched by ASan/UBSan and the always-moving tracking allocator, not proved",
    "fuel: the model's recursive functions carry explicit fuel and a loop-protocol assertion; fuel adequacy "
    "(fuel_suffices) and the assertion (no_stuck) are proved, so no theorem assumes them; the driver still prints "
    "both ghost flags on every state of every run (never 1)",
]

ASSUME = [
    "destructors do not call back into talloc, except talloc_free(self) (answered by the FLAG_PENDING guard)",
    "const names only (talloc_set_name / name children are not modelled), no talloc_autofree_context",
    "the null context is not passed to talloc calls as an object",
    "LP64: sizeof(struct THeader) = 88, ALIGN = 8",
]


def run(ck):
    hcmd, dcmd = build(ck)
    ck.level = "proof"
    ck.cov["trusted_base"] = TRUSTED
    ck.assumptions += ASSUME
    ck.cov["rule"] = (
        "case = one history (#case-separated) of 1-60 talloc calls over <= 12 user objects produced by the "
        "model-guided generator (live arguments, references/steals only where the holder graph stays acyclic; "
        "op mix biased to reference x reparent x realloc x refusing destructor; talloc_move with the caller's variable "
        "read back after the call; talloc_autofree_context() asked for, populated, freed, asked for again, "
        "process exit in a forked child with the context alive / freed; sizes from {0,1,7,8,9,16,24,100,"
        "4095,4096,TALLOC_MAXLEN-1,TALLOC_MAXLEN,TALLOC_MAXLEN+1,..}; default cx and talloc_from_cx roots; with and "
        "without null tracking; injected allocator failures), plus ALL sequences of N ops from a 16-op-per-object "
        "alphabet after each of 8 allocation shapes of 3 objects (N=2 quick, N=3 thorough); a quarter of the random "
        "histories start from a structured subtree of depth 3-4 with references from sibling branches inside it and "
        "from outside, several refusing destructors, then free / unlink / free_children of it (repeated promotion, "
        "several throw_child in one call); the model classifies the branch / outcome of every op "
        "(coverage.outcome_distribution); implementation and "
        "model are compared after every op; distinct = distinct history containing at least one mutating call")
    stats = Stats()
    go(ck, hcmd, dcmd, vf.corpus_cases(PID), "corpus", stats)
    intensify = not ck.proof_ok
    mult = 4 if intensify else 1
    ex = exh_cases(ck, ck.scale(2, 3))
    ck.cov["exhaustive_histories"] = len(ex)
    go(ck, hcmd, dcmd, ex, "exhaustive", stats, chunk=50000)
    n = ck.scale(12000, 400000) * mult
    done = 0
    part = 0
    while done < n:
        k = min(20000, n - done)
        cases = gen_cases(ck, ck.seed * 1000 + part, k, "c01")
        go(ck, hcmd, dcmd, cases, "random", stats)
        if part == 0:
            for c in cases[:3]:
                ck.sample(c[:14])
        done += k
        part += 1
        if len([v for v in ck.violations if v["kind"] == "obs"]) >= 3:
            break
    ck.cov["op_histogram"] = stats.ops
    ck.cov["histories_with"] = stats.kinds
    ck.cov["outcome_distribution"] = dict(sorted(stats.outcomes.items()))
    ck.cov["partial"] = PARTIAL


PARTIAL = [
    "no statement is left _partial; not stated as one theorem: WHICH referenced descendants survive a free (the "
    "survivor set as an iff) -- unlink_last_releases gives the released set reached without passing a referenced "
    "object, unlink_last_survivors the final parent and references of everything that does survive",
]


def replay(ck, path):
    hcmd, dcmd = build(ck)
    return vf.generic_replay(ck, path, hcmd, dcmd)
