"""C15 — hash table, binary heap, list_sort / List / StatList / SHList match their abstract models.

Theorems: lean/UsualProofs/Props/C15.lean (about the models in lean/Usual/C15/).
Tie: differential run of the model driver (lean/Driver/C15.lean) against harness/C15/h.c, which
calls the real hashtab-impl.h / heap.c / list.c / list.h / statlist.h / shlist.h in-process.
"""
import os
import re
import vf

PID = "C15"
PROP_MODULES = ["UsualProofs.Props.C15"]


def build(ck):
    ck.forbid_scan()
    ck.build_proofs(PROP_MODULES, driver="drv_c15")
    h = ck.cc(os.path.join(ck.bdir, "h"),
              [os.path.join(vf.HARNESS, PID, "h.c"), "repo:usual/heap.c", "repo:usual/list.c",
               "repo:usual/cxalloc.c"])
    return [h], [ck.driver_path("drv_c15")]


# ------------------------------------------------------------------ generators
def next_pos(p, size):
    return (p * 5 + 1) & (size - 1)


def gen_ht(rng, big=False):
    """hash table history: adversarial key families on a small table"""
    size = rng.choice([4, 4, 8, 8, 16, 16, 32, 64, 64, 2, 128] if not big else [32, 64, 64, 128])
    mode = 1 if rng.chance(1, 4) else 0
    fam = rng.below(5)
    home = rng.below(size)
    hi = rng.choice([1, 1, 1, 1 << 20, 1 << 40, 1 << 50])  # large multipliers: 64-bit keys

    def key():
        f = fam if fam < 4 else rng.below(4)
        if f == 0:      # every key has the same home slot
            return home + size * rng.below(64) * hi
        if f == 1:      # homes are neighbours on the probe cycle
            p = home
            for _ in range(rng.below(4)):
                p = next_pos(p, size)
            return p + size * rng.below(8)
        if f == 2:      # few distinct keys, many duplicates (multimap)
            return rng.below(3) * size + home
        return rng.below(2 * size)
    ops = ["ht new %d %d" % (size, mode)]
    live = []
    nextv = 1
    nops = 10 + rng.below(60 if not big else 260)
    for _ in range(nops):
        r = rng.below(100)
        if r < 42 or not live:
            k = key()
            if mode == 0:
                v = nextv
                nextv += 1
            else:
                v = 16 * rng.below(6) + 1 + rng.below(15)
            a = "-"
            if rng.chance(1, 5):
                a = str(v)
            elif rng.chance(1, 12) and live:
                a = str(rng.choice(live)[1])
            ops.append("ht ins %d %d %s" % (k, v, a))
            live.append((k, v))          # approximate (an `exists` answer stores nothing)
        elif r < 75:
            if rng.chance(5, 6):
                i = rng.below(len(live))
                k, v = live[i]
                live[i] = live[-1]
                live.pop()
            else:
                k, v = key(), 1 + rng.below(nextv + 16)
            ops.append("ht del %d %s" % (k, "-" if rng.chance(1, 30) else str(v)))
        elif r < 90:
            if rng.chance(3, 4):
                k, v = rng.choice(live)
            else:
                k, v = key(), 1 + rng.below(nextv + 16)
            ops.append("ht get %d %s" % (k, "-" if rng.chance(1, 30) else str(v)))
        elif r < 94:
            ops.append("ht copy %d" % rng.choice([2, 4, 8, 16, 32, 64, 128]))
        else:
            ops.append("ht all")
    ops.append("ht all")
    ops.append("ht dump")
    return ops


def gen_hp(rng, big=False):
    ops = []
    ids = list(range(1, 4000))
    inheap = 0
    used = set()
    npri = rng.choice([1, 2, 3, 5, 8, 1000])
    nops = 10 + rng.below(80 if not big else 600)
    for _ in range(nops):
        r = rng.below(100)
        if r < 45 or inheap == 0:
            i = 1 + rng.below(3999)
            ops.append("hp push %d %d" % (i, rng.below(npri)))     # a repeated live id is `bad-op` on both sides
            inheap += 1
        elif r < 65:
            ops.append("hp pop")
            inheap = max(0, inheap - 1)
        elif r < 85:
            ops.append("hp rm %d" % rng.below(inheap + 2))
            inheap = max(0, inheap - 1)
        elif r < 90:
            ops.append("hp top")
        elif r < 95:
            ops.append("hp get %d" % rng.below(inheap + 2))
        elif r < 97:
            ops.append("hp reserve %d" % rng.below(100))
        else:
            ops.append("hp dump")
    ops.append("hp dump")
    for _ in range(min(inheap + 1, 12)):
        ops.append("hp pop")
    return ops


def gen_dl(rng):
    m = 3 + rng.below(22)
    nk = 1 + rng.below(8)
    ops = []
    st = {}
    for x in range(5, 5 + m):
        ops.append("dl node %d" % x)
        ops.append("dl key %d %d" % (x, rng.below(nk)))
        st[x] = 0        # 0 detached, else head
    nops = 10 + rng.below(70)
    for _ in range(nops):
        r = rng.below(100)
        x = 5 + rng.below(m)
        h = 1 + rng.below(4)
        if r < 40:
            if st[x] == 0:
                ops.append("dl %s %d %d" % (rng.choice(["pre", "app"]), h, x))
                st[x] = h
            else:
                ops.append("dl del %d" % x)
                st[x] = 0
        elif r < 50:
            ops.append("dl del %d" % x)
            st[x] = 0
        elif r < 62:
            ops.append("dl pop %d" % h)
            # we do not know which item left: ask the lists again lazily (st is approximate)
            for y in st:
                if st[y] == h:
                    pass
            st = {y: (v if v != h else -1) for y, v in st.items()}   # -1: unknown
        elif r < 70:
            members = [y for y, v in st.items() if v == h and h >= 3]
            pos = rng.choice(members) if members and rng.chance(3, 4) else h
            if st[x] == 0 and h >= 3:
                ops.append("dl %s %d %d %d" % (rng.choice(["before", "after"]), h, x, pos))
                st[x] = h
            else:
                ops.append("dl first %d" % h)
        elif r < 78:
            ops.append("dl %s %d" % (rng.choice(["first", "last", "empty"]), h))
        elif r < 88:
            ops.append("dl sort %d" % h)
        elif r < 94:
            ops.append("dl key %d %d" % (x, rng.below(nk)))
        elif r < 97:
            ops.append("dl node %d" % x)
        else:
            ops.append("dl dump %d" % h)
        # resolve unknown membership conservatively: unknown items are only deleted, never inserted
        for y in list(st):
            if st[y] == -1:
                st[y] = 9
    for h in (1, 2, 3, 4):
        ops.append("dl dump %d" % h)
    return ops


def gen_sort(rng, nmax):
    """list_sort on long lists with few distinct keys, followed by removals and a second sort"""
    n = rng.choice([0, 1, 2, 3, 7, 8, 9, 31, 32, 33, 100, 1000, nmax, 1 + rng.below(nmax)])
    n = min(n, nmax)
    k = 1 + rng.below(8)
    h = 1 + rng.below(4)
    ops = ["dl fill %d %d %d %d" % (h, n, k, rng.below(1 << 30)), "dl sort %d" % h]
    for _ in range(rng.below(4)):
        if n:
            ops.append("dl del %d" % (5 + rng.below(n)))
    if n:
        x = 5 + rng.below(n)
        ops += ["dl key %d %d" % (x, rng.below(k)), "dl sort %d" % h, "dl pop %d" % h, "dl last %d" % h]
    if n <= 40:
        ops.append("dl dump %d" % h)
    return ops


def gen_sh(rng):
    m = 2 + rng.below(30)
    ops = []
    st = {}
    for k in range(2, 2 + m):
        ops.append("sh node %d" % k)
        st[k] = -1
    nops = 10 + rng.below(70)
    for _ in range(nops):
        r = rng.below(100)
        k = 2 + rng.below(m)
        h = rng.below(2)
        if r < 40:
            if st[k] == -1:
                ops.append("sh %s %d %d" % (rng.choice(["app", "pre"]), h, k))
                st[k] = h
            else:
                ops.append("sh rm %d" % k)
                st[k] = -1
        elif r < 50:
            ops.append("sh rm %d" % k)
            st[k] = -1
        elif r < 60:
            ops.append("sh pop %d" % h)
            st = {y: (v if v != h else 9) for y, v in st.items()}
        elif r < 70:
            ops.append("sh %s %d" % (rng.choice(["first", "last", "empty"]), h))
        elif r < 95:
            # relocation of the whole region, overlapping and far moves
            ops.append("sh move %d" % (8 * rng.below((8192 - 1024) // 8 + 1)))
        else:
            ops.append("sh dump %d" % h)
    ops += ["sh move %d" % (8 * rng.below(800)), "sh dump 0", "sh dump 1"]
    return ops


def boundary_cases():
    """hand-made boundary histories (run on every tier in addition to corpus/)"""
    cases = []
    for size in (2, 4, 8, 16, 32, 64):
        # fill one home slot's chain through several grown tables, then delete from the middle
        ops = ["ht new %d 0" % size]
        n = size * 2
        for i in range(n):
            ops.append("ht ins %d %d -" % (i * size, i + 1))
        ops.append("ht all")
        for i in range(0, n, 2):
            ops.append("ht del %d %d" % (i * size, i + 1))
            ops.append("ht all")
        ops.append("ht dump")
        cases.append(ops)
        # walk the whole probe cycle: one key per slot in probe order, delete in probe order
        ops = ["ht new %d 0" % size]
        p = 0
        seq = []
        for i in range(size):
            seq.append(p)
            p = next_pos(p, size)
        for i, q in enumerate(seq[: size * 3 // 4]):
            ops.append("ht ins %d %d -" % (seq[0] + 0 * q, i + 1))
        for i, q in enumerate(seq[: size * 3 // 4]):
            ops.append("ht del %d %d" % (seq[0], i + 1))
            ops.append("ht all")
        ops.append("ht dump")
        cases.append(ops)
    cases.append(["hp pop", "hp top", "hp rm 0", "hp get 0", "hp push 1 1", "hp rm 1", "hp rm 0", "hp dump"])
    cases.append(["hp push %d 0" % i for i in range(1, 40)] + ["hp rm 17", "hp rm 0", "hp rm 36", "hp dump"] + ["hp pop"] * 40)
    cases.append(["dl sort 1", "dl pop 1", "dl first 3", "dl last 4", "dl empty 2", "dl dump 1"])
    cases.append(["sh pop 0", "sh first 1", "sh last 0", "sh empty 0", "sh move 7168", "sh node 2", "sh app 0 2",
                  "sh move 0", "sh rm 2", "sh rm 2", "sh dump 0"])
    return cases


def run(ck):
    hcmd, dcmd = build(ck)
    ck.level = "proof"
    ck.cov["trusted_base"] = [
        "Lean 4.33 kernel", "axioms: propext, Quot.sound, Classical.choice",
        "models lean/Usual/C15/*.lean are hand transcriptions of hashtab-impl.h, heap.c, list.c, list.h, "
        "statlist.h, shlist.h; tied to the code by the differential run only (no translated functions)",
        "correspondence harness harness/C15/h.c + generators in checks/C15.py + driver lean/Driver/C15.lean",
        "gcc 12 -O1 with ASan/UBSan as the execution of the C code"]
    ck.cov["rule"] = ("one case = one op history from a fresh state on one structure (ht/hp/dl/sh); ht: table size "
                      "2..128, key families all-colliding / probe-cycle neighbours / duplicates / random, exact and "
                      "class comparison; hp: duplicate priorities; dl: List+StatList mixes and list_sort up to 10^4 "
                      "elements with <= 8 keys; sh: region memmove'd between ops. distinct = distinct op histories; "
                      "every history is non-trivial (>= 10 ops) except the boundary list")
    ck.assumptions += ["libc malloc/realloc never fail (allocation failure is property C10)",
                       "table sizes are powers of two >= 2 (API contract of hashtab_create)",
                       "callers store a non-NULL value into a freshly inserted slot and never insert an item "
                       "that is already a member of a list/heap (API contract)",
                       "lists shorter than 2^64 (64-slot merge stack)"]
    rng = vf.SplitMix(ck.seed * 1000003 + 15)
    ck.compare_cases(hcmd, dcmd, vf.corpus_cases(PID), label="corpus")
    ck.compare_cases(hcmd, dcmd, boundary_cases(), label="boundary")
    nq = ck.scale(1, 24)
    broken = (not ck.proof_ok)
    if broken:
        nq = max(nq, 4)
    hist = {}
    plan = [("ht", lambda: gen_ht(rng), 2400 * nq), ("ht-big", lambda: gen_ht(rng, True), 150 * nq),
            ("hp", lambda: gen_hp(rng), 1500 * nq), ("hp-big", lambda: gen_hp(rng, True), 100 * nq),
            ("dl", lambda: gen_dl(rng), 1500 * nq), ("sh", lambda: gen_sh(rng), 1200 * nq),
            ("sort", lambda: gen_sort(rng, 300), 300 * nq), ("sort-big", lambda: gen_sort(rng, 10000), 12 * nq)]
    first = {}
    for label, g, n in plan:
        cases = [g() for _ in range(n)]
        first[label] = cases[0]
        for c in cases:
            for l in c:
                k = " ".join(l.split()[:2])
                hist[k] = hist.get(k, 0) + 1
        for chunk in vf.chunks(cases, 600 if "big" not in label else 40):
            nf = ck.compare_cases(hcmd, dcmd, chunk, label=label)
            if nf and not broken:
                # something differs: intensify on this generator before giving the verdict
                broken = True
    ck.cov["op_histogram"] = hist
    # measured behaviour of the implementation on a sample (growth, compaction, duplicates)
    sample = [gen_ht(vf.SplitMix(ck.seed + i)) for i in range(200)]
    txt = "\n".join("\n".join(["#case"] + c) for c in sample) + "\n"
    rc, out, err = ck.run(hcmd, input_text=txt)
    ck.cov["ht_sample"] = {
        "cases": len(sample),
        "lines_with_chain_len_ge_2": len(re.findall(r"## nt=(?:[2-9]|\d\d)", out)),
        "exists_answers": out.count("exists "),
        "found_answers": out.count("found "),
        "none_answers": len(re.findall(r"^none", out, re.M)),
        "all_checks": len(re.findall(r"^all (\d+)/\1 ", out, re.M)),
    }
    for k in ("ht", "hp", "dl", "sh", "sort"):
        ck.sample(" ; ".join(first[k][:14]))
    if ck.tier == "thorough":
        ck.leanchecker(PROP_MODULES)


def replay(ck, path):
    return vf.generic_replay(ck, path, *build(ck))
