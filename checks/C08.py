"""C08 — TLS server-name verification accepts only names the certificate really covers.

Proof: lean/UsualProofs/Props/C08.lean (about the model lean/Usual/C08/TlsName.lean).
Tie  : correspondence — harness/C08/h.c builds X509 objects in memory and calls the real
       tls_check_name / tls_peer_cert_contains_name / (sample) a real client handshake;
       the model driver drv_c08 answers the same op lines.
The inet_pton that is linked is a parameter of model and theorems; the harness is built
twice: mode g = the platform's inet_pton (HAVE_INET_PTON, glibc here; model flag strict),
mode c = usual/socket_pton.c forced in (model flag non-strict).
"""
import os
import re
from concurrent.futures import ThreadPoolExecutor

import vf

PID = "C08"
PROP_MODULES = ["UsualProofs.Props.C08"]

TLS_SRCS = ["repo:usual/tls/tls.c", "repo:usual/tls/tls_peer.c", "repo:usual/tls/tls_client.c",
            "repo:usual/tls/tls_server.c", "repo:usual/tls/tls_config.c",
            "repo:usual/tls/tls_conninfo.c", "repo:usual/tls/tls_util.c",
            "repo:usual/tls/tls_ocsp.c", "repo:usual/tls/tls_compat.c", "repo:usual/tls/tls_cert.c",
            "repo:usual/string.c", "repo:usual/cxalloc.c", "repo:usual/mbuf.c"]


def tls_flags():
    """TLS_CPPFLAGS / TLS_LDFLAGS / TLS_LIBS of the configured tree (config.mak)"""
    cpp, ld, libs = [], [], ["-lssl", "-lcrypto"]
    try:
        txt = open(vf.repo_file("config.mak")).read()
        for key, dst in (("TLS_CPPFLAGS", cpp), ("TLS_LDFLAGS", ld), ("TLS_LIBS", None)):
            m = re.search(r"^%s[ \t]*=[ \t]*(.*)$" % key, txt, re.M)
            if m:
                if dst is None:
                    if m.group(1).split():
                        libs = m.group(1).split()
                else:
                    dst += m.group(1).split()
    except OSError:
        pass
    return cpp, ld, libs


def platform_has_inet_pton():
    try:
        txt = open(vf.repo_file("usual/config.h")).read()
    except OSError:
        return True
    return re.search(r"^#define\s+HAVE_INET_PTON\s+1", txt, re.M) is not None


def build(ck):
    ck.forbid_scan()
    ck.build_proofs(PROP_MODULES, driver="drv_c08")
    cpp, ld, libs = tls_flags()
    src = [os.path.join(vf.HARNESS, PID, "h.c")] + TLS_SRCS
    hs = {}

    def one(mode):
        fl = list(cpp) + list(ld) + (["-DC08_COMPAT_PTON"] if mode == "c" else [])
        return mode, ck.cc(os.path.join(ck.bdir, "h_" + mode), src, flags=fl, libs=libs)
    with ThreadPoolExecutor(2) as ex:
        for mode, path in ex.map(one, ["g", "c"]):
            hs[mode] = [path]
    return hs, [ck.driver_path("drv_c08")]


# ------------------------------------------------------------------ generator

ALPHA = [b"a", b"B", b"c", b"*", b".", b"-", b"0", b"1", b":", b"\0", b" "]
ALPHA_NAME = [b"a", b"B", b"c", b"*", b".", b"-", b"0", b"1", b":", b" "]
LABELS = [b"a", b"B", b"c", b"ab", b"", b"*", b"a*", b"*a", b"0", b"1", b"a-1", b"xn--a"]
IP_LITS = [b"1.2.3.4", b"0000.1.2.3", b"1.2.3.0255", b"001.002.003.004", b"::ffff:1.2.3.0004", b"01.2.3.4", b"1.2.3.04", b"1.2.3", b"1.2.3.4.", b"1.2.3.256", b"0.0.0.0",
           b"255.255.255.255", b"1.2.3.4.5", b"::1", b"0:0:0:0:0:0:0:1", b"::", b"::ffff:1.2.3.4",
           b"::FFFF:1.2.3.4", b"::ffff:01.2.3.4", b"fe80::1", b"FE80::1", b"Fe80::1",
           b"1:2:3:4:5:6:7:8", b"1:2:3:4:5:6:7::", b"::2:3:4:5:6:7:8", b"1:2:3:4:5:6:1.2.3.4",
           b"1::8", b"1:2:3:4:5:6:7", b"1:::8", b":1", b"1:", b"12345::", b"0001::", b"a:B::c",
           b"1:2:3:4:5:6:7:8:9", b"::1.2.3", b"1.2.3.4::", b"0:0:0:0:0:0:0:0", b"::0:0:0:0:0:0:0",
           b"1:2:3:4:5:6:7:1.2.3.4", b"10.0.0.1", b"0:0", b"1.1.1.1", b"::a", b"::1:", b"1.0.0.1"]
IP_ADDRS = [bytes([1, 2, 3, 4]), bytes(15) + b"\x01", bytes(10) + b"\xff\xff\x01\x02\x03\x04",
            b"\xfe\x80" + bytes(13) + b"\x01", bytes(16), bytes(4), bytes([1, 2, 3]),
            bytes([1, 2, 3, 4, 5]), bytes([10, 0, 0, 1]), bytes([1, 1, 1, 1]), b"",
            bytes([0, 1, 0, 2, 0, 3, 0, 4, 0, 5, 0, 6, 0, 7, 0, 8])]


def swapcase(b):
    return bytes(c ^ 0x20 if (65 <= c <= 90 or 97 <= c <= 122) else c for c in b)


def rand_name(rng):
    r = rng.below(100)
    if r < 18:
        return rng.choice(IP_LITS)
    if r < 60:
        labels = [rng.choice(LABELS) for _ in range(1 + rng.below(4))]
        s = b".".join(labels)
        if rng.chance(1, 8):
            s += b"."
        if rng.chance(1, 12):
            s = b"." + s
        return s[:14]
    return b"".join(rng.choice(ALPHA_NAME) for _ in range(rng.below(13)))


def rand_certname(rng, name):
    """a certificate name, mostly derived from the requested name so that matches, near
    matches and malicious variants are frequent"""
    r = rng.below(100)
    if r < 12:
        n = name
    elif r < 20:
        n = swapcase(name)
    elif r < 45:
        # wildcard over the name's domain part (correct, or off by a label)
        i = name.find(b".")
        dom = name[i:] if i >= 0 else b"." + name
        k = rng.below(10)
        if k < 5:
            n = b"*" + dom
        elif k == 5:
            n = b"*" + swapcase(dom)
        elif k == 6:
            j = dom.find(b".", 1)
            n = b"*" + (dom[j:] if j >= 0 else dom)          # one label short: must not match
        elif k == 7:
            n = b"*" + name[:1] + dom                        # "*f.oo.bar": partial label
        elif k == 8:
            n = name[:1] + b"*" + dom                        # "f*.bar"
        else:
            n = b"*." + rng.choice(LABELS) + dom
    elif r < 55:
        n = rand_name(rng)
        if n and rng.chance(1, 2):
            n = b"*." + n.split(b".", 1)[-1]
    elif r < 85:
        n = b"".join(rng.choice(ALPHA) for _ in range(rng.below(13)))
    elif r < 90:
        n = b" "
    else:
        n = name
    if rng.chance(1, 14):
        k = rng.below(len(n) + 1)
        n = n[:k] + b"\0" + n[k:]
    if rng.chance(1, 40):
        n = n + b"."
    return n


def rand_case(rng, op="cert", mode="g"):
    name = rand_name(rng)
    words = [op, mode]
    nsan = rng.choice([0, 0, 1, 1, 2, 3])
    for _ in range(nsan):
        r = rng.below(100)
        if r < 22:
            a = rng.choice(IP_ADDRS)
            if rng.chance(1, 10) and a:
                a = a[:-1]
            words.append("san-ip:" + vf.hexs(a))
        elif r < 30:
            words.append("san-mail:" + vf.hexs(rand_certname(rng, name)))
        else:
            words.append("san-dns:" + vf.hexs(rand_certname(rng, name)))
    ncn = rng.choice([0, 1, 1, 1, 1, 2])
    for _ in range(ncn):
        words.append("cn:" + vf.hexs(rand_certname(rng, name)))
    words.append("name:" + vf.hexs(name))
    return [" ".join(words)]


def hs_case(rng, mode):
    """full-handshake case: requested name non-empty, no leading/trailing blanks needed by
    the line protocol anyway (hex), SNI-compatible (OpenSSL only limits the length)."""
    while True:
        c = rand_case(rng, "hs", mode)
        if not c[0].endswith("name:-"):
            return c

# ---- long names (buffer-size boundaries: 64 = ub-common-name, 128, 255/256 = DNS / SNI limits)
LONG_LENS = [63, 64, 64, 64, 65, 66, 127, 128, 129, 130, 255, 256]
LCH = [b"a", b"b", b"c", b"B", b"0", b"1", b"-"]


def long_host(rng, L):
    """a DNS-shaped string of exactly L bytes (one long label, or labels of 1..k bytes)"""
    if rng.chance(1, 4):
        return b"".join(rng.choice(LCH) for _ in range(L))
    k = rng.choice([3, 8, 20, 63])
    out = b""
    while len(out) < L:
        out += b"".join(rng.choice(LCH) for _ in range(1 + rng.below(k))) + b"."
    out = out[:L]
    if out.endswith(b"."):
        out = out[:-1] + b"a"
    return out


def long_pair(rng):
    """(certificate name, requested name) around a length boundary"""
    L = rng.choice(LONG_LENS)
    host = long_host(rng, L)
    v = rng.below(12)
    if v == 0:
        return host, host
    if v == 1:
        return host + b"x", host
    if v == 2:
        return host, host + b"x"
    if v == 3:
        return host[:-1], host
    if v == 4:                                  # the name is a proper prefix of the certificate name
        return host + rng.choice([b".evil", b".attacker.example", b".a", b"."]), host
    if v == 5:
        return swapcase(host), host
    if v == 6:                                  # genuine wildcard, certificate name of length L
        cert = b"*." + long_host(rng, max(3, L - 2))
        if b"." not in cert[2:]:
            cert = cert[:-2] + b".a" if len(cert) > 5 else cert + b".a"
        return cert, rng.choice([b"h", b"host-1", b"B"]) + cert[1:]
    if v == 7:                                  # wildcard whose suffix is cut at a boundary
        cert = b"*." + long_host(rng, L + 1 + rng.below(40))
        cut = rng.choice([63, 64, 65, 127, 128, 129, 255, 256])
        return cert, b"h" + cert[1:cut]
    if v == 8:                                  # NUL after a boundary
        cut = rng.choice([63, 64, 65, 128])
        return host[:cut] + b"\0" + host[cut:], host[:cut]
    if v == 9:                                  # name = certificate name cut at a boundary
        cert = long_host(rng, L + 1 + rng.below(30))
        return cert, cert[:rng.choice([63, 64, 65, 127, 128, 129])]
    if v == 10:                                 # long certificate name, short unrelated request
        return host, rand_name(rng)
    return rand_certname(rng, host), host       # long request, derived certificate name


def long_case(rng, op="cert", mode="g", maxname=None):
    while True:
        cert, name = long_pair(rng)
        if maxname is None or 0 < len(name) <= maxname:
            break
    words = [op, mode]
    place = rng.below(6)
    if place in (0, 1):
        words.append("cn:" + vf.hexs(cert))
    elif place in (2, 3):
        words.append("san-dns:" + vf.hexs(cert))
    elif place == 4:                            # SAN present but not matching, CN decides
        words.append("san-dns:" + vf.hexs(rng.choice([b"other.example", b"*.other.example", name[:-1] or b"x"])))
        words.append("cn:" + vf.hexs(cert))
    else:
        words.append("san-dns:" + vf.hexs(rand_certname(rng, name)))
        words.append("san-dns:" + vf.hexs(cert))
        if rng.chance(1, 2):
            words.append("cn:" + vf.hexs(rand_certname(rng, name)))
    words.append("name:" + vf.hexs(name))
    return [" ".join(words)]


# ---- one client context used for several connects
def entry_names(line):
    out = []
    for w in line.split()[2:-1]:
        k, h = w.split(":")
        if k in ("san-dns", "cn") and h != "-":
            out.append(bytes.fromhex(h))
    return out


def seq_case(rng, mode):
    """first attempt (connect that fails half-way, or a complete handshake) for name A, then -
    with or without tls_reset - a handshake for a different name B on the SAME client context;
    A is chosen so that the certificate of the second attempt covers exactly one of A, B often."""
    second = hs_case(rng, mode) if rng.chance(3, 4) else long_case(rng, "hs", mode, maxname=200)
    second = ["chs " + second[0][3:]]
    h = second[0].split()[-1][5:]
    b_name = b"" if h == "-" else bytes.fromhex(h)
    cands = []
    for n in entry_names(second[0]):
        if n.startswith(b"*."):
            n = b"h" + n[1:]
        if n and b"\0" not in n and len(n) <= 200 and n.lower() != b_name.lower():
            cands.append(n)
    r = rng.below(10)
    if cands and r < 5:
        a = rng.choice(cands)
    elif r < 8:
        a = rng.choice([b"other.example.org", b"a", b"B.c", b"1.2.3.4", b"::1"])
    else:
        a = rand_name(rng) or b"x"
    if a.lower() == b_name.lower():
        a = b"other.example.org"
    if rng.chance(1, 2):
        first = ["cfail %s name:%s" % (mode, vf.hexs(a))]
    else:
        ents = second[0].split()[2:-1] if rng.chance(2, 3) else ["san-dns:" + vf.hexs(a)]
        first = [" ".join(["chs", mode] + ents + ["name:" + vf.hexs(a)])]
    mid = ["creset"] if rng.chance(1, 4) else []
    case = first + mid + second
    if rng.chance(1, 5):                        # a third attempt, for the first name again
        case += [" ".join(["chs", mode] + second[0].split()[2:-1] + ["name:" + vf.hexs(a)])]
    return case


def hsr_case(rng, mode):
    """one connection, several calls (h = tls_handshake, w = tls_write, r = tls_read) on the SAME
    client context: the verdict of the first call must be the verdict of every later call"""
    base = hs_case(rng, mode) if rng.chance(3, 4) else long_case(rng, "hs", mode, maxname=200)
    script = "".join(rng.choice("hhhwr") for _ in range(2 + rng.below(5)))
    return ["hsr %s %s %s" % (mode, script, base[0].split(" ", 2)[2])]


# ---- letter case on the handshake path: IP literals are byte-exact, DNS names are not
V6_GROUPS = [  # (spellings of one and the same address)
    [b"2001:DB8::A", b"2001:db8::a", b"2001:Db8::a", b"2001:0DB8:0:0:0:0:0:A", b"2001:db8:0:0:0:0:0:a",
     b"2001:DB8:0::A", b"2001:0db8::000a"],
    [b"FE80::1", b"fe80::1", b"Fe80::1", b"FE80:0:0:0:0:0:0:1", b"fe80::0001"],
    [b"::FFFF:1.2.3.4", b"::ffff:1.2.3.4", b"::FffF:1.2.3.4", b"0:0:0:0:0:FFFF:1.2.3.4",
     b"0:0:0:0:0:ffff:1.2.3.4", b"::FFFF:102:304", b"::ffff:102:304"],
    [b"::A", b"::a", b"0:0:0:0:0:0:0:A", b"::000A"],
    [b"ABCD:EF01::", b"abcd:ef01::", b"AbCd:eF01::", b"ABCD:EF01:0:0:0:0:0:0"],
    [b"A:B:C:D:E:F:1:2", b"a:b:c:d:e:f:1:2", b"A:b:C:d:E:f:1:2", b"000A:000B:C:D:E:F:1:2"],
    [b"1.2.3.4"], [b"::1", b"0:0:0:0:0:0:0:1"],
]
V6_ADDR = {0: bytes.fromhex("20010db800000000000000000000000a"), 1: bytes.fromhex("fe800000000000000000000000000001"),
           2: bytes(10) + b"\xff\xff\x01\x02\x03\x04", 3: bytes(15) + b"\x0a",
           4: bytes.fromhex("abcdef01") + bytes(12), 5: bytes.fromhex("000a000b000c000d000e000f00010002"),
           6: bytes([1, 2, 3, 4]), 7: bytes(15) + b"\x01"}
DNS_MIXED = [b"WWW.Example.COM", b"www.example.com", b"Www.EXAMPLE.com", b"MAIL.Host-1.Example.ORG", b"A.b", b"XN--A.De",
             b"LOCALHOST", b"Host", b"a.B.c.D"]


def mixcase(rng, b):
    return bytes((c ^ 0x20) if ((65 <= c <= 90 or 97 <= c <= 122) and rng.chance(1, 2)) else c for c in b)


def case_case(rng, mode, op=None):
    """handshake for a name whose letter case matters (IP literal: CN must be byte-identical) or must
    not matter (DNS name); mostly CN-only certificates"""
    op = op or rng.choice(["hs", "hs", "hsn", "hsn", "chs", "hsr"])
    ents = []
    if rng.chance(2, 3):
        gi = rng.below(len(V6_GROUPS))
        grp = V6_GROUPS[gi]
        name = rng.choice(grp)
        if rng.chance(1, 4):
            name = mixcase(rng, name)
        r = rng.below(10)
        if r < 3:
            cn = name
        elif r < 5:
            cn = name.lower() if rng.chance(1, 2) else name.upper()
        elif r < 7:
            cn = mixcase(rng, name)
        elif r < 9:
            cn = rng.choice(grp)                # equivalent (or the same) spelling
        else:
            cn = rng.choice(rng.choice(V6_GROUPS))
        k = rng.below(10)
        if k == 0:
            ents.append("san-ip:" + vf.hexs(V6_ADDR[gi]))
        elif k == 1:
            ents.append("san-ip:" + vf.hexs(V6_ADDR[(gi + 1) % len(V6_GROUPS)]))
        elif k == 2:
            ents.append("san-dns:" + vf.hexs(cn))
        ents.append("cn:" + vf.hexs(cn))
    else:
        name = rng.choice(DNS_MIXED)
        if rng.chance(1, 2):
            name = mixcase(rng, name)
        r = rng.below(8)
        if r < 2:
            cn = name
        elif r < 4:
            cn = name.lower() if rng.chance(1, 2) else name.upper()
        elif r < 5:
            cn = mixcase(rng, name)
        elif r < 7 and b"." in name:
            cn = mixcase(rng, b"*" + name[name.index(b"."):])
        else:
            cn = rng.choice(DNS_MIXED)
        if rng.chance(1, 3):
            ents.append("san-dns:" + vf.hexs(cn))
        else:
            ents.append("cn:" + vf.hexs(cn))
    head = [op, mode]
    if op == "hsr":
        head.append("".join(rng.choice("hhwr") for _ in range(2 + rng.below(3))))
    return [" ".join(head + ents + ["name:" + vf.hexs(name)])]


def hsq_case(rng, mode):
    """handshake (verify_name on or OFF, any connect path, optionally mutual), then the peer-certificate
    query on the live connection for: the connected name itself, names derived from the certificate
    (covered ones, de-wildcarded, case variants), unrelated and malicious-looking ones"""
    r = rng.below(10)
    if r < 6:
        base = hs_case(rng, mode)
    elif r < 8:
        base = case_case(rng, mode, op="hs")
    else:
        base = long_case(rng, "hs", mode, maxname=200)
    words = base[0].split()
    ents, nameh = words[2:-1], words[-1][5:]
    name = b"" if nameh == "-" else bytes.fromhex(nameh)
    qs = [name]                                   # the very name given to tls_connect*
    for n in entry_names(base[0]):
        if b"\0" in n:
            n = n.split(b"\0")[0]                  # what a naive reader of a malicious name would see
        if n.startswith(b"*."):
            n = rng.choice([b"h", b"www", b"H"]) + n[1:]
        if n and len(n) <= 255:
            qs.append(n)
            if rng.chance(1, 2):
                qs.append(swapcase(n))
    qs.append(swapcase(name))
    qs.append(rng.choice([b"other.example.org", b"a", b"1.2.3.4", b"::1", b" ", b"x." + name[:50]]))
    if rng.chance(1, 3):
        qs.append(rand_name(rng))
    seen, ql = set(), []
    for q in qs:
        if q and b"\0" not in q and q not in seen:
            seen.add(q)
            ql.append(q)
    ql = ql[:10]
    if rng.chance(1, 2):                          # the connected name not always first
        ql = ql[1:] + ql[:1]
    flags = rng.choice("nnv") + rng.choice("sft") + (("m") if rng.chance(1, 3) else "") + \
        (("e") if rng.chance(1, 3) else "")       # e: dirty OpenSSL error queue before the queries
    return [" ".join(["hsq", mode, flags] + ents + ["q:" + vf.hexs(q) for q in ql] + [words[-1]])]


def pton_cases(rng, mode, n):
    out = [["pton %s %s" % (mode, vf.hexs(s))] for s in IP_LITS]
    pal = [b"0", b"1", b"2", b"5", b"9", b".", b":", b"a", b"F", b"g", b" ", b"f"]
    oct_ok = [b"0", b"1", b"9", b"10", b"99", b"100", b"199", b"249", b"255"]
    oct_any = oct_ok + [b"00", b"01", b"001", b"256", b"260", b"300", b"", b"1a", b"099", b"0255", b"1000", b"0000", b"0001", b"0010", b"00001", b"000"]
    grp_ok = [b"0", b"1", b"f", b"F", b"10", b"aB", b"ffff", b"FFFF", b"0001", b"abcd", b"1234"]
    grp_any = grp_ok + [b"", b"10000", b"00001", b"g", b"fffff", b"-1"]
    for _ in range(n):
        r = rng.below(12)
        if r < 2:                                   # well-formed dotted quad
            s = b".".join(rng.choice(oct_ok) for _ in range(4))
        elif r < 4:                                 # dotted, maybe malformed
            s = b".".join(rng.choice(oct_any) for _ in range(rng.choice([3, 4, 4, 4, 5])))
        elif r < 6:                                 # well-formed IPv6, optional "::" and v4 tail
            k = 8
            tail = b""
            if rng.chance(1, 3):
                k = 6
                tail = b".".join(rng.choice(oct_ok if rng.chance(3, 4) else oct_any) for _ in range(4))
            groups = [rng.choice(grp_ok) for _ in range(k)]
            lead = trail = False
            if rng.chance(2, 3):                    # compress a run of groups into "::"
                a = rng.below(k)
                b = a + 1 + rng.below(k - a)
                groups = groups[:a] + [b""] + groups[b:]
                lead, trail = (a == 0), (b == k)
            if tail:
                groups.append(tail)
            elif trail:
                groups.append(b"")
            if lead:
                groups.insert(0, b"")
            s = b":".join(groups)
        elif r < 9:                                 # IPv6-ish, maybe malformed
            k = rng.choice([2, 3, 6, 7, 8, 8, 9])
            s = b":".join(rng.choice(grp_any) for _ in range(k))
            if rng.chance(1, 4):
                s += b":" + rng.choice([b"1.2.3.4", b"01.2.3.4", b"1.2.3", b"255.0.0.1"])
        else:
            s = b"".join(rng.choice(pal) for _ in range(rng.below(16)))
        out.append(["pton %s %s" % (mode, vf.hexs(s))])
    return out


def xcount(k, maxlen):
    return sum(k ** l for l in range(maxlen + 1))


def xstring(alpha, idx):
    k = len(alpha)
    ln, p = 0, 1
    while idx >= p:
        idx -= p
        p *= k
        ln += 1
    out = []
    for _ in range(ln):
        out.append(alpha[idx % k])
        idx //= k
    return bytes(reversed(out))


# ------------------------------------------------------------------ runners

def par_compare(ck, hcmd, dcmd, cases, label, nontrivial=None, chunk=4000, workers=8):
    """compare_cases, but the chunks run concurrently; a chunk with a difference is re-run
    through ck.compare_cases (sequential: shrink, classify, report)."""
    chunks = list(vf.chunks(cases, chunk))

    def one(ch):
        lines = []
        for c in ch:
            lines.append("#case")
            lines += c
        cl, ml, _ = ck.both(hcmd, dcmd, "\n".join(lines) + "\n", 900)
        return ck.first_diff(cl, ml) is None, cl
    with ThreadPoolExecutor(workers) as ex:
        res = list(ex.map(one, chunks))
    nfail = 0
    for ch, (ok, cl) in zip(chunks, res):
        if ok:
            ck.count(len(ch))
            ck.cov["op_lines"] = ck.cov.get("op_lines", 0) + sum(len(c) + 1 for c in ch)
            for c in ch:
                if nontrivial is None or nontrivial(c):
                    ck.distinct(tuple(c))
            tally(ck, cl)
        elif len(ck.violations) < 6:
            nfail += ck.compare_cases(hcmd, dcmd, ch, label=label, nontrivial=nontrivial, max_failures=2)
        else:
            nfail += 1              # enough replays written; only count further failing chunks
            ck.count(len(ch))
            ck.cov["failing_chunks_not_minimised"] = ck.cov.get("failing_chunks_not_minimised", 0) + 1
    return nfail


def tally(ck, impl_lines):
    """histogram of the implementation's answers (measured coverage)"""
    h = ck.cov.setdefault("result_histogram", {})
    for l in impl_lines:
        if l == "#case":
            continue
        if l.startswith("rc="):
            k = " ".join(l.split()[:2])
        elif l.startswith("hs=") and " q=" in l:
            a = l.split()
            h["peer-query answers yes"] = h.get("peer-query answers yes", 0) + l.count("1")
            h["peer-query answers no"] = h.get("peer-query answers no", 0) + l.count("0")
            k = "peer-query " + a[0] + (" mutual" if " sq=" in l else "")
        elif l.startswith("hs="):
            k = l
        elif l.startswith("calls="):
            k = "retry " + "/".join(sorted(set(l[6:].split(","))))
        elif l[:2] in ("4:", "6:"):
            k = "pton " + l[:1]
        elif l == "none":
            k = "pton none"
        elif l.startswith("h="):
            for part in l.split()[1:]:
                a, b = part.split("=")
                h["xpairs " + a] = h.get("xpairs " + a, 0) + int(b)
            continue
        else:
            k = l[:40]
        h[k] = h.get(k, 0) + 1


def xpairs(ck, hcmd, dcmd, mode, kind, alpha, lc, ln, lo, hi, pieces=32, workers=16):
    """range-hash comparison over pair indices [lo, hi); bisects a mismatch down to one pair and
    reports it as a `cert` op line.  Returns number of failing pairs reported (0 or 1)."""
    step = max(1, (hi - lo + pieces - 1) // pieces)
    ranges = [(a, min(hi, a + step)) for a in range(lo, hi, step)]

    def one(r):
        line = "xpairs %s %s %s %d %d %d %d" % (mode, kind, alpha.hex(), lc, ln, r[0], r[1])
        cl, ml, _ = ck.both(hcmd, dcmd, line + "\n", 1800)
        return cl, ml
    with ThreadPoolExecutor(workers) as ex:
        res = list(ex.map(one, ranges))
    bad = None
    for r, (cl, ml) in zip(ranges, res):
        if cl == ml:
            ck.count(r[1] - r[0])
            ck.cov["xpairs_evaluated"] = ck.cov.get("xpairs_evaluated", 0) + (r[1] - r[0])
            tally(ck, cl)
        elif bad is None:
            bad = r
    if bad is None:
        return 0
    a, b = bad
    while b - a > 1:
        m = (a + b) // 2
        cl, ml = one((a, m))
        if cl != ml:
            b = m
        else:
            a = m
    nn = xcount(len(alpha), ln)
    cs, ns = xstring(alpha, a // nn), xstring(alpha, a % nn)
    case = ["cert %s %s:%s name:%s" % (mode, kind, vf.hexs(cs), vf.hexs(ns))]
    n = ck.compare_cases(hcmd, dcmd, [case], label="exhaustive-pairs")
    if n == 0:
        ck.report("int", {"label": "xpairs", "ops": ["xpairs %s %s %s %d %d %d %d" % (mode, kind, alpha.hex(), lc, ln, a, a + 1)]},
                  what="range hash differs but the single cert op agrees")
    return 1


def nontrivial(case):
    """a case is non-trivial when the certificate carries at least one name"""
    return len(case[-1].split()) > 3 or case[0].startswith("pton")


def run(ck):
    hs, dcmd = build(ck)
    plat = "g" if platform_has_inet_pton() else "c"
    ck.level = "proof"
    ck.cov["trusted_base"] = [
        "Lean 4.33 kernel", "axioms: propext, Quot.sound, Classical.choice",
        "correspondence harness harness/C08/h.c (X509 built with the OpenSSL API) + generator in checks/C08.py",
        "OpenSSL: X509_get_ext_d2i / ASN1_STRING_* / X509_NAME_get_text_by_NID return the bytes that were put in",
        "inet_pton linked into tls_verify.c is a parameter of the theorems (ipLit); its model "
        "(socket_pton.c, + glibc's no-leading-zero rule in mode g) is only used by the driver",
    ]
    ck.cov["rule"] = ("case = one certificate (0-3 SAN entries dNSName, iPAddress, rfc822Name; "
                      "0-2 CNs) + requested name, names derived from each other (equal, case-swapped, wildcard of "
                      "the domain, one label short, partial-label wildcard, NUL inserted, ' ', trailing dot) over "
                      "{a,B,c,*,.,-,0,1,:,NUL,' '} to length 14 and IPv4/IPv6 literals in many spellings; every 5th case "
                      "uses long names at the boundaries 63..66, 127..130, 255/256 (exact, one byte longer/shorter, "
                      "proper-prefix + '.evil', wildcard cut at the boundary, NUL after the boundary); handshake "
                      "cases also as sequences on ONE client context (failed connect or full handshake for name A, "
                      "optional tls_reset, handshake for name B) and as retry scripts on ONE connection (2-6 further "
                      "tls_handshake / tls_write / tls_read calls after the first verdict, which must not change) and a "
                      "letter-case family (IPv6/IPv4-mapped literals in upper/lower/mixed case and equivalent spellings "
                      "against CN-only certificates, mixed-case DNS names) through tls_connect_socket, tls_connect_fds "
                      "and tls_connect_servername (loopback TCP); a peer-query family (handshake with verify_name on or OFF, "
                      "optionally mutual, then tls_peer_cert_contains_name on the live client / server connection for the "
                      "connected name, names derived from the certificate, case variants, unrelated names); a dirty-error-queue "
                      "dimension (op noise / hsq flag e: an unrelated failing libssl call leaves entries in the OpenSSL "
                      "error queue before the verdict - every 4th cert case, half of the CN-only ones, a third of the peer "
                      "queries); plus the "
                      "exhaustive set of (cert string, name) pairs over {a,b,*,.,-} (range-hash, as dNSName and as "
                      "CN); every case is run in mode g (platform inet_pton) and mode c (usual/socket_pton.c); "
                      "distinct_nontrivial = distinct op lines whose certificate carries at least one name (the pairs of "
                      "the exhaustive domains are counted in evaluations only)")
    ck.assumptions += ["C locale (strcasecmp folds A-Z only)", "requested name is a C string (no NUL)",
                       "platform inet_pton = glibc >= 2.26 semantics when HAVE_INET_PTON is defined",
                       "negative ASN1 lengths do not occur", "subject CN is read with X509_NAME_get_text_by_NID (first CN)"]
    ck.cov["platform_inet_pton_mode"] = plat
    rng = vf.SplitMix(ck.seed * 1000003 + 8)
    nfail = 0
    import time
    phase = ck.cov.setdefault("phase_s", {})
    t_last = [time.time()]

    def mark(name):
        phase[name] = round(time.time() - t_last[0], 1)
        t_last[0] = time.time()

    corpus = vf.corpus_cases(PID)
    for mode in ("g", "c"):
        mine = [[l.replace(" @ ", " %s " % mode) for l in c] for c in corpus]
        nfail += par_compare(ck, hs[mode], dcmd, mine, "corpus-" + mode, chunk=1, workers=12)

    mark("corpus")
    # direct comparison of the inet_pton models
    for mode in ("g", "c"):
        nfail += par_compare(ck, hs[mode], dcmd, pton_cases(rng, mode, ck.scale(3000, 60000)), "pton-" + mode)

    mark("pton")
    # random certificates
    n = ck.scale(40000, 1200000)
    if not ck.proof_ok:
        n *= 4
    cases_g = [rand_case(rng, "cert", "g") if i % 5 else long_case(rng, "cert", "g") for i in range(n)]
    # dirty error queue (frame condition): an unrelated failing library call before the verdict,
    # for every 4th case and for every CN-only (no SAN) certificate with probability 1/2
    def noisy(c):
        cn_only = " san-" not in c[0] and " cn:" in c[0]
        if rng.chance(1, 4) or (cn_only and rng.chance(1, 2)):
            return ["noise %d" % (1 + rng.below(3))] + c
        return c
    cases_g = [noisy(c) for c in cases_g]
    cases_c = [[l.replace("cert g ", "cert c ", 1) for l in c] for c in cases_g[: n // 2]]
    nfail += par_compare(ck, hs["g"], dcmd, cases_g, "random-g", nontrivial=nontrivial)
    nfail += par_compare(ck, hs["c"], dcmd, cases_c, "random-c", nontrivial=nontrivial)
    for c in cases_g[:3]:
        ck.sample(" ; ".join(c))

    mark("random")
    # exhaustive pairs (range hash)
    if ck.quick() and ck.proof_ok:
        plan = [("san-dns", b"a*.", 6, 6), ("cn", b"A*.", 5, 5), ("san-dns", b"ab*.-", 4, 4)]
    else:
        plan = [("san-dns", b"ab*.-", 5, 5), ("cn", b"ab*.-", 4, 5), ("san-dns", b"aA*.", 5, 6),
                ("cn", b"a*.", 7, 7), ("san-dns", b"1.:", 6, 7)]
    for kind, alpha, lc, ln in plan:
        total = xcount(len(alpha), lc) * xcount(len(alpha), ln)
        nfail += xpairs(ck, hs[plat], dcmd, plat, kind, alpha, lc, ln, 0, total)
        ck.cov.setdefault("exhaustive_domains", []).append(
            "%s alphabet %r cert<=%d name<=%d: %d pairs" % (kind, alpha.decode(), lc, ln, total))
    ck.sample("xpairs %s %s %s %d %d 0 %d" % (plat, plan[0][0], plan[0][1].hex(), plan[0][2], plan[0][3],
                                               xcount(len(plan[0][1]), plan[0][2]) * xcount(len(plan[0][1]), plan[0][3])))

    mark("exhaustive")
    # end-to-end: real handshake over a socketpair (self-signed, verify_cert off, verify_name on)
    nh = ck.scale(300, 2000)
    hcases = [hs_case(rng, plat) if i % 4 else long_case(rng, "hs", plat, maxname=255) for i in range(nh)]
    hcases = [["hsn" + c[0][2:]] if i % 5 == 1 else c for i, c in enumerate(hcases)]   # via connect_servername
    nfail += par_compare(ck, hs[plat], dcmd, hcases, "handshake", nontrivial=nontrivial, chunk=50, workers=12)
    ck.sample(hcases[0][0])
    mark("handshake")
    # one client context, several connects: each handshake judges the name of ITS connect call
    scases = [seq_case(rng, plat) for _ in range(ck.scale(150, 1000))]
    nfail += par_compare(ck, hs[plat], dcmd, scases, "context-reuse", chunk=25, workers=12)
    ck.sample(" ; ".join(scases[0]))
    mark("context-reuse")
    # one connection, retried: handshake again / write / read after the first verdict
    rcases = [hsr_case(rng, plat) for _ in range(ck.scale(250, 1500))]
    nfail += par_compare(ck, hs[plat], dcmd, rcases, "retry", nontrivial=nontrivial, chunk=25, workers=12)
    ck.sample(rcases[0][0])
    mark("retry")
    # letter case of the requested name must reach the name check unchanged (IP literal CNs are
    # byte-exact, DNS names case-insensitive); through connect_socket, connect_fds, connect_servername
    ccases = [case_case(rng, plat) for _ in range(ck.scale(300, 2000))]
    nfail += par_compare(ck, hs[plat], dcmd, ccases, "letter-case", nontrivial=nontrivial, chunk=25, workers=12)
    ck.sample(ccases[0][0])
    mark("letter-case")
    # tls_peer_cert_contains_name on the live connection (client, and server when mutual), with
    # verify_name on and OFF: the answer is the verdict for (certificate, queried name) alone
    qcases = [hsq_case(rng, plat) for _ in range(ck.scale(300, 2000))]
    nfail += par_compare(ck, hs[plat], dcmd, qcases, "peer-query", nontrivial=nontrivial, chunk=25, workers=12)
    ck.sample(qcases[0][0])
    mark("peer-query")
    ck.cov["traces_validated_against_impl"] = ck.cov["evaluations"]
    ck.cov["exhaustive"] = False
    if not ck.quick():
        ck.leanchecker(PROP_MODULES)
    return nfail


def replay(ck, path):
    import json
    hs, dcmd = build(ck)
    ops = json.load(open(path)).get("ops") or []
    mode = "c" if any(re.match(r"^\w+ c ", o) for o in ops) else "g"
    return vf.generic_replay(ck, path, hs[mode], dcmd)
