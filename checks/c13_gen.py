"""C13 T-tie: regenerate lean/Usual/Gen/C13Kw.lean from /repo/usual/pgutil_kwlookup.h (gperf
output: asso_values, hash switch, string pool, wordlist, length limits) and the word list in
usual/pgutil_kwlookup.g.  Refuses (raises) when the gperf output leaves the shape it knows."""
import re


class GenError(Exception):
    pass


def _ints(txt):
    return [int(x) for x in re.findall(r"-?\d+", txt)]


def parse_kwlookup(h_text, g_text):
    # --- asso_values
    m = re.search(r"asso_values\[\]\s*=\s*\{(.*?)\};", h_text, re.S)
    if not m:
        raise GenError("asso_values not found")
    asso = _ints(m.group(1))
    if len(asso) != 256:
        raise GenError("asso_values has %d entries" % len(asso))
    # --- hash function: hval = len; switch (hval) { ... } return hval + asso_values[str[len - 1]]
    m = re.search(r"unsigned int hval = len;\s*switch \(hval\)\s*\{(.*?)\n    \}\s*return hval( \+ asso_values\[\(unsigned char\)str\[len - 1\]\])?;",
                  h_text, re.S)
    if not m:
        raise GenError("hash switch not in the known shape")
    body, last = m.group(1), m.group(2)
    if not last:
        raise GenError("hash does not add the last character")
    labels = [int(x) for x in re.findall(r"case\s+(\d+):", body)]
    if not labels:
        raise GenError("no case labels")
    maxcase = max(labels)
    if sorted(labels, reverse=True) != labels or set(labels) != set(range(1, maxcase + 1)):
        raise GenError("case labels not 1..N descending")
    steps = []
    cur = None
    ended = False
    for t in re.finditer(r"default:|case\s+(\d+):|hval \+= asso_values\[\(unsigned char\)str\[(\d+)\]\];|break;|/\*FALLTHROUGH\*/|(\S+)", body):
        s = t.group(0)
        if ended:
            raise GenError("code after break in hash switch")
        if s == "default:":
            if cur is not None:
                raise GenError("default is not first")
            cur = maxcase + 1
        elif s.startswith("case"):
            v = int(t.group(1))
            if cur is None:
                cur = v
            cur = min(cur, v)
        elif s.startswith("hval +="):
            if cur is None:
                raise GenError("statement before any label")
            pos = int(t.group(2))
            if pos >= cur:
                raise GenError("hash reads str[%d] for len %d" % (pos, cur))
            steps.append((cur, pos))
        elif s == "break;":
            ended = True
        elif s == "/*FALLTHROUGH*/":
            pass
        else:
            raise GenError("unknown token in hash switch: " + s)
    if not ended or cur != 1:
        raise GenError("hash switch does not end in case 1 + break")
    # --- limits
    lim = {}
    for k in ("TOTAL_KEYWORDS", "MIN_WORD_LENGTH", "MAX_WORD_LENGTH", "MIN_HASH_VALUE", "MAX_HASH_VALUE"):
        mm = re.search(k + r"\s*=\s*(\d+)", h_text)
        if not mm:
            raise GenError(k + " missing")
        lim[k] = int(mm.group(1))
    # --- string pool: struct members (order) and initialiser strings (same order)
    m = re.search(r"struct pgkw_t\s*\{(.*?)\};", h_text, re.S)
    members = re.findall(r"char pgkw_str(\d+)\[sizeof\(\"([^\"]*)\"\)\];", m.group(1))
    m = re.search(r"pgkw_contents\s*=\s*\{(.*?)\};", h_text, re.S)
    inits = re.findall(r"\"([^\"]*)\"", m.group(1))
    if len(members) != len(inits) or len(members) != lim["TOTAL_KEYWORDS"]:
        raise GenError("string pool: %d members, %d initialisers, TOTAL_KEYWORDS %d" %
                       (len(members), len(inits), lim["TOTAL_KEYWORDS"]))
    pool = {}
    for (k, sz), s in zip(members, inits):
        if len(sz) != len(s):
            raise GenError("pool member pgkw_str%s: sizeof(\"%s\") but initialised with \"%s\"" % (k, sz, s))
        pool[int(k)] = s          # the *initialiser* is what is stored
    # --- wordlist
    m = re.search(r"wordlist\[\]\s*=\s*\{(.*?)\};", h_text, re.S)
    if not m:
        raise GenError("wordlist missing")
    wl = []
    for t in re.finditer(r"-1|\(int\)\(size_t\)&\(\(struct pgkw_t \*\)0\)->pgkw_str(\d+)|(\w+)", m.group(1)):
        if t.group(0) == "-1":
            wl.append(None)
        elif t.group(1):
            wl.append(pool[int(t.group(1))])
        else:
            raise GenError("unknown wordlist entry " + t.group(0))
    # --- the lookup function itself must still be in the shape the model mirrors
    need = ["if (len <= MAX_WORD_LENGTH && len >= MIN_WORD_LENGTH)",
            "if (key <= MAX_HASH_VALUE)",
            "register int o = wordlist[key];",
            "if (o >= 0)",
            "if (*str == *s && !strcmp (str + 1, s + 1))"]
    for n in need:
        if n not in h_text:
            raise GenError("lookup function changed: missing `%s`" % n)
    # --- .g word list
    parts = g_text.split("%%")
    if len(parts) < 2:
        raise GenError(".g file has no %% section")
    words = [l.strip() for l in parts[1].split("\n") if l.strip()]
    return asso, steps, lim, wl, words


def _bytes(s):
    return "[" + ", ".join(str(b) for b in s.encode("latin-1")) + "]"


def render_lean(asso, steps, lim, wl, words):
    o = []
    o.append("/-! GENERATED on every run by checks/C13.py (c13_gen.py) from usual/pgutil_kwlookup.h\n"
             "    (gperf output) and usual/pgutil_kwlookup.g.  Do not edit. -/")
    o.append("namespace Usual.Gen.C13Kw\n")
    o.append("/-- gperf `asso_values[256]` -/")
    rows = [", ".join(str(x) for x in asso[i:i + 16]) for i in range(0, 256, 16)]
    o.append("def assoValues : List Nat := [\n  " + ",\n  ".join(rows) + "]\n")
    o.append("/-- hash switch: `(m, p)` = for `len ≥ m` add `asso_values[str[p]]` (in source order);\n"
             "    afterwards `asso_values[str[len-1]]` is always added -/")
    o.append("def hashSteps : List (Nat × Nat) := [" + ", ".join("(%d, %d)" % s for s in steps) + "]\n")
    o.append("def totalKeywords : Nat := %d" % lim["TOTAL_KEYWORDS"])
    o.append("def minWordLength : Nat := %d" % lim["MIN_WORD_LENGTH"])
    o.append("def maxWordLength : Nat := %d" % lim["MAX_WORD_LENGTH"])
    o.append("def maxHashValue : Nat := %d\n" % lim["MAX_HASH_VALUE"])
    o.append("/-- gperf `wordlist[]` with the string-pool offsets resolved to the stored words -/")
    ent = []
    for i, w in enumerate(wl):
        ent.append("none" if w is None else "some %s /- %d %s -/" % (_bytes(w), i, w))
    o.append("def wordlist : List (Option (List Nat)) := [\n  " + ",\n  ".join(ent) + "]\n")
    o.append("/-- the reserved words listed in usual/pgutil_kwlookup.g -/")
    o.append("def kwWords : List (List Nat) := [\n  " +
             ",\n  ".join("%s /- %s -/" % (_bytes(w), w) for w in words) + "]\n")
    o.append("end Usual.Gen.C13Kw\n")
    return "\n".join(o)


def generate(repo):
    import os
    h = open(os.path.join(repo, "usual/pgutil_kwlookup.h"), encoding="latin-1").read()
    g = open(os.path.join(repo, "usual/pgutil_kwlookup.g"), encoding="latin-1").read()
    return render_lean(*parse_kwlookup(h, g)), parse_kwlookup(h, g)


if __name__ == "__main__":
    import sys
    txt, _ = generate(sys.argv[1] if len(sys.argv) > 1 else "/repo")
    sys.stdout.write(txt)
