"""C09 — allocators hand out aligned, disjoint, stable blocks and return all memory; size
computations never wrap.

Proof: lean/UsualProofs/Props/C09.lean (models lean/Usual/C09/*).  Tie: harness/C09/h.c runs the
real allocators (compiled from the working tree) over a tracking base allocator whose addresses
modulo 4096 are dictated by the op lines, the model driver drv_c09 predicts every returned
address exactly; safe_mul_* is compared exhaustively (8 bit; 16 bit in the thorough tier) and on
boundary-directed operands (16/32/64 bit)."""
import os
import concurrent.futures
import vf

PID = "C09"
PROP_MODULES = ["UsualProofs.Props.C09"]

M64 = (1 << 64) - 1
ALIGNS = [0, 1, 2, 4, 8, 8, 16, 16, 32, 64, 64, 128, 256, 512, 1024, 2048, 4096, 4096]


def build(ck):
    ck.forbid_scan()
    ck.build_proofs(PROP_MODULES, driver="drv_c09")
    h = ck.cc(os.path.join(ck.bdir, "h"),
              [os.path.join(vf.HARNESS, PID, "h.c"), "repo:usual/cxalloc.c"])
    return [h], [ck.driver_path("drv_c09")]


# ------------------------------------------------------------------------------ generators
class Gen:
    """builds one case (list of op lines); tracks just enough state to emit valid ops"""

    def __init__(self, rng, hist):
        self.r = rng
        self.ops = []
        self.pal = rng.choice([8, 16, 64])
        self.slots = {0: ("trk", None)}      # slot -> (kind, info)
        self.blocks = {}                     # blk -> slot
        self.order = {}                      # slot -> list of blks in allocation order
        self.nb = 0
        self.hist = hist

    def emit(self, line):
        self.ops.append(line)
        k = line.split(" ")[0]
        self.hist[k] = self.hist.get(k, 0) + 1

    def mis(self):
        return self.pal * self.r.below(4096 // self.pal)

    def free_slot(self):
        for s in range(1, 60):
            if s not in self.slots:
                return s
        return None

    def new_blk(self):
        self.nb += 1
        return self.nb - 1

    def size(self, align=8):
        r = self.r
        k = r.below(10)
        if k < 4:
            return 1 + r.below(300)
        if k < 7:
            base = 512 << r.below(6)
            d = r.choice([0, 1, -1, align or 8, -(align or 8), 8, -8, 16, 24, 80, 32 + (align or 8)])
            return max(1, base + d)
        if k < 8:
            return 1 + r.below(6000)
        if k < 9:
            return r.choice([1, 7, 8, 9, 15, 16, 17, 63, 64, 65, 511, 512, 513, 1023, 1024, 1025])
        return 1 + r.below(40000)

    # -- creation
    def mk_pool(self, parent):
        s = self.free_slot()
        if s is None:
            return None
        r = self.r
        al = r.choice(ALIGNS)
        if r.chance(2, 3):
            ini = r.choice([0, 1, 100, 1023, 1024, 1025, 1500, 2048, 4096, 8192, r.below(8193)])
            self.emit(f"pool {s} {parent} {ini} {al} {self.mis()}")
        else:
            bsz = r.choice([0, 1, 79, 80, 81, 87, 88, 89, 96, 100, 143, 144, 200, 512, 1104, 4096,
                            r.below(8193), 80 + r.below(200)])
            af = r.below(2)
            boff = 0 if af else r.choice([0, 0, 8, 24, 40])
            if bsz + boff == 0:
                bsz = 1
            self.emit(f"area {s} {parent} {bsz} {boff} {af} {al} {self.mis()}")
            if bsz < 80:
                return None          # refused: slot stays unused
        self.slots[s] = ("pool", (parent, al if al else 8))
        self.order[s] = []
        return s

    def mk_tree(self, parent):
        s = self.free_slot()
        if s is None:
            return None
        self.emit(f"tree {s} {parent} {self.mis()}")
        self.slots[s] = ("tree", parent)
        self.order[s] = []
        return s

    def mk_talloc(self):
        s = self.free_slot()
        if s is None:
            return None
        self.emit(f"talloc {s} {self.mis()}")
        self.slots[s] = ("talloc", None)
        self.order[s] = []
        return s

    def ok_parent(self, s):
        k, info = self.slots[s]
        if k in ("trk", "tree", "talloc"):
            return True
        if k == "pool":
            return info[1] % 8 == 0
        return False

    # -- cx ops
    def op_alloc(self, s, size=None):
        k, info = self.slots[s]
        al = info[1] if k == "pool" else 8
        b = self.new_blk()
        if size is None:
            size = self.size(al)
            if k == "talloc" and size > 100000:
                size = 1 + size % 5000
        self.emit(f"a {s} {b} {size} {self.mis()}")
        self.blocks[b] = s
        self.order.setdefault(s, []).append(b)
        return b

    def pick_blk(self, s, last_bias=True):
        lst = [b for b in self.order.get(s, []) if self.blocks.get(b) == s]
        if not lst:
            return None
        if last_bias and self.r.chance(1, 2):
            return lst[-1]
        return self.r.choice(lst)

    def op_realloc(self, s):
        b = self.pick_blk(s)
        if b is None:
            return
        k, info = self.slots[s]
        al = info[1] if k == "pool" else 8
        size = self.size(al)
        if self.r.chance(1, 3):
            size = 1 + self.r.below(64)
        if self.r.chance(1, 30):
            size = 0
        if k == "talloc" and size > 100000:
            size = 1 + size % 5000
        self.emit(f"r {s} {b} {size} {self.mis()}")
        if size == 0:
            del self.blocks[b]
        else:
            # moved to the end of the allocator's order (it is the last block if it moved)
            self.order[s].remove(b)
            self.order[s].append(b)

    def op_free(self, s):
        b = self.pick_blk(s)
        if b is None:
            return
        self.emit(f"f {s} {b}")
        del self.blocks[b]

    def destroy_set(self, s):
        d = {s}
        if self.slots[s][0] == "tree":
            changed = True
            while changed:
                changed = False
                for i, (k, info) in self.slots.items():
                    if k == "tree" and i not in d and info in d and self.slots[info][0] == "tree":
                        d.add(i)
                        changed = True
        return d

    def parent_of(self, i):
        k, info = self.slots[i]
        if k == "pool":
            return info[0]
        if k == "slab":
            return info[0]
        if k == "tree" and self.slots.get(info, ("x",))[0] != "tree":
            return info
        return None

    def can_destroy(self, s):
        d = self.destroy_set(s)
        for i in self.slots:
            if i in d:
                continue
            p = self.parent_of(i)
            if p is not None and p in d:
                return False
        return True

    def op_destroy(self, s):
        if s == 0 or s not in self.slots or not self.can_destroy(s):
            return False
        d = self.destroy_set(s)
        self.emit(f"d {s}")
        for i in d:
            del self.slots[i]
        for b in [b for b, sl in self.blocks.items() if sl in d]:
            del self.blocks[b]
        return True

    def destroy_all(self):
        for _ in range(100):
            left = [s for s in self.slots if s != 0]
            if not left:
                break
            for s in sorted(left, reverse=True):
                if s in self.slots and self.can_destroy(s):
                    self.op_destroy(s)

    def cx_history(self, live_slots, nops):
        r = self.r
        for _ in range(nops):
            live_slots = [s for s in live_slots if s in self.slots]
            if not live_slots:
                break
            s = r.choice(live_slots)
            k = r.below(10)
            if k < 5:
                self.op_alloc(s)
            elif k < 8:
                self.op_realloc(s)
            else:
                self.op_free(s)


def gen_pool_case(rng, hist, nops=None):
    g = Gen(rng, hist)
    s = None
    for _ in range(4):
        s = g.mk_pool(0)
        if s is not None:
            break
    if s is None:
        return g.ops
    n = nops if nops is not None else 1 + rng.below(rng.choice([6, 30, 120, 300]))
    g.cx_history([s], n)
    g.destroy_all()
    return g.ops


def gen_tree_case(rng, hist):
    g = Gen(rng, hist)
    root = g.mk_tree(0)
    trees = [root]
    n = 1 + rng.below(rng.choice([10, 60, 200]))
    for _ in range(n):
        trees = [t for t in trees if t in g.slots]
        if not trees:
            break
        k = rng.below(12)
        if k == 0 and len(trees) < 10:
            t = g.mk_tree(rng.choice(trees))
            if t is not None:
                trees.append(t)
        elif k == 1 and len(trees) > 1:
            g.op_destroy(rng.choice(trees[1:]))
        else:
            g.cx_history([rng.choice(trees)], 1)
    g.destroy_all()
    return g.ops


def gen_slab_case(rng, hist):
    g = Gen(rng, hist)
    s = g.free_slot()
    osz = rng.choice([1, 8, 15, 16, 17, 24, 40, 100, 300, 327, 328, 329, 1000, 5000, 1 + rng.below(400)])
    al = rng.choice([0, 0, 4, 8, 16])
    ini = rng.below(2)
    par = 0
    if al == 16:
        g.pal = rng.choice([16, 64])
    if rng.chance(1, 5) and al != 16:
        par = g.mk_tree(0)
        s = g.free_slot()
    g.emit(f"slab {s} {par} {osz} {al} {ini} {g.mis()}")
    g.slots[s] = ("slab", (par,))
    n = 1 + rng.below(rng.choice([20, 150, 300]))
    live = []
    for _ in range(n):
        if rng.below(3) < 2 or not live:
            b = g.new_blk()
            g.emit(f"sa {s} {b} {g.mis()}")
            live.append(b)
        else:
            b = live.pop(rng.below(len(live)))
            g.emit(f"sf {s} {b}")
    g.destroy_all()
    return g.ops


def gen_mp_case(rng, hist):
    g = Gen(rng, hist)
    s = g.free_slot()
    g.emit(f"mp {s}")
    g.slots[s] = ("mp", None)
    n = 1 + rng.below(rng.choice([10, 60, 200]))
    for _ in range(n):
        size = g.size(8)
        if rng.chance(1, 12):
            size = rng.choice([0, 1 << 16, (1 << 20) + 1, 1 << 22])
        g.emit(f"ma {s} {g.new_blk()} {size} {g.mis()}")
    g.destroy_all()
    return g.ops


def gen_stack_case(rng, hist):
    """stacks: pool in tree in talloc-backed cx, pool in pool, tree over pool, slab over pool…"""
    g = Gen(rng, hist)
    layers = [0]
    depth = 2 + rng.below(3)
    for _ in range(depth):
        par = layers[-1]
        if not g.ok_parent(par):
            break
        k = rng.below(4)
        if k == 0 and par == 0:
            s = g.mk_talloc()
        elif k <= 1:
            s = g.mk_tree(par)
        else:
            s = g.mk_pool(par)
        if s is None:
            break
        layers.append(s)
    if rng.chance(1, 2):
        # the classic: talloc -> tree -> pool
        g2 = [g.mk_talloc()]
        g2.append(g.mk_tree(g2[0]))
        p = g.mk_pool(g2[1])
        if p is not None:
            layers.append(p)
        layers += g2
    live = [s for s in layers if s != 0]
    g.cx_history(live + ([0] if rng.chance(1, 3) else []), 1 + rng.below(rng.choice([20, 80, 200])))
    g.destroy_all()
    return g.ops


def gen_huge_case(rng, hist):
    """sizes near the ends of size_t / unsigned: refused, never wrapped"""
    g = Gen(rng, hist)
    kind = rng.below(4)
    big = [M64, M64 - 1, M64 - 7, M64 - 8, M64 - 15, M64 - 16, M64 - 4095, M64 // 2, M64 // 4, M64 // 4 + 1,
           (1 << 63), (1 << 62) + 8, (1 << 62), (1 << 48), (1 << 41)]
    if kind == 0:
        s = g.mk_pool(0)
        if s is None:
            return g.ops
        g.op_alloc(s, 8)
        for _ in range(1 + rng.below(4)):
            if rng.chance(1, 2):
                g.op_alloc(s, rng.choice(big))
            else:
                b = g.pick_blk(s)
                if b is not None:
                    g.emit(f"r {s} {b} {rng.choice(big)} {g.mis()}")
            g.op_alloc(s, 1 + rng.below(100))
    elif kind == 1:
        t = g.mk_tree(0)
        g.op_alloc(t, 8)
        for _ in range(1 + rng.below(4)):
            if rng.chance(1, 2):
                g.op_alloc(t, rng.choice(big[:6] + [(1 << 41)]))
            else:
                b = g.pick_blk(t)
                if b is not None:
                    g.emit(f"r {t} {b} {rng.choice(big[:6] + [(1 << 41)])} {g.mis()}")
            g.op_alloc(t, 1 + rng.below(100))
    elif kind == 2:
        s = g.free_slot()
        g.emit(f"mp {s}")
        g.slots[s] = ("mp", None)
        m32 = (1 << 32) - 1
        for _ in range(1 + rng.below(5)):
            g.emit(f"ma {s} {g.new_blk()} {1 + rng.below(200)} {g.mis()}")
            g.emit(f"ma {s} {g.new_blk()} {rng.choice([m32, m32 - 7, m32 - 15, m32 - 16, m32 // 4 + 1, m32 // 2 + 9, 0x80000008, 0xFFFFFFF0, 0x40000000])} {g.mis()}")
    else:
        tl = g.mk_talloc()
        g.op_alloc(tl, 8)
        g.op_alloc(tl, rng.choice([0x10000001, 1 << 32, M64, M64 - 87, M64 - 88]))
        g.op_alloc(tl, 100)
    g.destroy_all()
    return g.ops


def gen_case(rng, hist):
    k = rng.below(20)
    if k < 9:
        return gen_pool_case(rng, hist)
    if k < 12:
        return gen_stack_case(rng, hist)
    if k < 15:
        return gen_tree_case(rng, hist)
    if k < 17:
        return gen_slab_case(rng, hist)
    if k < 19:
        return gen_mp_case(rng, hist)
    return gen_huge_case(rng, hist)


# ---------------------------------------------------------------------- safe_mul & friends
def boundary_pairs(w, rng, n_random):
    mx = (1 << w) - 1
    half = 1 << (w // 2)
    vals = set([0, 1, 2, 3, mx, mx - 1, half, half - 1, half + 1, half - 2, half + 2])
    for k in range(w):
        for d in (-1, 0, 1):
            v = (1 << k) + d
            if 0 <= v <= mx:
                vals.add(v)
    pairs = set()
    for a in sorted(vals):
        if a:
            q = mx // a
            for d in (-2, -1, 0, 1, 2):
                if 0 <= q + d <= mx:
                    pairs.add((a, q + d))
                    pairs.add((q + d, a))
        for b in (0, 1, mx, half, half - 1, half + 1):
            pairs.add((a, b))
    for a in range(half - 3, half + 4):
        for b in range(half - 3, half + 4):
            pairs.add((a, b))
    for _ in range(n_random):
        a = rng.next() & mx
        if rng.chance(1, 2):
            a >>= rng.below(w)
        b = rng.next() & mx
        if rng.chance(1, 2):
            b >>= rng.below(w)
        pairs.add((a, b))
        if a:
            q = mx // a
            pairs.add((a, min(mx, q + rng.below(3))))
            pairs.add((a, max(0, q - rng.below(3))))
    return sorted(pairs)


def safemul_cases(ck, rng):
    cases = []
    # 8 bit: everything
    cases.append(["smr u8 0 256 0 256"])
    # 16 bit: every a with the b around floor(max/a), plus full rows/columns near the sqrt bound
    lines = []
    for a in range(1, 65536):
        q = 65535 // a
        lines.append(f"smr u16 {a} {a + 1} {max(0, q - 2)} {min(65536, q + 3)}")
    cases.append(lines)
    cases.append(["smr u16 0 65536 0 3", "smr u16 0 3 0 65536", "smr u16 250 262 0 65536",
                  "smr u16 0 65536 250 262", "smr u16 65530 65536 0 65536"])
    nrand = ck.scale(2000, 40000)
    for t, w in (("u16", 16), ("u32", 32), ("uint", 32), ("u64", 64), ("ulong", 64), ("size", 64)):
        prs = boundary_pairs(w, rng, nrand)
        cases.append([f"sm {t} {a} {b}" for a, b in prs])
    prs = boundary_pairs(64, rng, nrand // 4)
    small = [(a, b) for a, b in prs if a * b < (1 << 16) or a * b > (1 << 28)]
    cases.append([f"ra {a} {b}" for a, b in prs])
    cases.append([f"ta {a} {b}" for a, b in small])
    cases.append([f"tr {a} {b}" for a, b in small])
    cases.append(["ta 8 33554432", "ta 8 33554433", "tr 1 268435456", "tr 1 268435457", "ta 0 5", "tr 0 5",
                  "ta 4294967296 4294967296", "ra 4294967296 4294967296", "ra 4294967295 4294967297"])
    ip = []
    for k in range(32):
        for d in (-1, 0, 1):
            v = (1 << k) + d
            if 0 <= v < (1 << 32):
                ip.append(f"ip2 {v}")
    ip += [f"ip2 {rng.next() & 0xffffffff}" for _ in range(500)]
    ip += ["ip2r 0 70000", f"ip2r {(1 << 32) - 70000} {1 << 32}", f"ip2r {(1 << 31) - 1000} {(1 << 31) + 1000}"]
    cases.append(ip)
    return cases


def bisect_smr(ck, hcmd, dcmd, t, alo, ahi, blo, bhi):
    """narrow a differing range hash down to one operand pair"""
    def differs(a0, a1, b0, b1):
        cl, ml, _ = ck.both(hcmd, dcmd, f"smr {t} {a0} {a1} {b0} {b1}\n", 600)
        return cl != ml
    while ahi - alo > 1:
        mid = (alo + ahi) // 2
        if differs(alo, mid, blo, bhi):
            ahi = mid
        else:
            alo = mid
    while bhi - blo > 1:
        mid = (blo + bhi) // 2
        if differs(alo, ahi, blo, mid):
            bhi = mid
        else:
            blo = mid
    return alo, blo


def exhaustive16(ck, hcmd, dcmd):
    """all 2^32 operand pairs of safe_mul_uint16, as 64 range hashes run 8 at a time"""
    chunks = [(a, a + 1024) for a in range(0, 65536, 1024)]
    bad = []

    def run(c):
        cl, ml, _ = ck.both(hcmd, dcmd, f"smr u16 {c[0]} {c[1]} 0 65536\n", 1200)
        return c, cl == ml and len(cl) == 1 and not cl[0].startswith("CRASH")
    with concurrent.futures.ThreadPoolExecutor(max_workers=8) as ex:
        for c, ok in ex.map(run, chunks):
            if not ok:
                bad.append(c)
    ck.count(len(chunks))
    ck.cov["safe_mul_u16_pairs_exhaustive"] = 65536 * 65536
    for c in bad[:1]:
        a, b = bisect_smr(ck, hcmd, dcmd, "u16", c[0], c[1], 0, 65536)
        cl, ml, err = ck.both(hcmd, dcmd, f"sm u16 {a} {b}\n", 60)
        ck.report("obs", {"label": "safe_mul u16 exhaustive", "ops": [f"sm u16 {a} {b}"], "impl": cl, "model": ml})
    return not bad


def run(ck):
    hcmd, dcmd = build(ck)
    ck.level = "proof"
    ck.cov["trusted_base"] = [
        "Lean 4.33 kernel; axioms: propext, Quot.sound, Classical.choice",
        "models lean/Usual/C09/{SafeMul,Pool,TreeAlloc,Slab,MemPool}.lean read as transcriptions of "
        "usual/bits.h, cxextra.c, slab.c, mempool.c (after F04/F05/F19/F20/F21)",
        "stacking glue lean/Usual/C09/World.lean + driver lean/Driver/C09.lean (not subject of theorems)",
        "correspondence harness harness/C09/h.c + harness/common/trkcx.h (trkm) + generators in checks/C09.py",
        "gcc 12 ASan/UBSan for the real pointers (manual poisoning around every base region)",
    ]
    ck.cov["rule"] = (
        "histories (1..300 ops) of alloc/realloc/free/destroy over pool (cx_new_pool and "
        "cx_new_pool_from_area: alignments 0,1,2,4,8..4096, initial areas 0..8192, odd buffers), tree with "
        "nested sub-trees, slab, mempool, and stacks (pool/tree/talloc/pool…); sizes straddle 512*2^k +- "
        "{0,1,align,..}; base-allocator addresses have alignment 8/16/64 at random offsets mod 4096; sizes near "
        "SIZE_MAX/UINT_MAX; safe_mul: all 8-bit pairs, every 16-bit a with b around floor(max/a) and rows/"
        "columns at the sqrt bound (thorough: all 2^32 pairs), boundary-directed and random 32/64-bit pairs; "
        "a case is counted once per distinct op sequence; every generated history contains at least one "
        "allocation and ends with destroy (balance check)")
    ck.assumptions += [
        "LP64 layout (sizeof checked by the `sizes` op on every run)",
        "parent allocator returns fresh, non-overlapping regions below 2^62 (tracked base allocator in the harness)",
        "clients pass only pointers of blocks they hold (no double free / use after free)",
        "slab: alignment > 16 not supported (slab.h); tree/talloc/libc have no alignment parameter",
        "memory safety of real pointers is watched by ASan, not proved",
    ]
    partial = [
        "tree / slab / mempool: model compared on every run; invariants and destroy-once proved only as listed "
        "in Props/C09.lean (see report)",
        "stack composition (pool in tree in talloc) is exercised by the correspondence run, not proved",
    ]
    ck.cov["partial"] = partial
    rng = vf.SplitMix(ck.seed)
    hist = {}

    # layout constants first
    ck.compare_cases(hcmd, dcmd, [["sizes"]], label="sizes", shrink=False)
    # corpus (hand-made boundary cases and replays of the defects); one at a time, no shrinking
    for c in vf.corpus_cases(PID):
        ck.compare_cases(hcmd, dcmd, [c], label="corpus", shrink=False, timeout=120)
    ck.cov["corpus_cases"] = len(vf.corpus_cases(PID))

    # safe_mul, is_power_of_2, reallocarray, talloc_array
    smc = safemul_cases(ck, rng)
    nf = ck.compare_cases(hcmd, dcmd, smc, label="safe_mul", shrink=True, timeout=900)
    ck.cov["safe_mul_lines"] = sum(len(c) for c in smc)
    ck.cov["safe_mul_u8_pairs_exhaustive"] = 65536
    if not ck.quick() or nf or not ck.proof_ok:
        exhaustive16(ck, hcmd, dcmd)

    # allocator histories
    ncases = ck.scale(2500, 60000)
    if not ck.proof_ok:
        ncases = max(ncases, 20000)
    cases = [gen_case(rng, hist) for _ in range(ncases)]
    cases = [c for c in cases if c]
    nops = sum(len(c) for c in cases)
    chunk = 400
    groups = list(vf.chunks(cases, chunk))

    def run_group(gr):
        return ck.compare_cases(hcmd, dcmd, gr, label="random")
    # compare_cases mutates counters: run sequentially per group but groups are cheap; use threads
    # only for the process pairs inside (kept simple and deterministic)
    for gr in groups:
        run_group(gr)
        if len(ck.violations) >= 4:
            break
    ck.cov["history_cases"] = len(cases)
    ck.cov["history_ops"] = nops
    ck.cov["op_histogram"] = dict(sorted(hist.items()))
    # outcome histogram from the model on a sample (what branches the histories reach)
    sample = cases[: min(len(cases), 600)]
    txt = "\n".join("\n".join(["#case"] + c) for c in sample) + "\n"
    rc, out, err = ck.run(dcmd, input_text=txt)
    oc = {"null": 0, "block": 0, "bad-op": 0, "destroy": 0}
    for l in (out or "").split("\n"):
        if l == "bad-op":
            oc["bad-op"] += 1
        elif l.startswith("live="):
            oc["destroy"] += 1
        elif "## null" in l:
            oc["null"] += 1
        elif "## R" in l:
            oc["block"] += 1
    ck.cov["outcomes_in_sample"] = oc
    for c in cases[:3]:
        ck.sample(" ; ".join(c[:14]) + (" ; …" if len(c) > 14 else ""))
    ck.sample("smr u8 0 256 0 256")
    if not ck.quick():
        ck.leanchecker(PROP_MODULES)


def replay(ck, path):
    return vf.generic_replay(ck, path, *build(ck))
