#!/usr/bin/env python3
"""C -> Lean translator for a deliberately tiny loop-free C subset (the "T-tie" of DESIGN.md 2.3).

Input : clang-14's *typed* JSON AST of one function (implicit promotions / casts are explicit
        nodes there, so C's integer semantics are taken from the compiler, not re-derived).
Output: a Lean 4 definition over `BitVec w` terms.

  * integers      -> BitVec w   (width + signedness from the AST; IntegralCast becomes
                     zeroExtend / signExtend / truncate; comparisons ult/slt/ule/sle by the
                     promoted type; `>>` on signed operands is sshiftRight)
  * byte pointers -> Nat offsets into an accessor `rd : Nat -> BitVec 8`; the `end` pointer is
                     `avail : Nat`, so `p + k > end` is a comparison of naturals
  * in/out pointer parameters (`const char **src_p`) and stores through an output pointer
    (`*dst++ = e`) become extra results (new offset, list of bytes written)
  * statements are translated in continuation-passing style, so early `return` and forward
    `goto` (label block inlined at the jump) need no CFG structuring.

The translator REFUSES (raises `Refused`) whatever is outside the subset instead of guessing:
loops, calls, unknown statement / expression kinds, backward gotos, signed arithmetic whose
interval (a cheap value-range analysis is carried along) may overflow, shifts whose amount may
be negative or >= width, side effects in conditions.  A refusal means "tie broken" for the
caller (checks/Cxx.py), never a silent approximation.

API:  translate(src, fn, roles, rettype, repo=...) -> str   (one `def`)
      roles: C parameter name -> 'in' | 'end' | 'inout' | 'outp' | 'outend' | 'val'
      rettype: bit width of the C return type, or 'bool'
      utf8_module(repo) -> str   (the whole lean/Usual/Gen/C11.lean)

Second generation (class `Module`, used by the `<Cxx>T` modules; see DESIGN.md 10.22): the same
expression core plus
  * one struct parameter (`struct MBuf *buf`): integer / bool fields become fields of a generated
    Lean `structure`; the struct's byte-pointer field is the constant base of one memory region
    `mem`; loads / stores / memcpy / memset / memmove on it are returned as a list of `Ev` effects
    in program order (loads after a store to the region are refused);
  * scalar out-pointers (`uint8_t *dst_p`, `const uint8_t **dst_p`) -> `Option` results;
  * pointer parameters as `Nat` offsets into named regions (`('ptr', 'ra')`);
  * `while` / `for` loops -> one structurally recursive Lean `def` per loop (its `else` branch is
    the rest of the function); the function takes `fuel : Nat` and returns `Option`, `none` only
    when the fuel ran out;
  * `sizeof(integer type)`, `__builtin_clz*` (argument proved non-zero), path-sensitive value
    ranges (`if (!a) ...; max / a`), calls to already translated functions (emitted as calls),
    calls to declared *extern* functions (a function parameter `ext_<name>`), and a cut point
    (`stop_at`): the statement calling e.g. `realloc` and everything after it is not translated,
    reaching it is the result `Sum.inr (live values)`.
"""
import json
import os
import re
import subprocess
import sys

sys.setrecursionlimit(100000)


class Refused(Exception):
    """the function left the supported C subset"""


def _default_repo():
    try:
        import vf
        return vf.REPO
    except Exception:
        return os.environ.get("VERIF_REPO", "/repo")


_ast_cache = {}


def ast_docs(src, flt, repo, extra=()):
    key = (src, flt, repo, tuple(extra), os.path.getmtime(src))
    if key in _ast_cache:
        return _ast_cache[key]
    first = [x for x in extra if x.startswith('-I')]
    later = [x for x in extra if not x.startswith('-I')]
    p = subprocess.run(['clang-14', *first, '-I' + repo, '-DHAVE_CONFIG_H', '-fsyntax-only', '-Xclang',
                        '-ast-dump=json', '-Xclang', '-ast-dump-filter=' + flt, *later, src],
                       capture_output=True, text=True)
    if p.returncode != 0:
        raise Refused('clang does not accept %s: %s' % (src, p.stderr.strip()[-300:]))
    out = p.stdout
    dec = json.JSONDecoder()
    i = 0
    docs = []
    while i < len(out):
        while i < len(out) and out[i].isspace():
            i += 1
        if i >= len(out):
            break
        o, j = dec.raw_decode(out, i)
        docs.append(o)
        i = j
    _ast_cache[key] = docs
    return docs


def ast_of(src, fn, repo, extra=(), flt=None):
    for d in ast_docs(src, flt or fn, repo, extra):
        if d.get('kind') == 'FunctionDecl' and d.get('name') == fn and \
                any(c.get('kind') == 'CompoundStmt' for c in d.get('inner', [])):
            return d
    raise Refused('no definition of ' + fn + ' in ' + src)


INT_TYPES = {'char': (8, True), 'signed char': (8, True), 'unsigned char': (8, False),
             'uint8_t': (8, False), 'short': (16, True), 'unsigned short': (16, False),
             'uint16_t': (16, False), 'int': (32, True), 'unsigned int': (32, False),
             'unsigned': (32, False), 'uint32_t': (32, False), 'long': (64, True),
             'unsigned long': (64, False), 'size_t': (64, False), 'uint64_t': (64, False),
             'long long': (64, True), 'unsigned long long': (64, False), '_Bool': (1, False),
             'bool': (1, False)}


def ctype(n):
    t = n['type']
    q = t.get('desugaredQualType', t['qualType']).replace('const ', '').strip()
    if q.endswith('*'):
        return ('ptr',)
    if q in INT_TYPES:
        return ('int',) + INT_TYPES[q]
    q2 = t['qualType'].replace('const ', '').strip()
    if q2 in INT_TYPES:
        return ('int',) + INT_TYPES[q2]
    for qq in (q, q2):
        m = re.match(r'^(.*\S)\s*\[(\d+)\]$', qq)
        if m and m.group(1).strip() in INT_TYPES and INT_TYPES[m.group(1).strip()][0] >= 8:
            return ('arr',) + INT_TYPES[m.group(1).strip()] + (int(m.group(2)),)
    raise Refused('unsupported type ' + repr(t))


def full(t):
    w, s = t[1], t[2]
    return (-(1 << (w - 1)), (1 << (w - 1)) - 1) if s else (0, (1 << w) - 1)


def fits(r, t):
    lo, hi = full(t)
    return lo <= r[0] and r[1] <= hi


class V:
    """translated expression: Lean text, C type, value interval (ints only), known non-zero,
    Lean Bool text when the value is a 0/1 conversion of a Boolean"""
    __slots__ = ('e', 't', 'r', 'nz', 'b')

    def __init__(self, e, t, r=None, nz=False, b=None):
        self.e, self.t = e, t
        if r is None and t[0] == 'int':
            r = full(t)
        self.r = r
        self.nz = nz or (r is not None and (r[0] > 0 or r[1] < 0))
        self.b = b


LEAN_KEYWORDS = {'end', 'from', 'at', 'in', 'do', 'then', 'else', 'if', 'fun', 'let', 'have', 'show',
                 'with', 'match', 'where', 'by', 'open', 'def', 'theorem', 'instance', 'structure',
                 'class', 'namespace', 'section', 'import', 'export', 'private', 'protected', 'mutual',
                 'variable', 'universe', 'local', 'prefix', 'infix', 'notation', 'macro', 'syntax',
                 'deriving', 'extends', 'for', 'unless', 'return', 'try', 'catch', 'finally', 'mut',
                 'nomatch', 'nofun', 'Type', 'Sort', 'Prop', 'using', 'calc', 'fuel', 'mem', 'rd', 'n', 'some', 'none'}


def lean_id(name):
    name = name.replace('->', '_').replace('*', 'out_').replace('$', 'x_').replace('.', '_')
    return name + '_' if name in LEAN_KEYWORDS else name


def strip_parens(n):
    while n.get('kind') in ('ParenExpr', 'ConstantExpr'):
        n = n['inner'][0]
    return n


def walk(n):
    if isinstance(n, dict):
        yield n
        for c in n.get('inner', []):
            yield from walk(c)


def callee_name(n):
    f = n['inner'][0]
    while f.get('kind') in ('ImplicitCastExpr', 'ParenExpr'):
        f = f['inner'][0]
    if f.get('kind') != 'DeclRefExpr':
        return None
    return f['referencedDecl']['name']


MEM_FUNCS = ('memcpy', 'memmove', 'memset')
CLZ = {'__builtin_clz': 32, '__builtin_clzl': 64, '__builtin_clzll': 64}


def indent(s):
    return '\n'.join('  ' + l for l in s.split('\n'))


class Tr:
    def __init__(self, fn, roles, mod=None):
        self.fn = fn
        self.roles = roles
        self.labels = {}
        self.pending = []
        self.cnt = 0
        self.active_labels = []
        # second generation (mod is a Module)
        self.mod = mod
        self.loads = []            # offsets (Lean text) of loads from `mem` not yet logged
        self.loops = []            # contexts of the loops being translated, innermost last
        self.loopdefs = []         # finished `def`s of loops, in dependency order
        self.nloops = 0
        self.struct = None         # (param name, StructDef, is_const)
        self.stop_at = ()
        self.keep = ()
        self.sigargs = ''          # accessor / extern / fuel arguments passed on to loop defs
        self.sigparams = ''
        self.ret_type = None
        self.ret_ranges = []
        self.uses_ext = []
        self.no_unroll = False
        self.prune = False
        self.outline = False
        self.in_block = False
        self.nblocks = 0

    def refuse(self, msg):
        raise Refused('%s: %s' % (self.fn, msg))

    # ------------------------------------------------------------ expressions
    def conv(self, v, to):
        (w1, s1), (w2, s2) = (v.t[1], v.t[2]), (to[1], to[2])
        r = v.r if fits(v.r, to) else full(to)
        if w1 == w2:
            return V(v.e, to, r, nz=v.nz)
        if w2 < w1:
            return V(f'(BitVec.truncate {w2} {v.e})', to, r, nz=v.nz and fits(v.r, to))
        e = f'(BitVec.signExtend {w2} {v.e})' if s1 else f'(BitVec.zeroExtend {w2} {v.e})'
        return V(e, to, r, nz=v.nz)

    def arith(self, op, a, b, t):
        """interval of a op b in type t; refuses signed overflow"""
        (al, ah), (bl, bh) = a.r, b.r
        if op == '+':
            r = (al + bl, ah + bh)
        elif op == '-':
            r = (al - bh, ah - bl)
        else:
            c = [al * bl, al * bh, ah * bl, ah * bh]
            r = (min(c), max(c))
        if fits(r, t):
            return r
        if t[2]:
            self.refuse(f'signed {op} may overflow (operand ranges {a.r} {b.r})')
        return full(t)

    def shift_amount(self, b, w):
        if b.r[0] < 0 or b.r[1] >= w:
            self.refuse(f'shift amount range {b.r} not inside 0..{w - 1}')

    def expr(self, n, env):
        k = n['kind']
        if k in ('ParenExpr', 'ConstantExpr'):
            return self.expr(n['inner'][0], env)
        if k in ('IntegerLiteral', 'CharacterLiteral'):
            t = ctype(n)
            v = int(n['value'])
            return V(f'({v % (1 << t[1])}#{t[1]})', t, (v, v))
        if k == '$V':
            return n['v']
        if k == 'DeclRefExpr':
            name = n['referencedDecl']['name']
            if name not in env:
                self.refuse('reference to ' + name + ' (not a parameter or local)')
            return env[name]
        if k == 'MemberExpr':
            key, fld = self.field_key(n)
            if fld[0] == 'ptr':
                return V('0', ('ptr', 'mem'))
            return env[key]
        if k == 'UnaryExprOrTypeTraitExpr':
            if n.get('name') != 'sizeof':
                self.refuse('type trait ' + str(n.get('name')))
            if 'argType' in n:
                at = ctype({'type': n['argType']})
            else:
                at = ctype(n['inner'][0])
            if at[0] != 'int' or at[1] < 8:
                self.refuse('sizeof of a non-integer type')
            t = ctype(n)
            v = at[1] // 8
            return V(f'({v}#{t[1]})', t, (v, v))
        if k == 'CallExpr':
            name = callee_name(n)
            if name in CLZ:
                a = self.expr(n['inner'][1], env)
                if a.t[0] != 'int' or a.t[1] != CLZ[name] or a.t[2]:
                    self.refuse(name + ' on ' + str(a.t))
                if not a.nz:
                    self.refuse(name + ' of a possibly zero argument (undefined)')
                w = a.t[1]
                e = f'(BitVec.clz {a.e})'
                if w != 32:
                    e = f'(BitVec.truncate 32 {e})'
                return V(e, ('int', 32, True), (0, w - 1))
            if name in ('__builtin_bswap32', '__builtin_bswap64') and self.mod:
                a = self.expr(n['inner'][1], env)
                w = 32 if name.endswith('32') else 64
                if a.t != ('int', w, False):
                    self.refuse(name + ' on ' + str(a.t))
                x = self.atom(a.e)
                if w == 32:
                    e = (f'(({x} <<< 24) ||| (({x} &&& 65280#32) <<< 8) ||| (({x} >>> 8) &&& 65280#32) ||| '
                         f'({x} >>> 24))')
                else:
                    e = ('(' + ' ||| '.join(
                        f'((({x} >>> {8 * i}) &&& 255#64) <<< {56 - 8 * i})' for i in range(8)) + ')')
                return V(e, a.t)
            sig = self.mod.sigs.get(name) if self.mod else None
            if sig is None or not sig.pure:
                self.refuse('call to ' + str(name) + ' inside an expression')
            return self.call_text(n, sig, env)[1]
        if k in ('ImplicitCastExpr', 'CStyleCastExpr'):
            ck = n.get('castKind')
            sub = n['inner'][-1]
            if ck == 'ArrayToPointerDecay' and self.mod:
                key = self.arr_key(sub, env)
                if key is not None:
                    return V('0', ('aptr', key))
            if ck in ('LValueToRValue', 'NoOp', 'BitCast', 'ArrayToPointerDecay'):
                return self.expr(sub, env)
            v = self.expr(sub, env)
            if ck == 'IntegralCast':
                if v.t[0] == 'bool':
                    r = self.conv(self.tobv(v), ctype(n))
                    if self.mod:
                        r.b = v.e
                    return r
                return self.conv(v, ctype(n))
            if ck == 'NullToPointer' and self.mod and v.t[0] == 'int' and v.r == (0, 0):
                return V('none', ('nullptr',))
            if ck == 'IntegralToBoolean':
                if v.t[0] == 'bool':
                    return v
                if v.t[0] != 'int':
                    self.refuse('conversion of ' + str(v.t) + ' to bool')
                if v.b is not None:
                    return V(v.b, ('bool',))
                if self.mod and v.r[0] == v.r[1]:
                    return V('true' if v.r[0] else 'false', ('bool',))
                return V(f'({v.e} != 0#{v.t[1]})', ('bool',))
            self.refuse('cast kind ' + str(ck))
        if k == 'UnaryOperator':
            op = n['opcode']
            sub = n['inner'][0]
            if op == '*':
                v = self.expr(sub, env)
                if v.t[0] == 'ptr' and len(v.t) == 2 and v.t[1] not in ('out', 'opaque'):
                    t = ctype(n)
                    if t[0] != 'int' or t[1] != 8:
                        self.refuse('dereference of a non-byte pointer')
                    return V(self.load(v.t[1], v.e, env), ('int', 8, t[2]))
                if v.t[0] == 'ptrptr':
                    return env['*' + v.t[1]]
                self.refuse('dereference of ' + str(v.t))
            if op in ('++', '--') and n.get('isPostfix'):
                tgt = sub
                while tgt['kind'] == 'ParenExpr':
                    tgt = tgt['inner'][0]
                if tgt['kind'] == 'MemberExpr' and self.mod:
                    name, fld = self.field_key(tgt)
                    if fld[0] != 'int':
                        self.refuse('post-increment of a non-integer field')
                elif tgt['kind'] != 'DeclRefExpr':
                    self.refuse('post-increment of a non-variable')
                else:
                    name = tgt['referencedDecl']['name']
                if any(p[0] == name for p in self.pending):
                    self.refuse('two unsequenced side effects on ' + name)
                self.pending.append((name, op))
                return env[name]
            v = self.expr(sub, env)
            if op == '!':
                if v.t[0] == 'bool':
                    return V(f'(!{v.e})', ('bool',))
                if v.t[0] != 'int':
                    self.refuse('! on ' + str(v.t))
                if v.b is not None:
                    return V(f'(!{v.b})', ('bool',))
                return V(f'({v.e} == 0#{v.t[1]})', ('bool',))
            if v.t[0] == 'bool':
                v = self.tobv(v)
            if v.t[0] != 'int':
                self.refuse(f'unary {op} on {v.t}')
            if op == '-':
                if v.t[2]:
                    if v.r[0] == full(v.t)[0]:
                        self.refuse('signed negation may overflow')
                    return V(f'(-{v.e})', v.t, (-v.r[1], -v.r[0]))
                return V(f'(-{v.e})', v.t, (0, 0) if v.r == (0, 0) else None)
            if op == '~':
                return V(f'(~~~{v.e})', v.t, (-v.r[1] - 1, -v.r[0] - 1) if v.t[2] else None)
            if op == '+':
                return v
            self.refuse('unary operator ' + op)
        if k == 'ArraySubscriptExpr':
            if self.mod:
                el = self.elem(n, env)
                if el is not None:
                    key, idx, et = el
                    arr = env[key] if key in env else self.mod.tables[key]
                    return V(f'({self.atom(arr.e)}.getD {idx} 0#{et[1]})', et)
            b = self.expr(n['inner'][0], env)
            i = self.expr(n['inner'][1], env)
            if b.t[0] != 'ptr' or len(b.t) != 2 or b.t[1] in ('out', 'opaque') or i.t[0] != 'int':
                self.refuse('subscript of ' + str(b.t))
            if i.r[0] < 0:
                self.refuse('possibly negative index')
            t = ctype(n)
            if t[0] != 'int' or t[1] != 8:
                self.refuse('subscript of a non-byte pointer')
            return V(self.load(b.t[1], f'{b.e} + ({i.e}).toNat', env), ('int', 8, t[2]))
        if k == 'BinaryOperator':
            op = n['opcode']
            if op == ',' or op.endswith('=') and op not in ('==', '!=', '<=', '>='):
                self.refuse('assignment / comma inside an expression')
            if op == '-' and self.mod:
                pm = self.ptr_minus_mod(n, env)
                if pm is not None:
                    return pm
            a = self.expr(n['inner'][0], env)
            b = self.expr(n['inner'][1], env)
            if a.t[0] == 'ptr' or b.t[0] == 'ptr':
                if op == '+' and a.t[0] == 'ptr' and b.t[0] == 'int':
                    if b.r[0] < 0:
                        self.refuse('pointer + possibly negative offset')
                    return V(f'({a.e} + ({b.e}).toNat)', a.t)
                if op in ('>', '<', '>=', '<=', '==', '!=') and a.t[0] == 'ptr' and a.t == b.t:
                    lop = {'==': '=', '!=': '≠'}.get(op, op)
                    return V(f'(decide ({a.e} {lop} {b.e}))', ('bool',))
                self.refuse('pointer operation ' + op)
            if op in ('&&', '||'):
                ba = a.e if a.t[0] == 'bool' else a.b if a.b is not None else f'({a.e} != 0#{a.t[1]})'
                bb = b.e if b.t[0] == 'bool' else b.b if b.b is not None else f'({b.e} != 0#{b.t[1]})'
                return V(f'({ba} {op} {bb})', ('bool',))
            a, b = self.tobv(a), self.tobv(b)
            if a.t[0] != 'int' or b.t[0] != 'int':
                self.refuse(f'operator {op} on {a.t} {b.t}')
            if op in ('<<', '>>'):
                t = ctype(n)
                w, s = a.t[1], a.t[2]
                if (t[1], t[2]) != (w, s):
                    self.refuse('shift result type differs from promoted left operand')
                self.shift_amount(b, w)
                if op == '<<':
                    r = (a.r[0] << b.r[0], a.r[1] << b.r[1])
                    if s and (a.r[0] < 0 or not fits(r, t)):
                        self.refuse(f'signed << may overflow (ranges {a.r} {b.r})')
                    return V(f'({a.e} <<< ({b.e}).toNat)', t, r if fits(r, t) else None)
                if a.r[0] >= 0:
                    r = (a.r[0] >> b.r[1], a.r[1] >> b.r[0])
                else:
                    r = None
                e = f'(BitVec.sshiftRight {a.e} ({b.e}).toNat)' if s else f'({a.e} >>> ({b.e}).toNat)'
                return V(e, t, r)
            if a.t[1] != b.t[1] or a.t[2] != b.t[2]:
                self.refuse(f'operands of {op} not converted to a common type: {a.t} {b.t}')
            w, s = a.t[1], a.t[2]
            if op in ('<', '>', '<=', '>='):
                f = {'<': ('slt', 'ult'), '<=': ('sle', 'ule')}
                x, y = a.e, b.e
                if op in ('>', '>='):
                    x, y = y, x
                    op = {'>': '<', '>=': '<='}[op]
                return V(f'(BitVec.{f[op][0 if s else 1]} {x} {y})', ('bool',))
            if op == '==':
                return V(f'({a.e} == {b.e})', ('bool',))
            if op == '!=':
                return V(f'({a.e} != {b.e})', ('bool',))
            t = ctype(n)
            if (t[1], t[2]) != (w, s):
                self.refuse(f'result type of {op} differs from operand type')
            if op in ('+', '-', '*'):
                return V(f'({a.e} {op} {b.e})', t, self.arith(op, a, b, t))
            if op in ('&', '|', '^'):
                m = {'&': '&&&', '|': '|||', '^': '^^^'}[op]
                r = None
                if self.mod and a.r[0] == a.r[1] and b.r[0] == b.r[1]:
                    # both operands known: fold exactly (two's complement at the width of the type)
                    msk = (1 << t[1]) - 1
                    x, y = a.r[0] & msk, b.r[0] & msk
                    z = x & y if op == '&' else x | y if op == '|' else x ^ y
                    if t[2] and z >= 1 << (t[1] - 1):
                        z -= 1 << t[1]
                    r = (z, z)
                elif a.r[0] >= 0 and b.r[0] >= 0:
                    if op == '&':
                        r = (0, min(a.r[1], b.r[1]))
                    else:
                        r = (0, (1 << max(a.r[1], b.r[1]).bit_length()) - 1)
                elif op == '&' and (a.r[0] >= 0 or b.r[0] >= 0):
                    r = (0, a.r[1] if a.r[0] >= 0 else b.r[1])
                return V(f'({a.e} {m} {b.e})', t, r)
            if op in ('/', '%'):
                if b.r[0] <= 0 <= b.r[1] and not (b.nz and b.r[0] >= 0):
                    self.refuse('possible division by zero')
                if s and (a.r[0] < 0 or b.r[0] < 0):
                    self.refuse('signed division of possibly negative operands')
                blo = max(b.r[0], 1)
                r = (a.r[0] // b.r[1], a.r[1] // blo) if op == '/' else (0, min(a.r[1], b.r[1] - 1))
                return V(f'({a.e} {op} {b.e})', t, r)
            self.refuse('binary operator ' + op)
        if k == 'ConditionalOperator':
            c = self.expr(n['inner'][0], env)
            a = self.expr(n['inner'][1], self.refine(n['inner'][0], env, True))
            b = self.expr(n['inner'][2], self.refine(n['inner'][0], env, False))
            ce = c.e if c.t[0] == 'bool' else f'({c.e} != 0#{c.t[1]})'
            if a.t != b.t:
                self.refuse('?: arms of different type')
            r = (min(a.r[0], b.r[0]), max(a.r[1], b.r[1])) if a.t[0] == 'int' else None
            return V(f'(if {ce} then {a.e} else {b.e})', a.t, r)
        self.refuse('expression kind ' + k)

    def ptr_minus_mod(self, n, env):
        """`p + x - (x % k)` (k a positive constant, x an unsigned variable): the subtrahend cannot
        exceed what was added, so the result is the pointer `p + (x - x % k)`; None = other shape"""
        l, r = strip_parens(n['inner'][0]), strip_parens(n['inner'][1])
        if l.get('kind') != 'BinaryOperator' or l.get('opcode') != '+' or \
                r.get('kind') != 'BinaryOperator' or r.get('opcode') != '%':
            return None
        x1 = self.as_var(l['inner'][1], False)
        x2 = self.as_var(r['inner'][0], False)
        if x1 is None or x1 != x2 or not isinstance(env.get(x1), V) or env[x1].t[0] != 'int' or env[x1].t[2]:
            return None
        kv = self.peek(r['inner'][1], env)
        if kv is None or kv.t[0] != 'int' or kv.r[0] != kv.r[1] or kv.r[0] <= 0:
            return None
        p = self.peek(l['inner'][0], env)
        if p is None or p.t[0] != 'ptr' or len(p.t) != 2 or p.t[1] in ('out', 'opaque'):
            return None
        x = env[x1]
        return V(f'({p.e} + ({x.e} - ({x.e} % {kv.r[0]}#{x.t[1]})).toNat)', p.t)

    def load(self, region, off, env):
        """Lean text of the byte at offset `off` of a region"""
        if region == 'bytes':
            return f'(rd ({off}))'
        if region == 'mem':
            if env.get('$dirty'):
                self.refuse('load from the struct\'s memory after a store / extern call in the same function')
            self.loads.append(off)
        return f'({region} ({off}))'

    def arr_key(self, n, env):
        """env key of a word array denoted by the lvalue `n` (local array / struct array field)"""
        n = strip_parens(n)
        if n.get('kind') == 'DeclRefExpr':
            name = n['referencedDecl']['name']
            v = env.get(name)
            if isinstance(v, V) and v.t[0] == 'arr':
                return name
            if name not in env and self.mod:
                return self.mod.table(name, self)
            return None
        if n.get('kind') == 'MemberExpr' and self.struct:
            key, fld = self.field_key(n)
            return key if fld[0] == 'arr' else None
        return None

    def elem(self, n, env):
        """`a[i]` on a word array: (env key, Lean index text, element type)"""
        b0 = n['inner'][0]
        while b0.get('kind') in ('ParenExpr', 'ImplicitCastExpr') and b0.get('castKind', 'NoOp') in ('LValueToRValue', 'NoOp'):
            b0 = b0['inner'][-1]
        if b0.get('kind') == 'DeclRefExpr' and isinstance(env.get(b0['referencedDecl']['name']), V) and \
                env[b0['referencedDecl']['name']].t[0] == 'arr':
            b = V('0', ('aptr', b0['referencedDecl']['name']))      # array parameter (a pointer in C)
        else:
            b = self.expr(n['inner'][0], env)
        if b.t[0] != 'aptr':
            return None
        key = b.t[1]
        arr = env[key] if key in env else self.mod.tables[key]
        i = self.expr(n['inner'][1], env)
        if i.t[0] != 'int':
            self.refuse('array index of type ' + str(i.t))
        if i.r[0] < 0 or i.r[1] >= arr.t[3]:
            self.refuse(f'index range {i.r} not inside the array {key}[{arr.t[3]}]')
        idx = str(i.r[0]) if i.r[0] == i.r[1] else f'({i.e}).toNat'
        return key, idx, ('int', arr.t[1], arr.t[2])

    def field_key(self, n):
        """MemberExpr `buf->f` / `buf->u.f` on the struct parameter -> (env key, field type)"""
        if not self.struct:
            self.refuse('member access without a struct parameter')
        if not n.get('isArrow'):
            outer = strip_parens(n['inner'][0])
            if outer.get('kind') != 'MemberExpr':
                self.refuse('member access that is not param->field')
            okey, ofld = self.field_key(outer)
            if ofld[0] != 'rec':
                self.refuse('member of a non-record field')
            path = okey.split('->', 1)[1] + '.' + n['name']
            fld = self.struct[1].fields.get(path)
            if fld is None:
                self.refuse('field ' + path + ' is not part of the translated view of the struct '
                            '(other union member / unsupported type)')
            return self.struct[0] + '->' + path, fld
        b = n['inner'][0]
        while b.get('kind') in ('ImplicitCastExpr', 'ParenExpr'):
            if b.get('kind') == 'ImplicitCastExpr' and b.get('castKind') not in ('LValueToRValue', 'NoOp'):
                self.refuse('member access through a cast')
            b = b['inner'][0]
        if b.get('kind') != 'DeclRefExpr' or b['referencedDecl']['name'] != self.struct[0]:
            self.refuse('member access on something else than the struct parameter')
        fld = self.struct[1].fields.get(n['name'])
        if fld is None:
            self.refuse('unknown field ' + n['name'])
        return self.struct[0] + '->' + n['name'], fld

    def tobv(self, v):
        if v.t[0] == 'bool':
            return V(f'(if {v.e} then 1#32 else 0#32)', ('int', 32, True), (0, 1))
        return v

    def pure(self, what):
        if self.pending:
            self.refuse('side effect inside ' + what)

    def cond(self, n, env):
        v = self.expr(n, env)
        self.pure('a condition')
        if v.t[0] == 'bool':
            return v.e
        if v.t[0] != 'int':
            self.refuse('condition of type ' + str(v.t))
        if v.b is not None:
            return v.b
        return f'({v.e} != 0#{v.t[1]})'

    # ------------------------------------------------- path-sensitive value ranges
    def peek(self, n, env):
        """value of a side-effect-free expression, without leaving traces; None when refused"""
        saved = (list(self.pending), list(self.loads), self.cnt)
        try:
            v = self.expr(n, env)
            if self.pending != saved[0] or self.loads != saved[1]:
                return None
            return v
        except Refused:
            return None
        finally:
            self.pending, self.loads, self.cnt = saved[0], saved[1], saved[2]

    def as_var(self, n, allow_widen):
        """env key when `n` is the value of a variable / struct field (through value-preserving
        casts); else None"""
        while True:
            k = n.get('kind')
            if k in ('ParenExpr', 'ConstantExpr'):
                n = n['inner'][0]
            elif k == 'ImplicitCastExpr' and n.get('castKind') in ('LValueToRValue', 'NoOp'):
                n = n['inner'][-1]
            elif k == 'ImplicitCastExpr' and n.get('castKind') == 'IntegralCast' and allow_widen:
                try:
                    to, frm = ctype(n), ctype(n['inner'][-1])
                except Refused:
                    return None
                if to[0] != 'int' or frm[0] != 'int' or to[1] < frm[1]:
                    return None
                n = n['inner'][-1]
            else:
                break
        if n.get('kind') == 'DeclRefExpr':
            return n['referencedDecl']['name']
        if n.get('kind') == 'MemberExpr' and self.struct:
            try:
                return self.field_key(n)[0]
            except Refused:
                return None
        return None

    def narrow(self, env, key, lo=None, hi=None, nz=False, zero=False):
        v = env.get(key)
        if not isinstance(v, V) or v.t[0] != 'int':
            return env
        l, h = v.r
        if zero:
            lo, hi = 0, 0
        if lo is not None:
            l = max(l, lo)
        if hi is not None:
            h = min(h, hi)
        if nz and l == 0:
            l = 1
        if nz and h == 0:
            h = -1
        if l > h:
            return env          # contradictory path: leave the ranges alone
        env = dict(env)
        env[key] = V(v.e, v.t, (l, h), nz=(v.nz or nz) and not zero, b=None)
        return env

    def refine(self, n, env, truth):
        """env with the ranges that the condition `n` being `truth` implies (sound narrowing only)"""
        n = strip_parens(n)
        k = n.get('kind')
        if k == 'ImplicitCastExpr' and n.get('castKind') in ('IntegralToBoolean',):
            return self.refine(n['inner'][-1], env, truth)
        if k == 'UnaryOperator' and n.get('opcode') == '!':
            return self.refine(n['inner'][0], env, not truth)
        if k == 'BinaryOperator' and n['opcode'] == '&&':
            return self.refine(n['inner'][1], self.refine(n['inner'][0], env, True), True) if truth else env
        if k == 'BinaryOperator' and n['opcode'] == '||':
            return env if truth else self.refine(n['inner'][1], self.refine(n['inner'][0], env, False), False)
        key = self.as_var(n, True)
        if key is not None:
            return self.narrow(env, key, nz=truth, zero=not truth)
        if k == 'BinaryOperator' and n['opcode'] in ('==', '!=', '<', '>', '<=', '>='):
            op = n['opcode']
            for var_i, flip in ((0, False), (1, True)):
                zero_ok = op in ('==', '!=')
                key = self.as_var(n['inner'][var_i], zero_ok)
                if key is None or not isinstance(env.get(key), V) or env[key].t[0] != 'int':
                    continue
                c = self.peek(n['inner'][1 - var_i], env)
                if c is None or c.t[0] != 'int' or c.r[0] != c.r[1]:
                    continue
                cv = c.r[0]
                o = op
                if flip:
                    o = {'<': '>', '>': '<', '<=': '>=', '>=': '<='}.get(op, op)
                if not truth:
                    o = {'==': '!=', '!=': '==', '<': '>=', '>=': '<', '>': '<=', '<=': '>'}[o]
                if zero_ok and cv != 0 and self.as_var(n['inner'][var_i], False) is None:
                    continue
                if o == '==':
                    return self.narrow(env, key, cv, cv)
                if o == '!=':
                    return self.narrow(env, key, nz=True) if cv == 0 else env
                if o == '<':
                    return self.narrow(env, key, hi=cv - 1)
                if o == '<=':
                    return self.narrow(env, key, hi=cv)
                if o == '>':
                    return self.narrow(env, key, lo=cv + 1)
                return self.narrow(env, key, lo=cv)
        return env

    # ------------------------------------------------------------- statements
    def fresh(self, base):
        self.cnt += 1
        return f'{lean_id(base)}_{self.cnt}'

    def bump(self, name, op, env):
        """x++ / x-- as a statement: returns the let text"""
        v = env[name]
        nv = self.fresh(name)
        if v.t[0] == 'ptr':
            if op != '++':
                self.refuse('pointer decrement')
            env[name] = V(nv, v.t)
            return f'let {nv} := ({v.e} + 1)\n'
        if v.t[0] != 'int':
            self.refuse('++ on ' + str(v.t))
        one = V(f'1#{v.t[1]}', v.t, (1, 1))
        r = self.arith('+' if op == '++' else '-', v, one, v.t)
        env[name] = V(nv, v.t, r)
        return f'let {nv} := ({v.e} {"+" if op == "++" else "-"} 1#{v.t[1]})\n'

    def flush_loads(self, env):
        """log the loads from `mem` made by the expression(s) just translated"""
        if not self.loads:
            return ''
        nv = self.fresh('ev')
        evs = ', '.join(f'Ev.load ({o})' for o in self.loads)
        txt = f'let {nv} := {env["$ev"].e} ++ [{evs}]\n'
        env['$ev'] = V(nv, ('ev',))
        self.loads = []
        return txt

    def flush(self, env):
        lets = self.flush_loads(env)
        for name, op in self.pending:
            lets += self.bump(name, op, env)
        self.pending = []
        return lets

    def log(self, env, ev):
        nv = self.fresh('ev')
        txt = f'let {nv} := {env["$ev"].e} ++ [{ev}]\n'
        env['$ev'] = V(nv, ('ev',))
        return txt

    def is_cut(self, s):
        return bool(self.stop_at) and any(x.get('kind') == 'CallExpr' and callee_name(x) in self.stop_at
                                          for x in walk(s))

    def has_impure(self, n):
        for x in walk(n):
            if x.get('kind') == 'CallExpr':
                name = callee_name(x)
                if name in CLZ or name in ('__builtin_bswap32', '__builtin_bswap64'):
                    continue
                sig = self.mod.sigs.get(name) if self.mod else None
                if sig is None or not sig.pure:
                    return True
        return False

    def stmts(self, ss, env, ret):
        if not ss:
            return ret(env)
        s, rest = ss[0], ss[1:]
        k = s['kind']
        if self.stop_at and k not in ('CompoundStmt', 'IfStmt', 'WhileStmt', 'ForStmt', 'LabelStmt') \
                and self.is_cut(s):
            return ret(env, None, reach=True)
        if self.outline and not self.in_block and self.mod and self.outlinable(s):
            r = self.outline_block(s, rest, env, ret)
            if r is not None:
                return r
        if k == 'CompoundStmt':
            return self.stmts(s.get('inner', []) + rest, env, ret)
        if k == 'NullStmt':
            return self.stmts(rest, env, ret)
        if k == 'LabelStmt':
            return self.stmts([s['inner'][0]] + rest, env, ret)
        if k == 'DeclStmt':
            env = dict(env)
            lets = ''
            for d in s['inner']:
                if d.get('kind') != 'VarDecl':
                    self.refuse('declaration kind ' + str(d.get('kind')))
                name = d['name']
                t = ctype(d)
                if t[0] == 'arr':
                    if d.get('inner') or not self.mod:
                        self.refuse('array declaration with an initialiser')
                    nv = self.fresh(name)
                    # contents before the first store are indeterminate in C; zeros here
                    lets += f'let {nv} : Array (BitVec {t[1]}) := Array.replicate {t[3]} 0#{t[1]}\n'
                    env[name] = V(nv, t)
                    continue
                if d.get('inner'):
                    init = d['inner'][0]
                    if self.mod and self.has_impure(init):
                        l2, init = self.hoist(init, env)
                        lets += l2
                    v = self.expr(init, env)
                    self.pure('an initialiser')
                    lets += self.flush_loads(env)
                    if t[0] == 'int':
                        if v.t[0] == 'bool':
                            v = self.tobv(v)
                        if v.t[0] != 'int':
                            self.refuse('integer initialised from ' + str(v.t))
                        v = self.conv(v, t)
                    elif v.t[0] == 'aptr':
                        env[name] = v          # a name for (the start of) a word array: no value of its own
                        continue
                    elif v.t[0] != 'ptr':
                        self.refuse('pointer initialised from ' + str(v.t))
                else:
                    # uninitialised local: reading it before assignment would be UB; the value
                    # chosen here is never observable in well-defined executions
                    v = V('0' if t[0] == 'ptr' else f'0#{t[1]}', t if t[0] == 'int' else ('ptr', 'bytes'),
                          (0, 0) if t[0] == 'int' else None)
                    if t[0] == 'int' and self.mod:
                        v = V(v.e, t)        # unknown value: full range
                nv = self.fresh(name)
                lets += f'let {nv} := {v.e}\n'
                env[name] = V(nv, v.t, v.r, nz=v.nz)
            return lets + self.stmts(rest, env, ret)
        if k == 'ReturnStmt':
            if s.get('inner'):
                lets = ''
                e0 = s['inner'][0]
                if self.mod and self.has_impure(e0):
                    env = dict(env)
                    lets, e0 = self.hoist(e0, env)
                v = self.expr(e0, env)
                self.pure('a return expression')
                if self.loads:
                    env = dict(env)
                    lets += self.flush_loads(env)
                return lets + ret(env, v)
            return ret(env, None)
        if k == 'GotoStmt':
            lab = s['targetLabelDeclId']
            if lab not in self.labels:
                self.refuse('goto to an unknown label')
            if lab in self.active_labels:
                self.refuse('backward goto (loop)')
            if self.loops and self.labels[lab][1] > 0:
                self.refuse('goto to a label inside a loop')
            self.active_labels.append(lab)
            saved = self.loops
            self.loops = []           # the label is outside every loop: leaving them all
            try:
                return self.stmts(self.labels[lab][0], env, ret)
            finally:
                self.active_labels.pop()
                self.loops = saved
        if k == 'IfStmt':
            if len(s['inner']) not in (2, 3) or s.get('hasInit') or s.get('hasVar'):
                self.refuse('if statement with init/declaration')
            c0 = s['inner'][0]

            def th(e):
                return self.stmts([s['inner'][1]] + rest, dict(e), ret)

            def el(e):
                return self.stmts(([s['inner'][2]] if len(s['inner']) > 2 else []) + rest, dict(e), ret)
            if self.mod and self.has_impure(c0):
                return self.branch(c0, dict(env), th, el)
            if self.mod and self.prune:
                st = self.static_truth(c0, env)
                if st is not None:
                    # the test is decided by the value ranges (macro instantiated with a constant):
                    # only the live branch is translated
                    return th(env) if st else el(env)
            if self.mod and any(x.get('kind') in ('WhileStmt', 'ForStmt') for r in rest for x in walk(r)) \
                    and not self.escapes(s['inner'][1:]):
                return self.join_if(s, rest, env, ret)
            c = self.cond(c0, env)
            lets = ''
            if self.loads:
                env = dict(env)
                lets = self.flush_loads(env)
            return lets + f'if {c} then\n{indent(th(self.refine(c0, env, True)))}\nelse\n' \
                          f'{indent(el(self.refine(c0, env, False)))}'
        if k in ('WhileStmt', 'ForStmt') and self.mod:
            return self.loop(s, rest, env, ret)
        if k == 'SwitchStmt' and self.mod:
            return self.switch(s, rest, env, ret)
        if k == 'DoStmt' and self.mod:
            body, cnd = s['inner'][0], s['inner'][1]
            cv = self.peek(cnd, env)
            if cv is None or cv.t[0] != 'int' or cv.r != (0, 0):
                self.refuse('do-while other than `do { } while (0)`')
            if any(x.get('kind') in ('BreakStmt', 'ContinueStmt') for x in walk(body)):
                self.refuse('break / continue inside do { } while (0)')
            return self.stmts([body] + rest, env, ret)
        if k == '$continue' or k == 'ContinueStmt':
            if not self.loops:
                self.refuse('continue outside a loop')
            ctx = self.loops[-1]
            if ctx.get('kind') == 'switch':
                self.refuse('continue inside a switch')
            if ctx['inc'] is not None and k != '$recur':
                return self.stmts([ctx['inc'], {'kind': '$recur'}], env, ret)
            return self.recur(ctx, env)
        if k == '$recur':
            return self.recur(self.loops[-1], env)
        if k == '$unroll':
            return s['go'](env, s['k'])
        if k == 'BreakStmt':
            if not self.loops:
                self.refuse('break outside a loop')
            ctx = self.loops[-1]
            saved = self.loops
            self.loops = self.loops[:-1]
            try:
                return self.stmts(ctx['rest'], env, ret)
            finally:
                self.loops = saved
        if k == 'CallExpr' and self.mod:
            env = dict(env)
            name = callee_name(s)
            if name in MEM_FUNCS:
                lets = self.memfunc(name, s, env)
            else:
                lets, _ = self.call(s, env)
            return lets + self.stmts(rest, env, ret)
        if k in ('BinaryOperator', 'CompoundAssignOperator', 'UnaryOperator'):
            env, lets = self.assign(s, env)
            return lets + self.stmts(rest, env, ret)
        self.refuse('statement kind ' + k)

    def switch(self, s, rest, env, ret):
        """`switch (e) { case c: … }` with fall-through whose arms only assign (and `break`): the
        assigned variables are joined, `let x := if e == c1 then <arm 1 to the end / break> else …`"""
        if len(s['inner']) != 2 or s['inner'][1].get('kind') != 'CompoundStmt':
            self.refuse('switch statement shape')
        cnode, body = s['inner']
        items = []

        def flat(n):
            if n.get('kind') == 'CaseStmt':
                if len(n['inner']) != 2:
                    self.refuse('case range')
                items.append(('case', n['inner'][0]))
                flat(n['inner'][1])
            elif n.get('kind') == 'DefaultStmt':
                items.append(('default', None))
                flat(n['inner'][-1])
            else:
                items.append(('stmt', n))
        for x in body.get('inner', []):
            flat(x)
        for kind, x in items:
            if kind == 'stmt':
                for y in walk(x):
                    if y.get('kind') in ('ReturnStmt', 'GotoStmt', 'ContinueStmt', 'LabelStmt', 'WhileStmt', 'ForStmt',
                                         'DoStmt', 'SwitchStmt', 'CaseStmt', 'DefaultStmt'):
                        self.refuse('switch arm containing ' + y['kind'])
                if self.is_cut(x):
                    self.refuse('cut point inside a switch')
        env = dict(env)
        v = self.expr(cnode, env)
        self.pure('a switch expression')
        lets = self.flush_loads(env)
        if v.t[0] != 'int':
            self.refuse('switch on ' + str(v.t))
        asg = self.assigned_keys(body)
        keys = [k for k in env if k in asg or ('$arrays' in asg and isinstance(env[k], V) and env[k].t[0] == 'arr')]
        if '$ev' in env:
            keys.append('$ev')
        ends = []

        def kj(e, val=None, reach=False):
            if val is not None or reach:
                self.refuse('internal: escape from a switch')
            ends.append(e)
            parts = [self.atom(e[k].e) for k in keys]
            return '(' + ', '.join(parts) + ')' if len(parts) != 1 else (parts[0] if parts else '()')
        arms = []
        default = None
        seen = set()
        for i, (kind, x) in enumerate(items):
            if kind == 'stmt':
                continue
            tail = [y for kd, y in items[i + 1:] if kd == 'stmt']
            self.loops.append({'kind': 'switch', 'rest': [], 'inc': None})
            try:
                t = self.stmts(tail, dict(env), kj)
            finally:
                self.loops.pop()
            if kind == 'default':
                default = t
            else:
                cv = self.peek(x, env)
                if cv is None or cv.t[0] != 'int' or cv.r[0] != cv.r[1]:
                    self.refuse('case label that is not a constant')
                if cv.r[0] in seen:
                    self.refuse('duplicate case label')
                seen.add(cv.r[0])
                arms.append((cv.r[0] % (1 << v.t[1]), t))
        if default is None:
            default = kj(env)
        if not keys:
            return lets + self.stmts(rest, env, ret)
        term = default
        for c, t in reversed(arms):
            term = f'if ({v.e} == {c}#{v.t[1]}) then\n{indent(t)}\nelse\n{indent(term)}'
        j = self.fresh('j')
        lets += f'let {j} := (\n{indent(term)})\n'
        for i, k in enumerate(keys):
            pr = j if len(keys) == 1 else j + '.2' * i + ('.1' if i < len(keys) - 1 else '')
            rs = [e[k].r for e in ends]
            r = (min(x[0] for x in rs), max(x[1] for x in rs)) if env[k].t[0] == 'int' else None
            env[k] = V(pr, env[k].t, r, nz=all(e[k].nz for e in ends))
        if any(e.get('$dirty') for e in ends):
            env['$dirty'] = True
        return lets + self.stmts(rest, env, ret)

    def escapes(self, ss):
        """may control leave the statements other than by falling off their end?"""
        for st in ss:
            for x in walk(st):
                if x.get('kind') in ('ReturnStmt', 'GotoStmt', 'BreakStmt', 'ContinueStmt', 'LabelStmt',
                                     'WhileStmt', 'ForStmt', 'DoStmt', 'SwitchStmt'):
                    return True
            if self.is_cut(st):
                return True
        return False

    def outlinable(self, s):
        """statements that become a function of their own with `outline=True`: a
        `do { … } while (0)` block (one macro instance) or an assignment statement"""
        k = s.get('kind')
        if k == 'DoStmt':
            return not self.escapes([s['inner'][0]])
        if k in ('BinaryOperator', 'CompoundAssignOperator'):
            return k == 'CompoundAssignOperator' or s.get('opcode') == '='
        return False

    def tproj(self, v, i, n):
        return v if n == 1 else v + '.2' * i + ('.1' if i < n - 1 else '')

    def outline_block(self, s, rest, env, ret):
        """the statement as `def <fn>_blk<N> (σ : state tuple) : state tuple` over all variables
        in scope; the caller's chain is then `let σ' := <fn>_blk<N> σ` with every σ used once"""
        keys = [k for k, v in env.items() if isinstance(v, V) and v.t[0] not in ('ptrptr', 'aptr')]
        if not keys:
            return None
        n = len(keys)
        ty = ' × '.join(self.lean_type(env[k]) for k in keys)
        self.nblocks += 1
        name = f'{self.fn}_blk{self.nblocks}'
        env_in = dict(env)
        lets_in = ''
        for i, k in enumerate(keys):
            pn = self.fresh(k)
            lets_in += f'let {pn} := {self.tproj("σ", i, n)}\n'
            env_in[k] = V(pn, env[k].t, env[k].r, nz=env[k].nz)
        ends = []

        def kj(e, val=None, reach=False):
            if val is not None or reach:
                self.refuse('internal: escape from an outlined block')
            ends.append(e)
            parts = [self.atom(e[k].e) for k in keys]
            return '(' + ', '.join(parts) + ')' if n != 1 else parts[0]
        self.in_block = True
        try:
            body = self.stmts([s], env_in, kj)
        finally:
            self.in_block = False
        if len(ends) != 1:
            self.refuse('internal: outlined block with %d exits' % len(ends))
        end = ends[0]
        self.loopdefs.append(f'def {name} {self.sigparams}(σ : {ty}) : {ty} :=\n{indent(lets_in + body)}\n')
        # argument: the previous state tuple itself when nothing else touched the variables
        e0 = env[keys[0]].e
        arg = None
        suf0 = self.tproj('', 0, n)
        if n > 1 and e0.endswith(suf0):
            base = e0[:-len(suf0)]
            if base and all(env[k].e == self.tproj(base, i, n) for i, k in enumerate(keys)):
                arg = base
        if arg is None:
            parts = [self.atom(env[k].e) for k in keys]
            arg = '(' + ', '.join(parts) + ')' if n != 1 else parts[0]
        sv = self.fresh('s')
        env = dict(env)
        for i, k in enumerate(keys):
            env[k] = V(self.tproj(sv, i, n), end[k].t, end[k].r, nz=end[k].nz)
        if end.get('$dirty'):
            env['$dirty'] = True
        fuelarg = ''
        return f'let {sv} := {name} {self.sigargs}{fuelarg}{arg}\n' + self.stmts(rest, env, ret)

    def join_if(self, s, rest, env, ret):
        """`if` whose branches only assign: the assigned variables are joined with one
        `let x := if c then .. else ..` so that the rest of the function is translated once"""
        env = dict(env)
        c0 = s['inner'][0]
        c = self.cond(c0, env)
        lets = self.flush_loads(env)
        asg = self.assigned_keys(s)
        keys = [k for k in env if k in asg or ('$arrays' in asg and isinstance(env[k], V) and env[k].t[0] == 'arr')]
        if '$ev' in env:
            keys.append('$ev')
        ends = []

        def kj(e, val=None, reach=False):
            if val is not None or reach:
                self.refuse('internal: escape from a joined if')
            ends.append(e)
            parts = [self.atom(e[k].e) for k in keys]
            return '(' + ', '.join(parts) + ')' if len(parts) != 1 else parts[0]
        tt = self.stmts([s['inner'][1]], self.refine(c0, env, True), kj)
        et = self.stmts([s['inner'][2]] if len(s['inner']) > 2 else [], self.refine(c0, env, False), kj)
        if not keys:
            return lets + self.stmts(rest, env, ret)
        j = self.fresh('j')
        lets += f'let {j} := (\n  if {c} then\n{indent(indent(tt))}\n  else\n{indent(indent(et))})\n'
        for i, k in enumerate(keys):
            pr = j if len(keys) == 1 else j + '.2' * i + ('.1' if i < len(keys) - 1 else '')
            rs = [e[k].r for e in ends]
            r = (min(x[0] for x in rs), max(x[1] for x in rs)) if env[k].t[0] == 'int' else None
            env[k] = V(pr, env[k].t, r, nz=all(e[k].nz for e in ends))
        if any(e.get('$dirty') for e in ends):
            env['$dirty'] = True
        return lets + self.stmts(rest, env, ret)

    # ------------------------------------------------------------------ loops
    def lean_type(self, v):
        t = v.t
        if t[0] == 'int':
            return f'BitVec {t[1]}'
        if t[0] == 'bool':
            return 'Bool'
        if t[0] == 'ptr':
            return 'Nat'
        if t[0] == 'out':
            return 'List (BitVec 8)'
        if t[0] == 'ev':
            return 'List Ev'
        if t[0] == 'opt':
            return f'Option ({t[1]})'
        if t[0] == 'arr':
            return f'Array (BitVec {t[1]})'
        self.refuse('no Lean type for ' + str(t))

    def assigned_keys(self, s):
        """env keys that the statement may assign (over-approximation by syntax)"""
        keys = set()
        allf = False
        allarr = False
        for x in walk(s):
            k = x.get('kind')
            tgt = None
            if k == 'BinaryOperator' and x.get('opcode') == '=' or k == 'CompoundAssignOperator':
                tgt = x['inner'][0]
            elif k == 'UnaryOperator' and x.get('opcode') in ('++', '--', '&'):
                tgt = x['inner'][0]
            elif k == 'CallExpr':
                name = callee_name(x)
                if name not in CLZ and name not in MEM_FUNCS and not str(name).startswith('__builtin_bswap'):
                    sig = self.mod.sigs.get(name) or self.mod.externs.get(name)
                    if sig is None or sig.struct_mut:
                        allf = True
            if tgt is not None:
                tgt = strip_parens(tgt)
                if tgt.get('kind') == 'DeclRefExpr':
                    keys.add(tgt['referencedDecl']['name'])
                elif tgt.get('kind') == 'MemberExpr' and self.struct:
                    keys.add(self.struct[0] + '->' + tgt['name'])
                elif tgt.get('kind') == 'UnaryOperator' and tgt.get('opcode') == '*':
                    pn = self.as_var(tgt['inner'][0], False)
                    if pn is not None and self.roles.get(pn) == 'outval':
                        keys.add('*' + pn)
                elif tgt.get('kind') == 'ArraySubscriptExpr':
                    allarr = True
                else:
                    self.refuse('assignment target inside a loop: ' + str(tgt.get('kind')))
        if allf and self.struct:
            keys |= {self.struct[0] + '->' + f for f in self.struct[1].fields}
        if allarr:
            keys |= {'$arrays'}
        return keys

    def loop(self, s, rest, env, ret, _rng=None, _dry=False):
        k = s['kind']
        if k == 'ForStmt':
            if len(s['inner']) != 5:
                self.refuse('for statement shape')
            init, cvar, cond, inc, body = s['inner']
            if cvar:
                self.refuse('for statement with a condition variable')
            if init:
                s2 = dict(s)
                s2['inner'] = [{}, {}, cond, inc, body]
                return self.stmts([init, s2] + rest, env, ret)
            if not cond:
                self.refuse('for statement without a condition')
            inc = inc if inc else None
        else:
            if len(s['inner']) != 2:
                self.refuse('while statement with a condition variable')
            cond, body = s['inner']
            inc = None
        if self.has_impure(cond):
            self.refuse('call with side effects in a loop condition')
        for x in walk(body):
            if x.get('kind') == 'LabelStmt':
                self.refuse('contains ' + x['kind'] + ' inside a loop')
        if not _dry and _rng is None:
            un = self.unroll(cond, inc, body, rest, env, ret)
            if un is not None:
                return un
        assigned = self.assigned_keys(s)
        if not _dry and _rng is None:
            _rng = self.loop_ranges(s, rest, env, assigned)
        writes_mem = any(x.get('kind') == 'CallExpr' for x in walk(body)) or \
            any(x.get('kind') in ('BinaryOperator', 'CompoundAssignOperator') and
                strip_parens(x['inner'][0]).get('kind') in ('ArraySubscriptExpr', 'UnaryOperator')
                for x in walk(body))
        self.nloops += 1
        lname = f'{self.fn}_loop{self.nloops}'
        keys = [key for key, v in env.items() if isinstance(v, V) and v.t[0] not in ('ptrptr', 'aptr')]
        env2 = dict(env)
        params = []
        args0 = []
        if self.struct:
            # an untouched struct value travels as one parameter
            p, sd, _ = self.struct
            fkeys = [p + '->' + f for f in sd.fields if sd.fields[f][0] not in ('ptr', 'rec')]
            sv = self.struct_val(env)
            if not sv.startswith('({') and not any(fk in assigned for fk in fkeys) and '$arrays' not in assigned:
                pn = self.fresh(p)
                params.append(f'({pn} : {sd.name})')
                args0.append(sv)
                for fk in fkeys:
                    env2[fk] = V(f'{pn}.{lean_id(fk.split("->")[1])}', env[fk].t, env[fk].r, nz=env[fk].nz)
                keys = [k for k in keys if k not in fkeys]
        for key in keys:
            v = env[key]
            pn = self.fresh(key)
            params.append(f'({pn} : {self.lean_type(v)})')
            chg = key in assigned or key.startswith('$') or key.startswith('*')
            r2 = None if chg else v.r
            if chg and _rng and key in _rng:
                r2 = _rng[key]           # invariant range found by loop_ranges
            env2[key] = V(pn, v.t, r2, nz=v.nz and not chg)
        if writes_mem and self.struct:
            env2['$dirty'] = True
        args_now = ' '.join(args0 + [self.atom(env[key].e) for key in keys])
        ctx = {'name': lname, 'keys': keys, 'inc': inc, 'rest': rest,
               'fixed': [x[1:].split(' : ')[0] for x in params[:len(args0)]], 'dry': [] if _dry else None}
        v = self.expr(cond, env2)
        if v.t[0] == 'bool':
            c = v.e
        elif v.t[0] == 'int':
            c = v.b if v.b is not None else f'({v.e} != 0#{v.t[1]})'
        else:
            self.refuse('loop condition of type ' + str(v.t))
        had_side = bool(self.pending)
        # `while (n--)`: the side effect of the test happens whether or not the loop is entered
        lets = self.flush(env2)
        if had_side:
            cond = {'kind': 'NullStmt'}       # no range refinement from a test with side effects
        self.loops.append(ctx)
        try:
            body_t = self.stmts([body, {'kind': '$continue'}], self.refine(cond, env2, True),
                                (lambda e, v=None, reach=False: 'DRY') if _dry else ret)
        finally:
            self.loops.pop()
        if _dry:
            return ctx['dry']
        exit_t = self.stmts(rest, self.refine(cond, env2, False), ret)
        text = (f'def {lname} {self.sigparams}(n : Nat) {" ".join(params)} : {self.ret_type} :=\n'
                f'  match n with\n  | 0 => none\n  | n + 1 =>\n'
                + indent(indent(lets + f'if {c} then\n{indent(body_t)}\nelse\n{indent(exit_t)}')) + '\n')
        self.loopdefs.append(text)
        return f'{lname} {self.sigargs}fuel fuel {args_now}'

    def static_truth(self, n, env):
        """True / False when interval analysis decides the comparison `n`, else None"""
        n = strip_parens(n)
        if n.get('kind') != 'BinaryOperator' or n.get('opcode') not in ('<', '>', '<=', '>=', '==', '!='):
            return None
        a, b = self.peek(n['inner'][0], env), self.peek(n['inner'][1], env)
        if a is None or b is None or a.t[0] != 'int' or b.t[0] != 'int':
            return None
        (al, ah), (bl, bh), op = a.r, b.r, n['opcode']
        if op in ('>', '>='):
            (al, ah), (bl, bh), op = (bl, bh), (al, ah), {'>': '<', '>=': '<='}[op]
        if op == '<':
            return True if ah < bl else False if al >= bh else None
        if op == '<=':
            return True if ah <= bl else False if al > bh else None
        if op == '==':
            return True if al == ah == bl == bh else False if ah < bl or bh < al else None
        return False if al == ah == bl == bh else True if ah < bl or bh < al else None

    def unroll(self, cond, inc, body, rest, env, ret):
        """loops whose every test is decided by interval analysis (`for (i = 0; i < 4; i++)`,
        `while (k_pos < 64) { ...16 times k_pos++... }`) are unrolled (at most 16 rounds);
        None = not such a loop (first test undecided, or a later one: then nothing is kept)"""
        if self.no_unroll or self.static_truth(cond, env) is None:
            return None
        if any(x.get('kind') in ('BreakStmt', 'ContinueStmt') for x in walk(body)):
            return None
        if self.has_impure(cond) or self.peek(cond, env) is None:
            return None

        class Undecided(Exception):
            pass

        def go(e, k):
            t = self.static_truth(cond, e)
            if t is None:
                raise Undecided()
            if not t:
                return self.stmts(rest, e, ret)
            if k >= 16:
                raise Undecided()
            return self.stmts([body] + ([inc] if inc is not None else []) +
                              [{'kind': '$unroll', 'go': go, 'k': k + 1}], e, ret)
        saved = (self.cnt, self.nloops, len(self.loopdefs), list(self.pending), list(self.loads),
                 len(self.uses_ext), len(self.ret_ranges), list(self.loops))
        try:
            return go(env, 0)
        except Undecided:
            self.cnt, self.nloops = saved[0], saved[1]
            del self.loopdefs[saved[2]:]
            self.pending, self.loads = saved[3], saved[4]
            del self.uses_ext[saved[5]:]
            del self.ret_ranges[saved[6]:]
            self.loops = saved[7]
            return None

    def atom(self, e):
        e = e.strip()
        if e.startswith('(') or e.replace('_', 'a').replace('.', 'a').isalnum():
            return e
        return f'({e})'

    def loop_ranges(self, s, rest, env, assigned):
        """invariant value ranges of the integer variables a loop assigns: a post-fixpoint of
        r -> entry ∪ (ranges at the back edges when the body starts from r), found by a few
        increasing rounds, widening, and decreasing rounds (each of which is again a post-fixpoint)"""
        keys = [k for k in assigned if isinstance(env.get(k), V) and env[k].t[0] == 'int']
        if not keys:
            return {}
        entry = {k: env[k].r for k in keys}

        def step(r):
            saved = (self.cnt, self.nloops, len(self.loopdefs), list(self.pending), list(self.loads),
                     len(self.uses_ext), len(self.ret_ranges), list(self.loops))
            try:
                backs = self.loop(s, rest, env, None, _rng=r, _dry=True)
            finally:
                self.cnt, self.nloops = saved[0], saved[1]
                del self.loopdefs[saved[2]:]
                self.pending, self.loads = saved[3], saved[4]
                del self.uses_ext[saved[5]:]
                del self.ret_ranges[saved[6]:]
                self.loops = saved[7]
            out = {}
            for k in keys:
                lo, hi = entry[k]
                for e in backs:
                    lo, hi = min(lo, e[k].r[0]), max(hi, e[k].r[1])
                out[k] = (lo, hi)
            return out
        r = dict(entry)
        stable = False
        for _ in range(3):
            n = step(r)
            if n == r:
                stable = True
                break
            r = {k: (min(r[k][0], n[k][0]), max(r[k][1], n[k][1])) for k in keys}
        if not stable:
            n = step(r)
            r = {k: (r[k] if (n[k][0] >= r[k][0] and n[k][1] <= r[k][1]) else full(env[k].t)) for k in keys}
            for _ in range(3):          # r is a post-fixpoint from here on; F(r) is one as well
                n = step(r)
                if any(n[k][0] < r[k][0] or n[k][1] > r[k][1] for k in keys):
                    return {k: full(env[k].t) for k in keys}     # not a post-fixpoint after all: give up
                if n == r:
                    break
                r = n
        return r

    def recur(self, ctx, env):
        if ctx.get('dry') is not None:
            ctx['dry'].append(env)
            return 'DRY'
        args = ' '.join(ctx['fixed'] + [self.atom(env[key].e) for key in ctx['keys']])
        return f'{ctx["name"]} {self.sigargs}fuel n {args}'

    # ------------------------------------------------------------------ calls
    def struct_val(self, env):
        p, sd, _ = self.struct
        flds = [f for f in sd.fields if sd.fields[f][0] not in ('ptr', 'rec')]
        e0 = env[p + '->' + flds[0]].e
        suffix = '.' + lean_id(flds[0])
        if e0.endswith(suffix):
            base = e0[:-len(suffix)]
            if all(env[p + '->' + f].e == base + '.' + lean_id(f) for f in flds):
                return base
        return '({ ' + ', '.join(f'{lean_id(f)} := {env[p + "->" + f].e}' for f in sd.fields
                                 if sd.fields[f][0] not in ('ptr', 'rec')) + f' }} : {sd.name})'

    def call_text(self, n, sig, env, outs=None):
        """Lean text of a call to a translated / extern function; returns (text, V of the C result)"""
        args = n['inner'][1:]
        if len(args) != len(sig.params):
            self.refuse(f'call to {sig.name} with {len(args)} arguments')
        regmap = {}
        words = []
        for a, (pname, role, pt) in zip(args, sig.params):
            if role == 'struct':
                b = a
                while b.get('kind') in ('ImplicitCastExpr', 'ParenExpr'):
                    b = b['inner'][-1]
                if not self.struct or b.get('kind') != 'DeclRefExpr' or \
                        b['referencedDecl']['name'] != self.struct[0]:
                    self.refuse(f'call to {sig.name}: struct argument is not the struct parameter')
                if sig.struct_mut and self.struct[2]:
                    self.refuse(f'call to {sig.name}: const struct passed to a modifying function')
                words.append(self.struct_val(env))
            elif role == 'val':
                v = self.expr(a, env)
                if v.t[0] == 'bool':
                    v = self.tobv(v)
                if v.t[0] != 'int':
                    self.refuse(f'call to {sig.name}: argument {pname} of type {v.t}')
                cv = self.conv(v, pt[:3])
                if len(pt) > 3 and not (pt[3][0] <= cv.r[0] and cv.r[1] <= pt[3][1]):
                    self.refuse(f'call to {sig.name}: argument {pname} with range {cv.r} outside the '
                                f'range {pt[3]} the callee was translated for')
                words.append(self.atom(cv.e))
            elif role == 'outval':
                b = strip_parens(a)
                if b.get('kind') == 'UnaryOperator' and b.get('opcode') == '&' and \
                        strip_parens(b['inner'][0]).get('kind') == 'DeclRefExpr':
                    name = strip_parens(b['inner'][0])['referencedDecl']['name']
                    if name not in env or env[name].t[0] != 'int' or env[name].t[1:] != pt[1:]:
                        self.refuse(f'call to {sig.name}: &{name} does not have the pointee type')
                    if outs is None:
                        self.refuse(f'call to {sig.name}: out argument inside an expression')
                    outs.append((pname, name))
                else:
                    self.refuse(f'call to {sig.name}: out argument is not &local')
            elif isinstance(role, tuple) and role[0] == 'ptr':
                v = self.expr(a, env)
                if v.t[0] != 'ptr' or len(v.t) != 2 or v.t[1] in ('out', 'opaque'):
                    self.refuse(f'call to {sig.name}: pointer argument of type {v.t}')
                if regmap.setdefault(role[1], v.t[1]) != v.t[1]:
                    self.refuse(f'call to {sig.name}: pointers into different regions for one region')
                words.append(self.atom(v.e))
            else:
                self.refuse(f'call to {sig.name}: parameter role {role}')
        if not (sig.pure and not sig.regions):
            self.pure('call arguments')
        pre = []
        for r in sig.regions:
            if r == 'mem':
                if not self.struct:
                    self.refuse(f'call to {sig.name}: needs the struct\'s memory')
                if sig.loads_mem and env.get('$dirty'):
                    self.refuse(f'call to {sig.name}: loads from memory written earlier in this function')
                pre.append('mem')
            else:
                if r not in regmap:
                    self.refuse(f'call to {sig.name}: region {r} not determined by the arguments')
                pre.append('rd' if regmap[r] == 'bytes' else regmap[r])
        for x in sig.externs:
            if x not in self.uses_ext:
                self.uses_ext.append(x)
            pre.append('ext_' + x)
        if sig.extern:
            if sig.name not in self.uses_ext:
                self.uses_ext.append(sig.name)
            fname = 'ext_' + sig.name
        else:
            fname = sig.name
        if sig.fuel:
            self.refuse(f'call to {sig.name}: it has loops (fuel)')
        text = '(' + ' '.join([fname] + pre + words) + ')'
        rv = None
        if sig.ret is not None:
            rv = V(text, ('bool',)) if sig.ret == 'bool' else V(text, sig.ret, sig.ret_range)
        return text, rv

    def call(self, n, env):
        """call at statement level (env is updated in place); returns (lets, V of the C result)"""
        name = callee_name(n)
        sig = (self.mod.sigs.get(name) or self.mod.externs.get(name)) if self.mod else None
        if sig is None:
            self.refuse('call to ' + str(name) + ' (not translated, not declared extern)')
        outs = []
        text, rv = self.call_text(n, sig, env, outs)
        lets = self.flush_loads(env)
        comps = sig.comps
        if len(comps) <= 1 and not outs and not sig.struct_mut and not sig.has_ev:
            return lets, rv
        r = self.fresh('r')
        lets += f'let {r} := {text[1:-1]}\n'

        def proj(i):
            if len(comps) == 1:
                return r
            return r + '.2' * i + ('.1' if i < len(comps) - 1 else '')
        rv2 = None
        for i, c in enumerate(comps):
            if c == 'ret':
                rv2 = V(proj(i), ('bool',)) if sig.ret == 'bool' else V(proj(i), sig.ret, sig.ret_range)
            elif c == 'struct':
                p, sd, _ = self.struct
                for f, ft in sd.fields.items():
                    if ft[0] not in ('ptr', 'rec'):
                        env[p + '->' + f] = V(f'{proj(i)}.{lean_id(f)}', ft)
            elif c == 'ev':
                nv = self.fresh('ev')
                lets += f'let {nv} := {env["$ev"].e} ++ {proj(i)}\n'
                env['$ev'] = V(nv, ('ev',))
            elif c[0] == 'out':
                tgt = [x for x in outs if x[0] == c[1]]
                if not tgt:
                    self.refuse(f'call to {sig.name}: out parameter {c[1]} not bound')
                old = env[tgt[0][1]]
                nv = self.fresh(tgt[0][1])
                lets += f'let {nv} := ({proj(i)}).getD {self.atom(old.e)}\n'
                env[tgt[0][1]] = V(nv, old.t)
            else:
                self.refuse('result component ' + str(c))
        if sig.writes_mem or sig.extern:
            env['$dirty'] = True
        return lets, rv2

    def hoist(self, n, env):
        """perform the (single) call with side effects inside expression `n` first; returns
        (lets, n with the call replaced by its value).  Only through casts / parentheses, so the
        evaluation order is not changed."""
        k = n.get('kind')
        if k == 'CallExpr':
            lets, rv = self.call(n, env)
            if rv is None:
                self.refuse('value of a void call')
            return lets, {'kind': '$V', 'v': rv}
        if k in ('ParenExpr', 'ConstantExpr', 'ImplicitCastExpr', 'CStyleCastExpr'):
            lets, sub = self.hoist(n['inner'][-1], env)
            n2 = dict(n)
            n2['inner'] = n['inner'][:-1] + [sub]
            return lets, n2
        self.refuse('call with side effects inside a larger expression')

    def branch(self, n, env, kt, kf):
        """if-condition that contains calls with side effects: C's short-circuit order made explicit"""
        n = strip_parens(n)
        k = n.get('kind')
        if k == 'BinaryOperator' and n['opcode'] == '||':
            return self.branch(n['inner'][0], env, kt, lambda e: self.branch(n['inner'][1], dict(e), kt, kf))
        if k == 'BinaryOperator' and n['opcode'] == '&&':
            return self.branch(n['inner'][0], env, lambda e: self.branch(n['inner'][1], dict(e), kt, kf), kf)
        if k == 'UnaryOperator' and n['opcode'] == '!':
            return self.branch(n['inner'][0], env, kf, kt)
        if k == 'ImplicitCastExpr' and n.get('castKind') in ('IntegralToBoolean', 'IntegralCast') and \
                self.has_impure(n):
            return self.branch(n['inner'][-1], env, kt, kf)
        lets = ''
        if self.has_impure(n):
            if k != 'CallExpr':
                self.refuse('call with side effects inside a larger condition')
            lets, rv = self.call(n, env)
            if rv is None:
                self.refuse('void call as a condition')
            c = rv.e if rv.t[0] == 'bool' else f'({rv.e} != 0#{rv.t[1]})'
            return lets + f'if {c} then\n{indent(kt(env))}\nelse\n{indent(kf(env))}'
        c = self.cond(n, env)
        lets = self.flush_loads(env)
        return lets + f'if {c} then\n{indent(kt(self.refine(n, env, True)))}\nelse\n' \
                      f'{indent(kf(self.refine(n, env, False)))}'

    def memfunc(self, name, n, env):
        """memcpy / memmove / memset on the struct's memory region, as an effect; or
        `memcpy(&x, p, sizeof x)` = load of an integer from a byte region (little-endian host)"""
        a = n['inner'][1:]
        if len(a) != 3:
            self.refuse(name + ' argument count')
        d0 = a[0]
        while d0.get('kind') in ('ImplicitCastExpr', 'CStyleCastExpr', 'ParenExpr') and \
                d0.get('castKind', 'BitCast') in ('BitCast', 'NoOp'):
            d0 = d0['inner'][-1]
        if name == 'memcpy' and d0.get('kind') == 'UnaryOperator' and d0.get('opcode') == '&' and \
                strip_parens(d0['inner'][0]).get('kind') == 'DeclRefExpr':
            x = strip_parens(d0['inner'][0])['referencedDecl']['name']
            old = env.get(x)
            if not isinstance(old, V) or old.t[0] != 'int' or old.t[2] or old.t[1] not in (16, 32, 64):
                self.refuse('memcpy into &' + x + ': not an unsigned 16/32/64-bit variable')
            src = self.expr(a[1], env)
            ln = self.expr(a[2], env)
            self.pure('memcpy arguments')
            if src.t[0] != 'ptr' or len(src.t) != 2 or src.t[1] in ('out', 'opaque', 'mem', 'bytes'):
                self.refuse('memcpy into a variable from ' + str(src.t))
            if ln.t[0] != 'int' or ln.r != (old.t[1] // 8, old.t[1] // 8):
                self.refuse('memcpy into a variable: length is not its size')
            w = old.t[1]
            parts = [f'((BitVec.zeroExtend {w} ({src.t[1]} ({src.e} + {i}))) <<< {8 * i})' for i in range(w // 8)]
            nv = self.fresh(x)
            env[x] = V(nv, old.t)
            return f'let {nv} := ({" ||| ".join(parts)})\n'
        if not self.struct:
            self.refuse(name + ' without a struct parameter')
        dst = self.expr(a[0], env)
        if dst.t != ('ptr', 'mem'):
            self.refuse(name + ': destination is not inside the struct\'s memory')
        ln = self.expr(a[2], env)
        if ln.t[0] != 'int' or ln.t[2]:
            self.refuse(name + ': length of type ' + str(ln.t))
        if name == 'memset':
            v = self.expr(a[1], env)
            if v.t[0] != 'int':
                self.refuse('memset value of type ' + str(v.t))
            ev = f'Ev.memset ({dst.e}) {self.conv(v, ("int", 8, False)).e} ({ln.e}).toNat'
        else:
            src = self.expr(a[1], env)
            if src.t == ('ptr', 'opaque'):
                ev = f'Ev.memcpyIn ({dst.e}) ({ln.e}).toNat'
            elif src.t == ('ptr', 'mem') and name == 'memmove':
                ev = f'Ev.memmove ({dst.e}) ({src.e}) ({ln.e}).toNat'
            else:
                self.refuse(name + ': source of type ' + str(src.t))
        self.pure(name + ' arguments')
        lets = self.flush_loads(env)
        lets += self.log(env, ev)
        env['$dirty'] = True
        return lets

    def assign(self, s, env):
        env = dict(env)
        k = s['kind']
        op = s['opcode']

        def target(n):
            while n['kind'] == 'ParenExpr':
                n = n['inner'][0]
            return n

        def var_key(n):
            """env key of an assignable variable / struct field, or None"""
            if n['kind'] == 'DeclRefExpr':
                return n['referencedDecl']['name']
            if n['kind'] == 'MemberExpr' and self.mod:
                key, fld = self.field_key(n)
                if fld[0] == 'ptr':
                    self.refuse('assignment to the struct\'s pointer field')
                return key
            return None
        if k == 'UnaryOperator':
            if op not in ('++', '--'):
                self.refuse('expression statement ' + op)
            tgt = target(s['inner'][0])
            if tgt['kind'] == 'ArraySubscriptExpr' and self.mod:
                el = self.elem(tgt, env)
                if el is None or el[0] not in env:
                    self.refuse('++ of an element of something else than a word array')
                self.pure('an array index')
                akey, idx, et = el
                old = V(f'({self.atom(env[akey].e)}.getD {idx} 0#{et[1]})', et)
                r = self.arith('+' if op == '++' else '-', old, V('', et, (1, 1)), et)
                nv = self.fresh(akey)
                sym = '+' if op == '++' else '-'
                lets = f'let {nv} := {self.atom(env[akey].e)}.setIfInBounds {idx} ({old.e} {sym} 1#{et[1]})\n'
                env[akey] = V(nv, env[akey].t)
                return env, lets
            key = var_key(tgt)
            if key is None:
                self.refuse('++ of a non-variable')
            return env, self.bump(key, op, env)
        if k == 'BinaryOperator' and op != '=':
            self.refuse('expression statement ' + op)
        lhs = target(s['inner'][0])
        rhs = s['inner'][1]
        lets0 = ''
        if self.mod and self.has_impure(rhs):
            if op != '=':
                self.refuse('compound assignment from a call with side effects')
            lets0, rhs = self.hoist(rhs, env)
        key = var_key(lhs)
        if op != '=':
            if key is not None and env[key].t[0] == 'ptr' and self.mod and op == '+=':
                v = self.expr(rhs, env)
                if v.t[0] != 'int' or v.r[0] < 0:
                    self.refuse('pointer += possibly negative / non-integer')
                v = V(f'({env[key].e} + ({v.e}).toNat)', env[key].t)
            else:
                fake = {'kind': 'BinaryOperator', 'opcode': op[:-1], 'inner': [s['inner'][0], rhs],
                        'type': s.get('computeResultType', s['type'])}
                if self.mod and 'computeLHSType' in s:
                    # the left operand is converted to the computation type first
                    fake['inner'] = [{'kind': 'ImplicitCastExpr', 'castKind': 'IntegralCast',
                                      'type': s['computeLHSType'],
                                      'inner': [{'kind': 'ImplicitCastExpr', 'castKind': 'LValueToRValue',
                                                 'type': s['inner'][0]['type'], 'inner': [s['inner'][0]]}]}, rhs]
                v = self.expr(fake, env)
        else:
            v = self.expr(rhs, env)
        if key is not None:
            if key not in env:
                self.refuse('assignment to ' + key)
            old = env[key]
            if old.t[0] == 'int':
                if v.t[0] == 'bool':
                    v = self.tobv(v)
                if v.t[0] != 'int':
                    self.refuse('integer assigned from ' + str(v.t))
                v = self.conv(v, ctype(lhs))
            elif old.t[0] == 'bool':
                if v.t[0] == 'int':
                    v = V(v.b if v.b is not None else f'({v.e} != 0#{v.t[1]})', ('bool',))
                if v.t[0] != 'bool':
                    self.refuse('bool assigned from ' + str(v.t))
            elif old.t[0] == 'aptr':
                self.refuse('re-assignment of a pointer to a word array')
            elif old.t[0] == 'ptr':
                if v.t != old.t and not (self.mod and v.t[0] == 'ptr' and old.e == '0'
                                         and old.t == ('ptr', 'bytes')):
                    self.refuse('pointer assigned from ' + str(v.t))
            else:
                self.refuse('assignment to ' + str(old.t))
            nv = self.fresh(key)
            env[key] = V(nv, v.t, v.r, nz=v.nz)
            lets = lets0 + f'let {nv} := {v.e}\n'
            lets += self.flush(env)
            return env, lets
        npend = len(self.pending)
        el = self.elem(lhs, env) if lhs['kind'] == 'ArraySubscriptExpr' and self.mod else None
        if el is not None:
            # a[i] = e  on a word array (local array, struct array field)
            if len(self.pending) != npend:
                self.refuse('side effect in the index of a store')
            akey, idx, et = el
            if akey not in env:
                self.refuse('store into the constant table ' + akey)
            if v.t[0] == 'bool':
                v = self.tobv(v)
            if v.t[0] != 'int':
                self.refuse('array element assigned from ' + str(v.t))
            v = self.conv(v, et)
            nv = self.fresh(akey)
            lets = lets0 + self.flush_loads(env)
            lets += f'let {nv} := {self.atom(env[akey].e)}.setIfInBounds {idx} {self.atom(v.e)}\n'
            env[akey] = V(nv, env[akey].t)
            lets += self.flush(env)
            return env, lets
        if lhs['kind'] == 'ArraySubscriptExpr' and self.mod:
            # p[i] = e  with p inside the struct's memory
            b = self.expr(lhs['inner'][0], env)
            i = self.expr(lhs['inner'][1], env)
            if b.t != ('ptr', 'mem') or i.t[0] != 'int' or i.r[0] < 0:
                self.refuse('store through ' + str(b.t))
            if v.t[0] == 'bool':
                v = self.tobv(v)
            if v.t[0] != 'int':
                self.refuse('store of ' + str(v.t))
            t = ctype(lhs)
            if t[0] != 'int' or t[1] != 8:
                self.refuse('store of a non-byte')
            v = self.conv(v, t)
            lets = lets0 + self.flush_loads(env)
            lets += self.log(env, f'Ev.store ({b.e} + ({i.e}).toNat) {self.atom(v.e)}')
            env['$dirty'] = True
            lets += self.flush(env)
            return env, lets
        if lhs['kind'] == 'UnaryOperator' and lhs['opcode'] == '*':
            sub = target(lhs['inner'][0])
            # *dst++ = e   (store through the output pointer, post-increment)
            if sub['kind'] == 'UnaryOperator' and sub['opcode'] == '++' and sub.get('isPostfix'):
                self.pure('a store')
                pn = target(sub['inner'][0])['referencedDecl']['name']
                p = env[pn]
                if p.t != ('ptr', 'out'):
                    self.refuse('store through a pointer that is not the output pointer')
                if v.t[0] == 'bool':
                    v = self.tobv(v)
                if v.t[0] != 'int':
                    self.refuse('store of ' + str(v.t))
                v = self.conv(v, ('int', 8, ctype(lhs)[2]))
                o = self.fresh('out')
                nv = self.fresh(pn)
                oe = env['$out'].e
                env['$out'] = V(o, ('out',))
                env[pn] = V(nv, p.t)
                return env, f'let {o} := {oe} ++ [({v.e} : BitVec 8)]\nlet {nv} := {p.e} + 1\n'
            if sub['kind'] == 'ImplicitCastExpr' and sub.get('castKind') == 'LValueToRValue' and \
                    target(sub['inner'][0])['kind'] == 'DeclRefExpr' and self.mod and \
                    self.roles.get(target(sub['inner'][0])['referencedDecl']['name']) == 'outval':
                # *dst_p = e   (scalar out parameter)
                pn = target(sub['inner'][0])['referencedDecl']['name']
                old = env['*' + pn]
                if old.t[1] == 'Nat':
                    if v.t != ('ptr', 'mem'):
                        self.refuse('pointer out-parameter assigned from ' + str(v.t))
                else:
                    if v.t[0] == 'bool':
                        v = self.tobv(v)
                    if v.t[0] != 'int':
                        self.refuse('out-parameter assigned from ' + str(v.t))
                    v = self.conv(v, ctype(lhs))
                nv = self.fresh('out_' + pn)
                env['*' + pn] = V(nv, old.t)
                lets = lets0 + self.flush_loads(env) + f'let {nv} := some {self.atom(v.e)}\n'
                lets += self.flush(env)
                return env, lets
            self.pure('a store')
            p = self.expr(sub, env)
            self.pure('a store')
            if p.t[0] == 'ptrptr':      # *src_p = p   /  *dst_p = dst
                if v.t[0] != 'ptr' or v.t != env['*' + p.t[1]].t:
                    self.refuse('in/out pointer assigned from ' + str(v.t))
                env['*' + p.t[1]] = v
                return env, ''
        self.refuse('assignment form')


def collect_labels(n, tr, depth=0):
    """label -> (statements from the label to the end of the enclosing compound, loop depth)"""
    if n.get('kind') == 'CompoundStmt':
        inner = n.get('inner', [])
        for i, s in enumerate(inner):
            t = s
            while t.get('kind') == 'LabelStmt':
                tr.labels[t['declId']] = ([t['inner'][0]] + inner[i + 1:], depth)
                t = t['inner'][0]
    if tr.mod is None:
        if n.get('kind') in ('WhileStmt', 'ForStmt', 'DoStmt', 'SwitchStmt', 'CallExpr'):
            tr.refuse('contains ' + n['kind'])
    else:
        if n.get('kind') == 'LabelStmt' and depth > 0:
            tr.refuse('label inside a loop')
        if n.get('kind') in ('WhileStmt', 'ForStmt'):
            depth += 1
    for c in n.get('inner', []):
        if isinstance(c, dict):
            collect_labels(c, tr, depth)


def translate(src, fn, roles, rettype, extra=(), repo=None, flt=None):
    repo = repo or _default_repo()
    d = ast_of(src, fn, repo, extra, flt)
    tr = Tr(fn, roles)
    body = [c for c in d['inner'] if c['kind'] == 'CompoundStmt'][0]
    collect_labels(body, tr)
    env = {}
    params = []
    for p in [c for c in d['inner'] if c['kind'] == 'ParmVarDecl']:
        if p['name'] not in roles:
            tr.refuse('parameter ' + p['name'] + ' has no role (signature changed)')
        r = roles[p['name']]
        if r == 'in':
            env[p['name']] = V('0', ('ptr', 'bytes'))
        elif r == 'end':
            env[p['name']] = V('avail', ('ptr', 'bytes'))
        elif r == 'inout':
            env[p['name']] = V('$pp', ('ptrptr', p['name']))
            env['*' + p['name']] = V('0', ('ptr', 'bytes'))
        elif r == 'outp':
            env[p['name']] = V('$pp', ('ptrptr', p['name']))
            env['*' + p['name']] = V('0', ('ptr', 'out'))
        elif r == 'outend':
            env[p['name']] = V('room', ('ptr', 'out'))
        elif r == 'val':
            t = ctype(p)
            if t[0] != 'int':
                tr.refuse('value parameter of type ' + str(t))
            env[p['name']] = V(p['name'], t)
            params.append(f'({p["name"]} : BitVec {t[1]})')
    missing = set(roles) - {p['name'] for p in d['inner'] if p['kind'] == 'ParmVarDecl'}
    if missing:
        tr.refuse('parameters %s not found (signature changed)' % sorted(missing))
    env['$out'] = V('([] : List (BitVec 8))', ('out',))

    def ret(env, val=None, reach=False):
        parts = []
        if rettype is not None:
            if val is None:
                tr.refuse('control reaches the end of a non-void function')
            if rettype == 'bool':
                if val.t[0] == 'bool':
                    e = val.e
                else:
                    e = f'({val.e} != 0#{val.t[1]})'
            else:
                if val.t[0] == 'bool':
                    val = tr.tobv(val)
                e = tr.conv(val, ('int', rettype, val.t[2])).e
            parts.append(e)
        for name, r in roles.items():
            if r in ('inout', 'outp'):
                parts.append(env['*' + name].e)
        if any(r == 'outp' for r in roles.values()):
            parts.append(env['$out'].e)
        return '(' + ', '.join(parts) + ')' if len(parts) > 1 else parts[0]
    sig = []
    if any(r in ('in', 'inout') for r in roles.values()):
        sig += ['(rd : Nat → BitVec 8)', '(avail : Nat)']
    if any(r == 'outend' for r in roles.values()):
        sig += ['(room : Nat)']
    sig += params
    term = tr.stmts(body['inner'], env, ret)
    return f'def {fn} {" ".join(sig)} :=\n{indent(term)}\n'


# ------------------------------------------------------------- second generation: modules
class StructDef:
    def __init__(self, name, fields):
        self.name = name
        self.fields = fields       # C field name -> ('int', w, signed) | ('bool',) | ('ptr',)

    def lean(self):
        out = f'structure {self.name} where\n'
        for f, t in self.fields.items():
            if t[0] in ('ptr', 'rec'):
                continue
            lt = 'Bool' if t[0] == 'bool' else f'Array (BitVec {t[1]})' if t[0] == 'arr' else f'BitVec {t[1]}'
            out += f'  {lean_id(f)} : {lt}\n'
        return out + 'deriving DecidableEq, Repr\n'


class Sig:
    """what callers need to know about a translated (or extern) function"""

    def __init__(self, name, params, ret, comps, **kw):
        self.name = name
        self.params = params       # [(C name, role, C type of the value / pointee)]
        self.ret = ret             # None | 'bool' | ('int', w, signed)
        self.comps = comps         # result tuple: 'ret' | 'struct' | 'ev' | ('out', param)
        self.ret_range = kw.get('ret_range')
        self.struct_mut = kw.get('struct_mut', False)
        self.has_ev = kw.get('has_ev', False)
        self.writes_mem = kw.get('writes_mem', False)
        self.loads_mem = kw.get('loads_mem', False)
        self.regions = kw.get('regions', [])
        self.externs = kw.get('externs', [])
        self.fuel = kw.get('fuel', False)
        self.extern = kw.get('extern', False)
        self.cut = kw.get('cut', False)
        self.pure = (not self.struct_mut and not self.has_ev and not self.externs and not self.fuel
                     and not self.extern and not self.cut and comps == ['ret'])


EV_PRELUDE = '''/-- effects on the bytes behind the struct's pointer field (`mem`), in program order.
    Offsets and lengths are naturals (an access beyond 4 GiB is still seen as such). -/
inductive Ev where
  /-- `p[ofs]` read -/
  | load (ofs : Nat)
  /-- `p[ofs] = v` -/
  | store (ofs : Nat) (v : BitVec 8)
  /-- `memcpy(p + dst, q, len)` with `q` a pointer of the caller (not inside `mem`) -/
  | memcpyIn (dst len : Nat)
  /-- `memset(p + dst, v, len)` -/
  | memset (dst : Nat) (v : BitVec 8) (len : Nat)
  /-- `memmove(p + dst, p + src, len)` -/
  | memmove (dst src len : Nat)
deriving DecidableEq, Repr
'''


def ret_ctype(d):
    q = d['type']['qualType']
    head = q.split('(')[0].strip()
    if head == 'void':
        return None
    if head in ('bool', '_Bool'):
        return 'bool'
    if head in INT_TYPES:
        return ('int',) + INT_TYPES[head]
    if head.endswith('*') and head[:-1].replace('const ', '').strip() in ('void', 'char', 'unsigned char',
                                                                           'uint8_t'):
        return ('ptr',)
    raise Refused('%s: unsupported return type %s' % (d.get('name'), head))


class Module:
    """a Lean module generated from one C translation unit (`src` may be a stub that #includes
    the real files); functions are added in dependency order"""

    def __init__(self, src, repo=None, flt=None, extra=()):
        self.repo = repo or _default_repo()
        self.src = src
        self.flt = flt
        self.extra = extra
        self.sigs = {}
        self.externs = {}
        self.structs = {}
        self.parts = []
        self.need_ev = False
        self.tables = {}

    # ---- declarations
    def struct(self, cname, union_member=None, skip=()):
        """Lean structure for `struct cname`.  Nested anonymous structs / unions are flattened
        (`u.output32`); of a union exactly one member is part of the view (`union_member`:
        union field name -> member), the others cannot be accessed (refused): no type punning.
        `skip`: fields left out of the view (unsupported types; any access is refused)."""
        union_member = union_member or {}
        for d in ast_docs(self.src, cname, self.repo, self.extra):
            if d.get('kind') == 'RecordDecl' and d.get('name') == cname and d.get('completeDefinition'):
                fields = {}
                self._flatten(cname, d, '', fields, union_member, set(skip))
                sd = StructDef(cname, fields)
                self.structs[cname] = sd
                self.parts.append(sd.lean())
                if any(t[0] == 'ptr' for t in fields.values()):
                    self.need_ev = True
                return sd
        raise Refused('no definition of struct ' + cname)

    def _flatten(self, cname, d, prefix, fields, union_member, skip):
        pending_rec = None
        for f in d.get('inner', []):
            if f.get('kind') == 'RecordDecl':
                pending_rec = f          # definition of the type of the next field
                continue
            if f.get('kind') != 'FieldDecl':
                continue
            name = prefix + f['name']
            if f.get('isBitfield'):
                raise Refused(f'struct {cname}: bit-field {name}')
            q = f['type'].get('desugaredQualType', f['type']['qualType'])
            if name in skip:
                pending_rec = None
                continue
            if q in ('bool', '_Bool'):
                fields[name] = ('bool',)
            elif q.endswith('*'):
                if q.replace('const ', '').strip() not in ('uint8_t *', 'unsigned char *', 'char *'):
                    raise Refused(f'struct {cname}: pointer field {name} of type {q}')
                if any(t[0] == 'ptr' for t in fields.values()):
                    raise Refused(f'struct {cname}: more than one pointer field')
                fields[name] = ('ptr',)
            elif q.startswith('union ') or q.startswith('struct '):
                if pending_rec is None or not pending_rec.get('completeDefinition'):
                    raise Refused(f'struct {cname}: field {name} of a record type defined elsewhere')
                fields[name] = ('rec', pending_rec.get('tagUsed'))
                if pending_rec.get('tagUsed') == 'union':
                    want = union_member.get(name)
                    members = [x['name'] for x in pending_rec.get('inner', []) if x.get('kind') == 'FieldDecl']
                    if want not in members:
                        raise Refused(f'struct {cname}: union {name}: no member chosen among {members}')
                    sub = dict(pending_rec)
                    sub['inner'] = [x for x in pending_rec['inner']
                                    if x.get('kind') != 'FieldDecl' or x['name'] == want]
                    self._flatten(cname, sub, name + '.', fields, union_member, skip)
                else:
                    self._flatten(cname, pending_rec, name + '.', fields, union_member, skip)
            else:
                fields[name] = ctype(f)
            pending_rec = None

    def table(self, name, tr):
        """a file-scope `static const` integer array used by a translated function: emitted once
        as `def <name> : Array (BitVec w)` with the values of its initialiser"""
        if name in self.tables:
            return name
        for d in ast_docs(self.src, name, self.repo, self.extra):
            if d.get('kind') == 'VarDecl' and d.get('name') == name and d.get('inner'):
                t = ctype(d)
                q = d['type']['qualType']
                if t[0] != 'arr' or 'const' not in q:
                    tr.refuse(f'global {name} of type {q} is not a const integer array')
                init = [x for x in d['inner'] if x.get('kind') == 'InitListExpr']
                if not init or len(init[0].get('inner', [])) != t[3]:
                    tr.refuse(f'table {name}: initialiser does not list all {t[3]} elements')
                vals = []
                for x in init[0]['inner']:
                    v = tr.peek(x, {})
                    if v is None or v.t[0] != 'int' or v.r[0] != v.r[1]:
                        tr.refuse(f'table {name}: non-constant initialiser')
                    vals.append(v.r[0] % (1 << t[1]))
                lname = lean_id(name) if name not in ('K',) else name
                body = ', '.join(f'{v}#{t[1]}' for v in vals)
                self.parts.append(f'def {lname} : Array (BitVec {t[1]}) := #[{body}]\n')
                self.tables[name] = V(lname, t)
                return name
        tr.refuse('reference to ' + name + ' (not a parameter, local or const table)')

    def extern(self, name, params, ret, struct_mut=True):
        """a function that is called but not translated: it becomes a parameter `ext_<name>`.
        params: [(C name, role, C type)] with roles 'struct' | 'val'"""
        comps = (['ret'] if ret is not None else []) + (['struct'] if struct_mut else [])
        self.externs[name] = Sig(name, params, ret, comps, struct_mut=struct_mut, extern=True,
                                 writes_mem=True, loads_mem=True)

    def lean_fn_type(self, sig):
        """Lean type of the parameter that stands for an extern function"""
        dom = []
        for pname, role, pt in sig.params:
            if role == 'struct':
                dom.append(pt)
            elif role == 'val':
                dom.append(f'BitVec {pt[1]}')
            else:
                raise Refused(f'extern {sig.name}: role {role}')
        cod = []
        for c in sig.comps:
            if c == 'ret':
                cod.append('Bool' if sig.ret == 'bool' else f'BitVec {sig.ret[1]}')
            elif c == 'struct':
                cod.append([pt for _, role, pt in sig.params if role == 'struct'][0])
        return ' → '.join(dom + [' × '.join(cod) if cod else 'Unit'])

    # ---- one function
    def fn(self, cname, roles, stop_at=(), keep=(), flt=None, lean_name=None, _unrolled=False, assume=None,
           unroll=True, prune=False, outline=False):
        d = ast_of(self.src, cname, self.repo, self.extra, flt or self.flt or cname)
        name = lean_name or cname
        tr = Tr(name, roles, mod=self)
        tr.stop_at = tuple(stop_at)
        tr.no_unroll = not unroll
        tr.prune = prune
        tr.outline = outline
        tr.keep = tuple(keep)
        body = [c for c in d['inner'] if c['kind'] == 'CompoundStmt'][0]
        collect_labels(body, tr)
        rett = ret_ctype(d)
        has_loop = any(x.get('kind') in ('WhileStmt', 'ForStmt') for x in walk(body)) and not _unrolled
        pdecls = [c for c in d['inner'] if c['kind'] == 'ParmVarDecl']
        missing = set(roles) - {p['name'] for p in pdecls}
        if missing:
            tr.refuse('parameters %s not found (signature changed)' % sorted(missing))
        env = {}
        cparams, leanparams, regions, outs, arrouts = [], [], [], [], []
        for p in pdecls:
            pn = p['name']
            if pn not in roles:
                tr.refuse('parameter ' + pn + ' has no role (signature changed)')
            role = roles[pn]
            q = p['type'].get('desugaredQualType', p['type']['qualType'])
            if role == 'val':
                t = ctype(p)
                if t[0] != 'int':
                    tr.refuse('value parameter of type ' + str(t))
                rng = (assume or {}).get(pn)
                if rng is not None and not fits(rng, t):
                    tr.refuse(f'assumed range of {pn} outside its type')
                env[pn] = V(lean_id(pn), t, rng)
                leanparams.append(f'({lean_id(pn)} : BitVec {t[1]})')
                cparams.append((pn, 'val', t + ((rng,) if rng is not None else ())))
            elif role == 'struct':
                if tr.struct:
                    tr.refuse('more than one struct parameter')
                w = q.split()
                const = w[0] == 'const'
                if const:
                    w = w[1:]
                if len(w) != 3 or w[0] != 'struct' or w[2] != '*' or w[1] not in self.structs:
                    tr.refuse(f'struct parameter {pn} of type {q}')
                sd = self.structs[w[1]]
                tr.struct = (pn, sd, const)
                for f, ft in sd.fields.items():
                    if ft[0] not in ('ptr', 'rec'):
                        env[pn + '->' + f] = V(f'{lean_id(pn)}.{lean_id(f)}', ft)
                leanparams.append(f'({lean_id(pn)} : {sd.name})')
                cparams.append((pn, 'struct', sd.name))
            elif role == 'outval':
                if not q.endswith('*'):
                    tr.refuse(f'out parameter {pn} of type {q}')
                pointee = q[:-1].strip()
                if pointee.endswith('*'):
                    lt, pt = 'Nat', ('ptr',)
                else:
                    pq = pointee.replace('const ', '').strip()
                    pq2 = p['type']['qualType'][:-1].replace('const ', '').strip()
                    if pq in INT_TYPES:
                        pt = ('int',) + INT_TYPES[pq]
                    elif pq2 in INT_TYPES:
                        pt = ('int',) + INT_TYPES[pq2]
                    else:
                        tr.refuse(f'out parameter {pn} of type {q}')
                    lt = f'BitVec {pt[1]}'
                env['*' + pn] = V(f'(none : Option ({lt}))', ('opt', lt))
                outs.append(pn)
                cparams.append((pn, 'outval', pt))
            elif isinstance(role, tuple) and role[0] == 'ptr':
                if not q.endswith('*') or q[:-1].replace('const ', '').strip() not in \
                        ('char', 'unsigned char', 'uint8_t', 'signed char', 'void'):
                    tr.refuse(f'pointer parameter {pn} of type {q} is not a byte pointer')
                if role[1] in ('mem', 'bytes', 'out', 'opaque') or role[1] in LEAN_KEYWORDS - {'rd'}:
                    tr.refuse('region name ' + role[1])
                env[pn] = V(lean_id(pn), ('ptr', role[1]))
                leanparams.append(f'({lean_id(pn)} : Nat)')
                if role[1] not in regions:
                    regions.append(role[1])
                cparams.append((pn, role, ('ptr',)))
            elif isinstance(role, tuple) and role[0] == 'arr':
                # `uint64_t v[4]` / `uint32_t *v` with the caller's promise of `role[1]` elements
                if not q.endswith('*'):
                    tr.refuse(f'array parameter {pn} of type {q}')
                eq = q[:-1].strip()
                const = eq.startswith('const ')
                eq = eq.replace('const ', '').strip()
                eq2 = p['type']['qualType'][:-1].replace('const ', '').strip()
                et = INT_TYPES.get(eq) or INT_TYPES.get(eq2)
                if et is None or et[0] < 8:
                    tr.refuse(f'array parameter {pn} of type {q}')
                env[pn] = V(lean_id(pn), ('arr', et[0], et[1], int(role[1])))
                leanparams.append(f'({lean_id(pn)} : Array (BitVec {et[0]}))')
                cparams.append((pn, role, ('arr',) + et))
                if not const:
                    arrouts.append(pn)
            elif role == 'src':
                if not q.endswith('*'):
                    tr.refuse(f'source parameter {pn} of type {q}')
                env[pn] = V('0', ('ptr', 'opaque'))
                cparams.append((pn, 'src', ('ptr',)))
            else:
                tr.refuse(f'role {role} of parameter {pn}')
        # what the body touches (by syntax; decides the shape of the result before translating)
        uses_mem = False
        ext_used = []
        scan = []
        for st in body.get('inner', []):
            if tr.is_cut(st) and st.get('kind') not in ('CompoundStmt', 'IfStmt', 'WhileStmt', 'ForStmt',
                                                          'LabelStmt'):
                break
            scan.append(st)
        for x in (y for st in scan for y in walk(st)):
            if x.get('kind') == 'MemberExpr' and tr.struct and \
                    tr.struct[1].fields.get(x.get('name'), ('?',))[0] == 'ptr':
                uses_mem = True
            if x.get('kind') == 'CallExpr':
                cn = callee_name(x)
                if cn in self.sigs:
                    s2 = self.sigs[cn]
                    if 'mem' in s2.regions or s2.has_ev:
                        uses_mem = True
                    for e in s2.externs:
                        if e not in ext_used:
                            ext_used.append(e)
                elif cn in self.externs and cn not in tr.stop_at:
                    if cn not in ext_used:
                        ext_used.append(cn)
        if uses_mem:
            regions = ['mem'] + regions
            env['$ev'] = V('([] : List Ev)', ('ev',))
        struct_mut = bool(tr.struct) and not tr.struct[2]
        comps = (['ret'] if rett is not None else []) + (['struct'] if struct_mut else []) + \
                (['ev'] if uses_mem else []) + [('out', o) for o in outs] + [('arr', a) for a in arrouts]

        def comp_type(c):
            if c == 'ret':
                return 'Bool' if rett == 'bool' else 'Option Nat' if rett == ('ptr',) else f'BitVec {rett[1]}'
            if c == 'struct':
                return tr.struct[1].name
            if c == 'ev':
                return 'List Ev'
            if c[0] == 'arr':
                return f'Array (BitVec {env[c[1]].t[1]})'
            return env['*' + c[1]].t[1].join(['Option (', ')'])
        tys = [comp_type(c) for c in comps]
        rt = ' × '.join(tys) if tys else 'Unit'
        tr.has_loop = has_loop
        sigp = [f'({r} : Nat → BitVec 8)' for r in regions]
        siga = list(regions)
        for e in ext_used:
            sigp.append(f'(ext_{e} : {self.lean_fn_type(self.externs[e])})')
            siga.append('ext_' + e)
        if has_loop:
            sigp.append('(fuel : Nat)')
        tr.sigparams = ''.join(x + ' ' for x in sigp)
        tr.sigargs = ''.join(x + ' ' for x in siga)
        cut_types = {}
        ptr_regions = set()

        def tuple_of(parts):
            if not parts:
                return '()'
            return '(' + ', '.join(parts) + ')' if len(parts) > 1 else parts[0]

        def ret(env, val=None, reach=False):
            parts = []
            if reach:
                for kv in tr.keep:
                    if kv not in env or env[kv].t[0] != 'int':
                        tr.refuse('cut point: ' + kv + ' is not an integer variable in scope')
                    cut_types[kv] = f'BitVec {env[kv].t[1]}'
                    parts.append(env[kv].e)
            elif rett is not None:
                if val is None:
                    tr.refuse('control reaches the end of a non-void function')
                if rett == ('ptr',):
                    if val.t == ('nullptr',):
                        e = '(none : Option Nat)'
                    elif val.t[0] == 'ptr' and len(val.t) == 2 and val.t[1] not in ('out', 'opaque', 'bytes'):
                        ptr_regions.add(val.t[1])
                        if len(ptr_regions) > 1:
                            tr.refuse('returns pointers into different regions')
                        e = f'(some {tr.atom(val.e)})'
                    else:
                        tr.refuse('return of ' + str(val.t))
                elif rett == 'bool':
                    if val.t[0] == 'bool':
                        e = val.e
                    elif val.t[0] != 'int':
                        tr.refuse('return of ' + str(val.t))
                    elif val.b is not None:
                        e = val.b
                    else:
                        e = f'({val.e} != 0#{val.t[1]})'
                else:
                    if val.t[0] == 'bool':
                        val = tr.tobv(val)
                    if val.t[0] != 'int':
                        tr.refuse('return of ' + str(val.t))
                    cv = tr.conv(val, rett)
                    tr.ret_ranges.append(cv.r)
                    e = cv.e
                parts.append(e)
            for c in comps:
                if c == 'struct':
                    parts.append(tr.struct_val(env))
                elif c == 'ev':
                    parts.append(env['$ev'].e)
                elif c != 'ret' and c[0] == 'arr':
                    parts.append(env[c[1]].e)
                elif c != 'ret' and not reach:
                    parts.append(env['*' + c[1]].e)
            t = tuple_of(parts)
            if tr.stop_at:
                t = f'(Sum.{"inr" if reach else "inl"} {t})' if t.startswith('(') else \
                    f'(Sum.{"inr" if reach else "inl"} ({t}))'
            if has_loop:
                t = f'some {t}' if t.startswith('(') else f'some ({t})'
            return t
        # the result type must be known while translating loops; with a cut point the types of the
        # kept variables are those of their declarations
        if tr.stop_at:
            kts = []
            for kv in tr.keep:
                dv = [x for x in walk(body) if x.get('kind') == 'VarDecl' and x.get('name') == kv]
                pv = [p for p in pdecls if p['name'] == kv]
                if not (dv or pv):
                    tr.refuse('cut point: no variable ' + kv)
                kts.append(f'BitVec {ctype((dv or pv)[0])[1]}')
            reach_t = ' × '.join(kts + [comp_type(c) for c in comps if c in ('struct', 'ev')]) or 'Unit'
            rt = f'Sum ({rt}) ({reach_t})'
        if has_loop:
            rt = f'Option ({rt})'
        tr.ret_type = rt
        term = tr.stmts(body['inner'], env, ret)
        if has_loop and tr.nloops == 0:
            # every loop was unrolled: no fuel, no Option
            return self.fn(cname, roles, stop_at, keep, flt, lean_name, _unrolled=True, assume=assume,
                           unroll=unroll, prune=prune, outline=outline)
        if _unrolled and tr.nloops:
            tr.refuse('internal: loop left after unrolling')
        if set(tr.uses_ext) - set(ext_used):
            tr.refuse('internal: extern functions not found by the pre-scan')
        text = ''.join(x + '\n' for x in tr.loopdefs)
        text += f'def {name} {tr.sigparams}{" ".join(leanparams)} : {rt} :=\n{indent(term)}\n'
        rr = None
        if rett not in (None, 'bool', ('ptr',)) and tr.ret_ranges:
            rr = (min(r[0] for r in tr.ret_ranges), max(r[1] for r in tr.ret_ranges))
        txt_all = text
        self.sigs[cname] = Sig(name, cparams, rett, comps, ret_range=rr, struct_mut=struct_mut,
                               has_ev=uses_mem, regions=regions, externs=ext_used, fuel=has_loop,
                               cut=bool(tr.stop_at),
                               writes_mem=('Ev.store' in txt_all or 'Ev.mem' in txt_all or bool(ext_used)
                                           or any(self.sigs[callee_name(x)].writes_mem for x in walk(body)
                                                  if x.get('kind') == 'CallExpr' and callee_name(x) in self.sigs)),
                               loads_mem=('Ev.load' in txt_all or bool(ext_used)
                                          or any(self.sigs[callee_name(x)].loads_mem for x in walk(body)
                                                 if x.get('kind') == 'CallExpr' and callee_name(x) in self.sigs)))
        self.parts.append(text)
        return text

    def text(self, namespace, header):
        out = '/- ' + header.strip() + ' -/\nset_option linter.unusedVariables false\n'
        if max((p.count('\n  let ') for p in self.parts), default=0) > 300:
            out += 'set_option maxRecDepth 100000\n'     # straight-line code of many hundred statements
        out += f'namespace {namespace}\n\n'
        if self.need_ev:
            out += EV_PRELUDE + '\n'
        out += '\n'.join(p.rstrip() + '\n' for p in self.parts)
        out += f'\nend {namespace}\n'
        return out


# ---------------------------------------------------------------------------- utf8.c (C11)
UTF8_FUNCS = [
    ('utf8_validate_seq', {'src': 'in', 'srcend': 'end'}, 32),
    ('utf8_seq_size', {'b': 'val'}, 32),
    ('utf8_char_size', {'c': 'val'}, 32),
    ('utf8_get_char', {'src_p': 'inout', '_srcend': 'end'}, 32),
    ('utf8_put_char', {'c': 'val', 'dst_p': 'outp', 'dstend': 'outend'}, 'bool'),
]


def utf8_module(repo=None):
    """text of lean/Usual/Gen/C11.lean for the utf8.c of `repo` (raises Refused)"""
    repo = repo or _default_repo()
    src = os.path.join(repo, 'usual', 'utf8.c')
    out = ('/- GENERATED by extract/c2lean.py from usual/utf8.c on every run of checks/C11.py;\n'
           '   do not edit.  C integers are BitVec terms with the casts clang made explicit; byte\n'
           '   pointers are offsets into `rd`, `avail` = bytes before the end pointer, `room` =\n'
           '   bytes before the destination end pointer. -/\n'
           'set_option linter.unusedVariables false\n'
           'namespace Usual.Gen.C11\n\n')
    for fn, roles, rt in UTF8_FUNCS:
        out += translate(src, fn, roles, rt, repo=repo, flt='utf8_') + '\n'
    out += 'end Usual.Gen.C11\n'
    return out


# ------------------------------------------------------------------ <Cxx>T modules (DESIGN 10.22)
GEN_NOTE = ('GENERATED by extract/c2lean.py from %s on every run of checks/%s.py; do not edit.\n'
            '   C integers are BitVec terms with the casts clang made explicit; see the head of\n'
            '   extract/c2lean.py and DESIGN.md 10.22 for the subset and its trusted semantics.')
U32 = ('int', 32, False)


def _stub(workdir, name, text):
    os.makedirs(workdir, exist_ok=True)
    p = os.path.join(workdir, name)
    if not os.path.exists(p) or open(p).read() != text:
        with open(p, 'w') as f:
            f.write(text)
    return p


def c12t_module(repo=None, workdir='/tmp'):
    """usual/mbuf.h inlines + the bounds/growth prefix of mbuf_make_room (usual/mbuf.c)"""
    repo = repo or _default_repo()
    stub = _stub(workdir, 'c12t_stub.c', '#include <usual/mbuf.h>\n#include "usual/mbuf.c"\n')
    m = Module(stub, repo, flt='mbuf_')
    m.struct('MBuf')
    m.extern('mbuf_make_room', [('buf', 'struct', 'MBuf'), ('len', 'val', U32)], 'bool')
    S = {'buf': 'struct'}
    for f in ('mbuf_avail_for_read', 'mbuf_avail_for_write', 'mbuf_rewind_reader', 'mbuf_rewind_writer'):
        m.fn(f, S)
    for f in ('mbuf_get_byte', 'mbuf_get_char', 'mbuf_get_uint16be', 'mbuf_get_uint32be', 'mbuf_get_uint64be'):
        m.fn(f, {'buf': 'struct', 'dst_p': 'outval'})
    for f in ('mbuf_get_bytes', 'mbuf_get_chars'):
        m.fn(f, {'buf': 'struct', 'len': 'val', 'dst_p': 'outval'})
    m.fn('mbuf_write_byte', {'buf': 'struct', 'val': 'val'})
    m.fn('mbuf_write', {'buf': 'struct', 'ptr': 'src', 'len': 'val'})
    m.fn('mbuf_fill', {'buf': 'struct', 'byte': 'val', 'len': 'val'})
    m.fn('mbuf_cut', {'buf': 'struct', 'ofs': 'val', 'len': 'val'})
    m.fn('mbuf_make_room', {'buf': 'struct', 'len': 'val'}, stop_at=('realloc',), keep=('new_alloc',),
         lean_name='mbuf_make_room_pre')
    return m.text('Usual.Gen.C12T', GEN_NOTE % ('usual/mbuf.h, usual/mbuf.c', 'C12'))


SAFE_MUL = ('safe_mul_uint', 'safe_mul_ulong', 'safe_mul_uint8', 'safe_mul_uint32', 'safe_mul_uint64',
            'safe_mul_size')


def c09t_module(repo=None, workdir='/tmp'):
    """usual/bits.h: the instantiations of _USUAL_MUL_SAFE_.  safe_mul_uint16 is not in the list:
    its `a * b` is computed in `int` after promotion and excluding signed overflow on the
    `max / a >= b` path needs relational reasoning the translator does not do (it refuses)."""
    repo = repo or _default_repo()
    stub = _stub(workdir, 'c09t_stub.c', '#include <usual/bits.h>\n')
    m = Module(stub, repo, flt='safe_mul_')
    for f in SAFE_MUL:
        m.fn(f, {'res_p': 'outval', 'a': 'val', 'b': 'val'})
    return m.text('Usual.Gen.C09T', GEN_NOTE % ('usual/bits.h', 'C09'))


def c06t_module(repo=None, workdir='/tmp'):
    """usual/cbtree.c: get_bit, find_crit_bit (two loops over two byte strings) and the fls() of
    usual/bits.h they use (the __builtin_clz variant that the #if selects for gcc / clang)"""
    repo = repo or _default_repo()
    stub = _stub(workdir, 'c06t_stub.c', '#include "usual/cbtree.c"\n')
    m = Module(stub, repo)
    m.fn('usual_fls', {'x': 'val'})
    m.fn('get_bit', {'bitpos': 'val', 'key': ('ptr', 'rk'), 'klen': 'val'})
    m.fn('find_crit_bit', {'a': ('ptr', 'ra'), 'alen': 'val', 'b': ('ptr', 'rb'), 'blen': 'val'})
    return m.text('Usual.Gen.C06T', GEN_NOTE % ('usual/cbtree.c, usual/bits.h', 'C06'))


def c11t_module(repo=None, workdir='/tmp'):
    """usual/utf8.c: utf8_validate_string (the loop) around utf8_validate_seq; here pointers are
    offsets into one region `rs` (in lean/Usual/Gen/C11.lean the source pointer is the constant 0)"""
    repo = repo or _default_repo()
    m = Module(os.path.join(repo, 'usual', 'utf8.c'), repo, flt='utf8_')
    m.fn('utf8_validate_seq', {'src': ('ptr', 'rs'), 'srcend': ('ptr', 'rs')})
    m.fn('utf8_validate_string', {'src': ('ptr', 'rs'), 'end': ('ptr', 'rs')})
    return m.text('Usual.Gen.C11T', GEN_NOTE % ('usual/utf8.c', 'C11'))


def c02t_module(repo=None, workdir='/tmp'):
    """usual/json.c: parse_hex (its constant-bound `for` loop is unrolled: every test is decided
    by the value ranges)"""
    repo = repo or _default_repo()
    stub = _stub(workdir, 'c02t_stub.c', '#include "usual/json.c"\n')
    m = Module(stub, repo, flt='parse_hex')
    m.fn('parse_hex', {'s': ('ptr', 'rs'), 'end': ('ptr', 'rs')})
    return m.text('Usual.Gen.C02T', GEN_NOTE % ('usual/json.c', 'C02'))


def c14t_module(repo=None, workdir='/tmp'):
    """usual/string.c: the compat memrchr (compiled in the forced-compat configuration that
    checks/c14_cfg.py derives from the tree: HAVE_MEMRCHR commented out of config.h)"""
    repo = repo or _default_repo()
    sys.path.insert(0, os.path.join(os.path.dirname(os.path.dirname(os.path.abspath(__file__))), 'checks'))
    import c14_cfg
    cfgdir = c14_cfg.derive(repo, workdir)[0]
    m = Module(os.path.join(repo, 'usual', 'string.c'), repo, flt='memrchr', extra=('-I' + cfgdir,))
    m.fn('usual_memrchr', {'s': ('ptr', 'rp'), 'c': 'val', 'n': 'val'})
    return m.text('Usual.Gen.C14T', GEN_NOTE % ('usual/string.c (forced-compat config)', 'C14'))


def c05t_module(repo=None, workdir='/tmp'):
    """usual/crypto/chacha.c: chacha_mix (4 + 9*8 + 4 quarter rounds, output words, 64-bit block
    counter) and the rol32 of usual/bits.h it calls (translated for rotation counts 1..31; every
    call site is checked to stay inside that range).  The double-round loop stays a loop."""
    repo = repo or _default_repo()
    stub = _stub(workdir, 'c05t_stub.c', '#include "usual/crypto/chacha.c"\n')
    m = Module(stub, repo, flt='chacha_mix')
    m.struct('ChaCha', union_member={'u': 'output32'})
    m.fn('rol32', {'v': 'val', 's': 'val'}, assume={'s': (1, 31)}, flt='rol32')
    m.fn('chacha_mix', {'ctx': 'struct'}, unroll=False)
    return m.text('Usual.Gen.C05T', GEN_NOTE % ('usual/crypto/chacha.c, usual/bits.h', 'C05'))


C16_STUB = """#include "usual/hashing/siphash.c"
#include "usual/hashing/lookup3.c"
#include "usual/hashing/crc32.c"
#include "usual/hashing/spooky.c"
/* wrappers that instantiate the round / mix macros of siphash.c and lookup3.c on word arrays;
   this glue is part of the trusted reading (DESIGN.md 10.22): the macro text is the repository's */
void t_sip_round(uint64_t v[4])
{ uint64_t v0 = v[0], v1 = v[1], v2 = v[2], v3 = v[3]; SIP_ROUND1; v[0] = v0; v[1] = v1; v[2] = v2; v[3] = v3; }
void t_sip_compress(uint64_t v[4], uint64_t m)
{ uint64_t v0 = v[0], v1 = v[1], v2 = v[2], v3 = v[3]; sip_compress(2); v[0] = v0; v[1] = v1; v[2] = v2; v[3] = v3; }
uint64_t t_sip_finalize(const uint64_t v[4])
{ uint64_t v0 = v[0], v1 = v[1], v2 = v[2], v3 = v[3]; sip_finalize(4); return (v0 ^ v1 ^ v2 ^ v3); }
void t_l3_mix(uint32_t s[3])
{ uint32_t a = s[0], b = s[1], c = s[2]; mix(a, b, c); s[0] = a; s[1] = b; s[2] = c; }
void t_l3_final(uint32_t s[3])
{ uint32_t a = s[0], b = s[1], c = s[2]; final(a, b, c); s[0] = a; s[1] = b; s[2] = c; }
#define T_LOAD4 uint64_t h0 = h[0], h1 = h[1], h2 = h[2], h3 = h[3]
#define T_STORE4 h[0] = h0; h[1] = h1; h[2] = h2; h[3] = h3
#define T_LOAD12 uint64_t h0 = h[0], h1 = h[1], h2 = h[2], h3 = h[3], h4 = h[4], h5 = h[5], \\
	h6 = h[6], h7 = h[7], h8 = h[8], h9 = h[9], h10 = h[10], h11 = h[11]
#define T_STORE12 h[0] = h0; h[1] = h1; h[2] = h2; h[3] = h3; h[4] = h4; h[5] = h5; \\
	h[6] = h6; h[7] = h7; h[8] = h8; h[9] = h9; h[10] = h10; h[11] = h11
void t_sp_short_mix(uint64_t h[4]) { T_LOAD4; ShortMix(h0, h1, h2, h3); T_STORE4; }
void t_sp_short_end(uint64_t h[4]) { T_LOAD4; ShortEnd(h0, h1, h2, h3); T_STORE4; }
void t_sp_mix(const uint64_t data[12], uint64_t h[12]) { T_LOAD12; Mix(data, h0, h1, h2, h3, h4, h5, h6, h7, h8, h9, h10, h11); T_STORE12; }
void t_sp_end_partial(uint64_t h[12]) { T_LOAD12; EndPartial(h0, h1, h2, h3, h4, h5, h6, h7, h8, h9, h10, h11); T_STORE12; }
void t_sp_end(const uint64_t data[12], uint64_t h[12]) { T_LOAD12; End(data, h0, h1, h2, h3, h4, h5, h6, h7, h8, h9, h10, h11); T_STORE12; }
"""


def c16t_module(repo=None, workdir='/tmp'):
    """usual/hashing: SIP_ROUND1 / sip_compress(2) / sip_finalize(4) of siphash.c and mix / final of
    lookup3.c (macros, instantiated by the wrappers of C16_STUB), crc32() + its table and the
    calc_crc32 loop of crc32.c, rol64 of usual/bits.h (rotation counts 1..63)"""
    repo = repo or _default_repo()
    stub = _stub(workdir, 'c16t_stub.c', C16_STUB)
    m = Module(stub, repo, flt='t_')
    m.fn('rol64', {'v': 'val', 's': 'val'}, assume={'s': (1, 63)}, flt='rol64')
    m.fn('t_sip_round', {'v': ('arr', 4)})
    m.fn('t_sip_compress', {'v': ('arr', 4), 'm': 'val'})
    m.fn('t_sip_finalize', {'v': ('arr', 4)})
    m.fn('t_l3_mix', {'s': ('arr', 3)})
    m.fn('t_l3_final', {'s': ('arr', 3)})
    m.fn('t_sp_short_mix', {'h': ('arr', 4)})
    m.fn('t_sp_short_end', {'h': ('arr', 4)})
    m.fn('t_sp_mix', {'data': ('arr', 12), 'h': ('arr', 12)})
    m.fn('t_sp_end_partial', {'h': ('arr', 12)})
    m.fn('t_sp_end', {'data': ('arr', 12), 'h': ('arr', 12)})
    m.fn('usual_le64dec', {'p': ('ptr', 'rp')}, flt='usual_le64dec')
    m.fn('siphash24', {'data': ('ptr', 'rp'), 'len': 'val', 'k0': 'val', 'k1': 'val'}, flt='siphash24')
    m.fn('crc32', {'prev': 'val', 'c': 'val'}, flt='crc32')
    m.fn('calc_crc32', {'data': ('ptr', 'rp'), 'len': 'val', 'init': 'val'}, flt='calc_crc32')
    return m.text('Usual.Gen.C16T', GEN_NOTE % ('usual/hashing/{siphash,lookup3,spooky,crc32}.c, usual/bits.h', 'C16'))


def c05tsha_module(repo=None, workdir='/tmp'):
    """usual/crypto/sha256.c: sha256_core, the compression function on the `words` view of the
    block buffer (64 rounds: the first 16 written out by the R16 macro, the `while (k_pos < 64)`
    loop unrolled because every test is decided; `if (t >= 16)` pruned the same way), with K[64]
    from its initialiser, ror32 / rol32 of usual/bits.h and bswap32 of usual/endian.h"""
    repo = repo or _default_repo()
    stub = _stub(workdir, 'c05tsha_stub.c', '#include "usual/crypto/sha256.c"\n')
    m = Module(stub, repo, flt='sha256_core')
    m.struct('sha256_ctx', union_member={'buf': 'words'})
    m.fn('rol32', {'v': 'val', 's': 'val'}, assume={'s': (1, 31)}, flt='rol32')
    m.fn('ror32', {'v': 'val', 's': 'val'}, assume={'s': (1, 31)}, flt='ror32')
    m.fn('usual_bswap32', {'x': 'val'}, flt='usual_bswap32')
    m.fn('sha256_core', {'ctx': 'struct'}, prune=True)
    return m.text('Usual.Gen.C05TSha', GEN_NOTE % ('usual/crypto/sha256.c, usual/bits.h, usual/endian.h', 'C05'))


def c05tsha512_module(repo=None, workdir='/tmp'):
    """usual/crypto/sha512.c: sha512_core (80 rounds, same shape as sha256_core) with K[80],
    ror64 / rol64 of usual/bits.h and bswap64 of usual/endian.h"""
    repo = repo or _default_repo()
    stub = _stub(workdir, 'c05tsha512_stub.c', '#include "usual/crypto/sha512.c"\n')
    m = Module(stub, repo, flt='sha512_core')
    m.struct('sha512_ctx', union_member={'buf': 'words'})
    m.fn('rol64', {'v': 'val', 's': 'val'}, assume={'s': (1, 63)}, flt='rol64')
    m.fn('ror64', {'v': 'val', 's': 'val'}, assume={'s': (1, 63)}, flt='ror64')
    m.fn('usual_bswap64', {'x': 'val'}, flt='usual_bswap64')
    m.fn('sha512_core', {'ctx': 'struct'}, prune=True)
    return m.text('Usual.Gen.C05TSha512', GEN_NOTE % ('usual/crypto/sha512.c, usual/bits.h, usual/endian.h', 'C05'))


C05TSHA_PARTA_HEAD = "import Usual.Gen.C05TSha\n/-!\n# C05 translation tie, SHA-256 (part A): the 64 unrolled rounds of `sha256_core`, folded\n\n`Usual.Gen.C05TSha.sha256_core` (regenerated from usual/crypto/sha256.c on every run) is a chain\nof 977 `let`s.  This file states what one `SHA256_ROUND` block does (`Rlo` for `t < 16`, `Rhi` on the\n16-word circular buffer for `t ≥ 16`, common tail `stepG`) and proves, block by block\n(`extract_lets` … `rfl` … `clear_value`; the script is produced mechanically from the names in the\ngenerated file), that the whole function is `finishG ctx (roundG 63 (… (roundG 0 (startG ctx))))`.\nNo axioms beyond the kernel's.  Part B (`Bridge/C05TSha.lean`) identifies that with the model.\n-/\nset_option maxRecDepth 100000\nnamespace UsualProofs.Bridge.C05TSha\nopen Usual.Gen.C05TSha\n\nabbrev W := BitVec 32\n\n/-- the working variables `a … h` and the 16-word circular message buffer `W(n)` -/\nstructure S where\n  a : W\n  b : W\n  c : W\n  d : W\n  e : W\n  f : W\n  g : W\n  h : W\n  w : Array W\n\n/-- the part of `SHA256_ROUND` after `W(t)` has been set: `tmp1`, `tmp2`, rotation of `a … h` -/\ndef stepG (k wt : W) (s : S) (w' : Array W) : S :=\n  let tmp1 := ((((s.h + (((ror32 s.e (6#32)) ^^^ (ror32 s.e (11#32))) ^^^ (ror32 s.e (25#32)))) + ((s.e &&& s.f) ^^^ ((~~~s.e) &&& s.g))) + k) + wt)\n  let tmp2 := ((((ror32 s.a (2#32)) ^^^ (ror32 s.a (13#32))) ^^^ (ror32 s.a (22#32))) + (((s.a &&& s.b) ^^^ (s.a &&& s.c)) ^^^ (s.b &&& s.c)))\n  { a := tmp1 + tmp2, b := s.a, c := s.b, d := s.c, e := s.d + tmp1, f := s.e, g := s.f, h := s.g, w := w' }\n\n/-- round `t < 16`: `W(t) = be32toh(W(t))` first -/\ndef Rlo (j : Nat) (s : S) : S :=\n  let w' := s.w.setIfInBounds j (usual_bswap32 (s.w.getD j 0#32))\n  stepG (K.getD j 0#32) (w'.getD j 0#32) s w'\n\n/-- round `t ≥ 16` on the circular buffer: `j = t & 15`, `k` = index into `K` -/\ndef Rhi (j k : Nat) (s : S) : S :=\n  let x2 := s.w.getD ((j + 14) % 16) 0#32\n  let x15 := s.w.getD ((j + 1) % 16) 0#32\n  let w' := s.w.setIfInBounds j ((((((ror32 x2 (17#32)) ^^^ (ror32 x2 (19#32))) ^^^ (x2 >>> ((10#32)).toNat)) + (s.w.getD ((j + 9) % 16) 0#32)) + (((ror32 x15 (7#32)) ^^^ (ror32 x15 (18#32))) ^^^ (x15 >>> ((3#32)).toNat))) + (s.w.getD j 0#32))\n  stepG (K.getD k 0#32) (w'.getD j 0#32) s w'\n\ndef roundG (t : Nat) (s : S) : S := if t < 16 then Rlo t s else Rhi (t % 16) t s\n\ndef finishG (ctx : sha256_ctx) (s : S) : sha256_ctx :=\n  let st0 := ctx.state\n  let st1 := st0.setIfInBounds 0 ((st0.getD 0 0#32) + s.a)\n  let st2 := st1.setIfInBounds 1 ((st1.getD 1 0#32) + s.b)\n  let st3 := st2.setIfInBounds 2 ((st2.getD 2 0#32) + s.c)\n  let st4 := st3.setIfInBounds 3 ((st3.getD 3 0#32) + s.d)\n  let st5 := st4.setIfInBounds 4 ((st4.getD 4 0#32) + s.e)\n  let st6 := st5.setIfInBounds 5 ((st5.getD 5 0#32) + s.f)\n  let st7 := st6.setIfInBounds 6 ((st6.getD 6 0#32) + s.g)\n  let st8 := st7.setIfInBounds 7 ((st7.getD 7 0#32) + s.h)\n  { buf_words := s.w, state := st8, nbytes := ctx.nbytes }\n\ndef startG (ctx : sha256_ctx) : S :=\n  { a := ctx.state.getD 0 0#32, b := ctx.state.getD 1 0#32, c := ctx.state.getD 2 0#32, d := ctx.state.getD 3 0#32,\n    e := ctx.state.getD 4 0#32, f := ctx.state.getD 5 0#32, g := ctx.state.getD 6 0#32, h := ctx.state.getD 7 0#32,\n    w := ctx.buf_words }\n\n/-- the 64 unrolled rounds of the generated `sha256_core`, folded: what clang reads is\n`finishG ctx (roundG 63 (… (roundG 0 (startG ctx))))` -/\ntheorem core_eq_rounds (ctx : sha256_ctx) :\n    sha256_core ctx = finishG ctx ((List.range 64).foldl (fun s t => roundG t s) (startG ctx)) := by\n  unfold sha256_core\n"


def _sha512_text(t):
    """the SHA-256 bridge text with the constants of SHA-512 (FIPS 180-4 6.4: 64-bit words, 80 rounds)"""
    for a, b in (('ror32 s.e (6#32)) ^^^ (ror32 s.e (11#32))) ^^^ (ror32 s.e (25#32))',
                  'ror64 s.e (14#32)) ^^^ (ror64 s.e (18#32))) ^^^ (ror64 s.e (41#32))'),
                 ('ror32 s.a (2#32)) ^^^ (ror32 s.a (13#32))) ^^^ (ror32 s.a (22#32))',
                  'ror64 s.a (28#32)) ^^^ (ror64 s.a (34#32))) ^^^ (ror64 s.a (39#32))'),
                 ('(ror32 x2 (17#32)) ^^^ (ror32 x2 (19#32))) ^^^ (x2 >>> ((10#32)).toNat)',
                  '(ror64 x2 (19#32)) ^^^ (ror64 x2 (61#32))) ^^^ (x2 >>> ((6#32)).toNat)'),
                 ('(ror32 x15 (7#32)) ^^^ (ror32 x15 (18#32))) ^^^ (x15 >>> ((3#32)).toNat)',
                  '(ror64 x15 (1#32)) ^^^ (ror64 x15 (8#32))) ^^^ (x15 >>> ((7#32)).toNat)'),
                 (' 0#32', ' 0#64'), ('BitVec 32', 'BitVec 64'), ('usual_bswap32', 'usual_bswap64'),
                 ('C05TSha', 'C05TSha512'), ('sha256', 'sha512'), ('SHA-256', 'SHA-512'), ('SHA256', 'SHA512'),
                 ('List.range 64', 'List.range 80'), ('roundG 63', 'roundG 79'), ('977 `let`s', '1217 `let`s'),
                 ('/-- the 64 unrolled rounds', 'set_option maxHeartbeats 2000000 in\n/-- the 80 unrolled rounds')):
        t = t.replace(a, b)
    return t


def c05tsha_partA(gen_text, variant='256'):
    """text of lean/UsualProofs/Bridge/C05TShaA.lean (variant '512': C05TSha512A.lean): the
    block-by-block folding script (`extract_lets` / `rfl` / `clear_value`) for the `let` names of the
    generated sha256_core / sha512_core.  Re-run after a change of the translator that renames the
    generated variables:
      python3 -c "import c2lean; print(c2lean.c05tsha_partA(open('lean/Usual/Gen/C05TSha.lean').read()))" """
    nr = 64 if variant == '256' else 80
    fname = 'sha%s_core' % variant
    body = gen_text[gen_text.index('def ' + fname):]
    lets = re.findall(r'^  let (\w+) := ', body, re.M)
    if len(lets) != 9 + nr * 15 + 8:
        raise Refused('%s: unexpected number of statements (%d)' % (fname, len(lets)))
    head, tail = lets[:9], lets[9 + nr * 15:]
    rounds = [lets[9 + 15 * i:9 + 15 * (i + 1)] for i in range(nr)]

    def pick(names, base):
        return [n for n in names if re.match(base + r'_\d+$', n)][-1]

    def smk(c):
        return '(S.mk %s)' % ' '.join(c[k] for k in 'abcdefghw')
    ex = '  extract_lets -merge +onlyGivenNames '
    cur = dict(zip('abcdefgh', head[:8]))
    cur['w'] = 'ctx.buf_words'
    out = (C05TSHA_PARTA_HEAD if variant == '256' else _sha512_text(C05TSHA_PARTA_HEAD)) + ex + ' '.join(head) + '\n'
    out += '  have h_s : %s = startG ctx := rfl\n' % smk(cur)
    hyps = []
    for i, names in enumerate(rounds):
        new = {k: pick(names, k) for k in 'abcdefgh'}
        new['w'] = pick(names, 'ctx_buf_words')
        out += ex + ' '.join(names) + '\n'
        out += '  have h%d : %s = roundG %d %s := rfl\n' % (i, smk(new), i, smk(cur))
        out += '  clear_value ' + ' '.join(reversed(names)) + '\n'
        cur = new
        hyps.append('h%d' % i)
    out += ex + ' '.join(tail) + '\n'
    out += ('  have hfin : ({ buf_words := %s, state := %s, nbytes := ctx.nbytes } : sha%s_ctx) = finishG ctx %s := rfl\n'
            % (cur['w'], tail[-1], variant, smk(cur)))
    out += '  rw [hfin]\n  clear hfin\n  simp only [List.range, List.range.loop, List.foldl]\n'
    out += '  rw [' + ', '.join(reversed(hyps)) + ', h_s]\n\nend UsualProofs.Bridge.C05TSha%s\n' % ('' if variant == '256' else '512')
    return out


def c05tsha1_module(repo=None, workdir='/tmp'):
    """usual/crypto/sha1.c: sha1_core(ctx, buf) — 80 macro-expanded rounds on the 16-word circular
    buffer `buf` (an array parameter; the `buf` field of the context is not part of the struct view:
    the function reaches it only through the parameter), rol32 of usual/bits.h, bswap32 of endian.h.
    `outline=True`: every `SHA1OP` block and every assignment statement is a function of its own
    over the tuple of all variables in scope (sha1_core_blk1 … blk90), sha1_core is their chain."""
    repo = repo or _default_repo()
    stub = _stub(workdir, 'c05tsha1_stub.c', '#include "usual/crypto/sha1.c"\n')
    m = Module(stub, repo, flt='sha1_core')
    m.struct('sha1_ctx', skip=('buf',))
    m.fn('rol32', {'v': 'val', 's': 'val'}, assume={'s': (1, 31)}, flt='rol32')
    m.fn('usual_bswap32', {'x': 'val'}, flt='usual_bswap32')
    m.fn('sha1_core', {'ctx': 'struct', 'buf': ('arr', 16)}, prune=True, outline=True)
    return m.text('Usual.Gen.C05TSha1', GEN_NOTE % ('usual/crypto/sha1.c, usual/bits.h, usual/endian.h', 'C05'))


C05TSHA1_PARTA_HEAD = """import Usual.Gen.C05TSha1
/-!
# C05 translation tie, SHA-1 (part A): the 80 macro-expanded rounds of `sha1_core`, folded

`Usual.Gen.C05TSha1` (regenerated from usual/crypto/sha1.c on every run) has one function per
statement of `sha1_core` over the tuple `T` of all variables in scope (`sha1_core_blk1 … blk90`:
five loads `a = ctx->a …`, eighty `SHA1OP` blocks, five `ctx->a += a …`), and `sha1_core` as their
chain.  This file states what one `SHA1OP` block does (`Rlo` for `t < 16`, `Rhi` on the 16-word
circular buffer for `t ≥ 16`; mix function and constant chosen by `t / 20`), proves each block equal
to it (`blk_round_i`, by `rfl`; the list is produced mechanically from the generated names) and
folds the chain: `sha1_core ctx buf = finishG ctx (roundG 79 (… (roundG 0 (startG ctx buf))))`.
No axioms beyond the kernel's.  Part B (`Bridge/C05TSha1.lean`) identifies that with the model.
-/
set_option maxRecDepth 100000
namespace UsualProofs.Bridge.C05TSha1
open Usual.Gen.C05TSha1

abbrev W := BitVec 32

/-- the working variables `a … e` and the 16-word circular message buffer `W(n)` -/
structure S where
  a : W
  b : W
  c : W
  d : W
  e : W
  w : Array W

/-- `F0 … F3`, selected by `t / 20` -/
def fG (q : Nat) (b c d : W) : W :=
  match q with
  | 0 => (d ^^^ (b &&& (c ^^^ d)))
  | 1 => ((b ^^^ c) ^^^ d)
  | 2 => (((b &&& c) ||| (b &&& d)) ||| (c &&& d))
  | _ => ((b ^^^ c) ^^^ d)

/-- the round constants of `SHA1R0 … SHA1R3` -/
def kG (q : Nat) : W :=
  match q with
  | 0 => 1518500249#32
  | 1 => 1859775393#32
  | 2 => 2400959708#32
  | _ => 3395469782#32

/-- the part of `SHA1OP` after `W(t)` has been set -/
def stepG (q : Nat) (wt : W) (s : S) (w' : Array W) : S :=
  let tmp := (((((rol32 s.a (5#32)) + (fG q s.b s.c s.d)) + s.e) + wt) + (kG q))
  { a := tmp, b := s.a, c := (rol32 s.b (30#32)), d := s.c, e := s.d, w := w' }

/-- round `t < 16`: `W(t) = be32toh(W(t))` first -/
def Rlo (j : Nat) (s : S) : S :=
  let w' := s.w.setIfInBounds j (usual_bswap32 (s.w.getD j 0#32))
  stepG 0 (w'.getD j 0#32) s w'

/-- round `t ≥ 16` on the circular buffer: `j = t & 15`, `q = t / 20` -/
def Rhi (j q : Nat) (s : S) : S :=
  let tmp := ((((s.w.getD ((j + 13) % 16) 0#32) ^^^ (s.w.getD ((j + 8) % 16) 0#32)) ^^^ (s.w.getD ((j + 2) % 16) 0#32)) ^^^ (s.w.getD j 0#32))
  let w' := s.w.setIfInBounds j (rol32 tmp (1#32))
  stepG q (w'.getD j 0#32) s w'

def roundG (t : Nat) (s : S) : S := if t < 16 then Rlo t s else Rhi (t % 16) (t / 20) s

/-- all variables in scope inside `sha1_core`: `ctx->nbytes, ctx->a … ctx->e, buf, a … e` -/
abbrev T := BitVec 64 × W × W × W × W × W × Array W × W × W × W × W × W

def unpackT (σ : T) : S :=
  { a := σ.2.2.2.2.2.2.2.1, b := σ.2.2.2.2.2.2.2.2.1, c := σ.2.2.2.2.2.2.2.2.2.1, d := σ.2.2.2.2.2.2.2.2.2.2.1,
    e := σ.2.2.2.2.2.2.2.2.2.2.2, w := σ.2.2.2.2.2.2.1 }

def packT (σ : T) (s : S) : T :=
  (σ.1, σ.2.1, σ.2.2.1, σ.2.2.2.1, σ.2.2.2.2.1, σ.2.2.2.2.2.1, s.w, s.a, s.b, s.c, s.d, s.e)

theorem unpack_pack (σ : T) (s : S) : unpackT (packT σ s) = s := rfl
theorem pack_pack (σ : T) (s s' : S) : packT (packT σ s) s' = packT σ s' := rfl

def finishG (ctx : sha1_ctx) (s : S) : sha1_ctx × Array W :=
  (({ nbytes := ctx.nbytes, a := (ctx.a + s.a), b := (ctx.b + s.b), c := (ctx.c + s.c), d := (ctx.d + s.d),
      e := (ctx.e + s.e) } : sha1_ctx), s.w)

def startG (ctx : sha1_ctx) (buf : Array W) : S :=
  { a := ctx.a, b := ctx.b, c := ctx.c, d := ctx.d, e := ctx.e, w := buf }

/-- the chain of rounds on the tuple = the chain on `S` -/
theorem run_pack (σ : T) : ∀ (l : List Nat) (s : S),
    l.foldl (fun σ i => packT σ (roundG i (unpackT σ))) (packT σ s) = packT σ (l.foldl (fun s i => roundG i s) s) := by
  intro l
  induction l with
  | nil => intro s; rfl
  | cons i l ih => intro s; simp only [List.foldl_cons, unpack_pack, pack_pack, ih]

"""


def c05tsha1_partA(gen_text):
    """text of lean/UsualProofs/Bridge/C05TSha1A.lean for the outlined sha1_core"""
    nblk = len(re.findall(r'^def sha1_core_blk\d+ ', gen_text, re.M))
    if nblk != 90:
        raise Refused('sha1_core: %d blocks instead of 5 + 80 + 5' % nblk)
    main = gen_text[gen_text.index('def sha1_core (ctx'):]
    svars = re.findall(r'^  let (s_\d+) := sha1_core_blk(\d+) ', main, re.M)
    if [int(b) for _, b in svars] != list(range(1, 91)):
        raise Refused('sha1_core: the blocks are not chained in order')
    out = C05TSHA1_PARTA_HEAD
    for i in range(80):
        # a wrong block must fail quickly (a failing `rfl` otherwise burns the default budget 80 times)
        out += ('set_option maxHeartbeats 20000 in\n'
                'theorem blk_round_%d (σ : T) : sha1_core_blk%d σ = packT σ (roundG %d (unpackT σ)) := rfl\n'
                % (i, i + 6, i))
    out += """
/-- the five loads `a = ctx->a; … e = ctx->e;` -/
theorem blk_load (ctx : sha1_ctx) (buf : Array W) (z1 z2 z3 z4 z5 : W) :
    sha1_core_blk5 (sha1_core_blk4 (sha1_core_blk3 (sha1_core_blk2 (sha1_core_blk1
      (ctx.nbytes, ctx.a, ctx.b, ctx.c, ctx.d, ctx.e, buf, z1, z2, z3, z4, z5))))) =
    packT (ctx.nbytes, ctx.a, ctx.b, ctx.c, ctx.d, ctx.e, buf, z1, z2, z3, z4, z5) (startG ctx buf) := rfl

/-- the five stores `ctx->a += a; … ctx->e += e;` -/
theorem blk_store (σ : T) :
    sha1_core_blk90 (sha1_core_blk89 (sha1_core_blk88 (sha1_core_blk87 (sha1_core_blk86 σ)))) =
    (σ.1, σ.2.1 + (unpackT σ).a, σ.2.2.1 + (unpackT σ).b, σ.2.2.2.1 + (unpackT σ).c, σ.2.2.2.2.1 + (unpackT σ).d,
     σ.2.2.2.2.2.1 + (unpackT σ).e, (unpackT σ).w, (unpackT σ).a, (unpackT σ).b, (unpackT σ).c, (unpackT σ).d,
     (unpackT σ).e) := rfl

set_option maxHeartbeats 2000000 in
/-- the generated `sha1_core`, folded -/
theorem core_eq_rounds (ctx : sha1_ctx) (buf : Array W) :
    sha1_core ctx buf = finishG ctx ((List.range 80).foldl (fun s t => roundG t s) (startG ctx buf)) := by
  unfold sha1_core
  show (let r := """
    chain = '(ctx.nbytes, ctx.a, ctx.b, ctx.c, ctx.d, ctx.e, buf, 0#32, 0#32, 0#32, 0#32, 0#32)'
    for i in range(1, 91):
        chain = '(sha1_core_blk%d %s)' % (i, chain)
    out += chain + '\n'
    out += ('        ((({ nbytes := r.1, a := r.2.1, b := r.2.2.1, c := r.2.2.2.1, d := r.2.2.2.2.1, e := r.2.2.2.2.2.1 } : sha1_ctx),\n'
            '          r.2.2.2.2.2.2.1) : sha1_ctx × Array W)) = _\n')
    out += '  simp only [blk_load, unpack_pack, pack_pack' + ''.join(', blk_round_%d' % i for i in range(80)) + ']\n'
    out += '  rw [blk_store]\n'
    out += '  simp only [List.range, List.range.loop, List.foldl, unpack_pack]\n'
    out += '  rfl\n\nend UsualProofs.Bridge.C05TSha1\n'
    return out


def c05tmd5_module(repo=None, workdir='/tmp'):
    """usual/crypto/md5.c: md5_mix(ctx, X) — 64 `OP(fn, a, b, c, d, k, s, T)` statements, each a
    function of its own over the tuple of all variables in scope (`outline=True`), rol32 of bits.h"""
    repo = repo or _default_repo()
    stub = _stub(workdir, 'c05tmd5_stub.c', '#include "usual/crypto/md5.c"\n')
    m = Module(stub, repo, flt='md5_mix')
    m.struct('md5_ctx', skip=('buf',))
    m.fn('rol32', {'v': 'val', 's': 'val'}, assume={'s': (1, 31)}, flt='rol32')
    m.fn('md5_mix', {'ctx': 'struct', 'X': ('arr', 16)}, outline=True)
    return m.text('Usual.Gen.C05TMd5', GEN_NOTE % ('usual/crypto/md5.c, usual/bits.h', 'C05'))


C05TMD5_PARTA_HEAD = """import Usual.Gen.C05TMd5
import Usual.Gen.C05Tables
/-!
# C05 translation tie, MD5 (part A): the 64 `OP` statements of `md5_mix`, folded

`Usual.Gen.C05TMd5` (regenerated from usual/crypto/md5.c on every run) has one function per statement
of `md5_mix` over the tuple `T` of all variables in scope (`md5_mix_blk1 … blk72`: four loads, 64
`OP`s, four `ctx->a += a …`) and `md5_mix` as their chain.  `opG op X s` is one
`OP(fn, r0, r1, r2, r3, k, s, T)` read off an entry of the **regenerated** table `md5Ops`
(`Usual.Gen.C05`, extracted from the same md5.c by checks/C05.py): each block equals `opG` of its
table entry (`blk_op_i`, by `rfl`: function selector, register permutation, message index, rotation
count and additive constant of the i-th statement all come from the table), and the chain is
`finishG ctx (opG (md5Ops[63]) X (… (opG (md5Ops[0]) X (startG ctx))))`.  No axioms beyond the
kernel's.  Part B (`Bridge/C05TMd5.lean`) identifies that with the model.
-/
set_option maxRecDepth 100000
namespace UsualProofs.Bridge.C05TMd5
open Usual.Gen.C05TMd5 Usual.Gen.C05

abbrev W := BitVec 32

/-- the working variables `a b c d` -/
structure S where
  a : W
  b : W
  c : W
  d : W

def S.get (s : S) (i : Nat) : W :=
  match i with
  | 0 => s.a
  | 1 => s.b
  | 2 => s.c
  | _ => s.d

def S.set (s : S) (i : Nat) (v : W) : S :=
  match i with
  | 0 => { s with a := v }
  | 1 => { s with b := v }
  | 2 => { s with c := v }
  | _ => { s with d := v }

/-- `F G H I`, selected by the first component of the table entry -/
def fG (fn : Nat) (x y z : W) : W :=
  match fn with
  | 0 => ((x &&& y) ||| ((~~~x) &&& z))
  | 1 => ((x &&& z) ||| (y &&& (~~~z)))
  | 2 => ((x ^^^ y) ^^^ z)
  | _ => (y ^^^ (x ||| (~~~z)))

/-- `OP(fn, r0, r1, r2, r3, k, s, T)`: `r0 = r1 + rol32(r0 + fn(r1, r2, r3) + X[k] + T, s)` -/
def opG (op : Nat × Nat × Nat × Nat × Nat × Nat × Nat × UInt32) (x : Array W) (r : S) : S :=
  r.set op.2.1 (r.get op.2.2.1 + (rol32 (((r.get op.2.1 + (fG op.1 (r.get op.2.2.1) (r.get op.2.2.2.1) (r.get op.2.2.2.2.1))) +
    (x.getD op.2.2.2.2.2.1 0#32)) + op.2.2.2.2.2.2.2.toBitVec) (BitVec.ofNat 32 op.2.2.2.2.2.2.1)))

/-- all variables in scope inside `md5_mix`: `ctx->nbytes, ctx->a … ctx->d, X, a … d` -/
abbrev T := BitVec 64 × W × W × W × W × Array W × W × W × W × W

def unpackT (σ : T) : S :=
  { a := σ.2.2.2.2.2.2.1, b := σ.2.2.2.2.2.2.2.1, c := σ.2.2.2.2.2.2.2.2.1, d := σ.2.2.2.2.2.2.2.2.2 }

def xT (σ : T) : Array W := σ.2.2.2.2.2.1

def packT (σ : T) (s : S) : T :=
  (σ.1, σ.2.1, σ.2.2.1, σ.2.2.2.1, σ.2.2.2.2.1, σ.2.2.2.2.2.1, s.a, s.b, s.c, s.d)

theorem unpack_pack (σ : T) (s : S) : unpackT (packT σ s) = s := rfl
theorem pack_pack (σ : T) (s s' : S) : packT (packT σ s) s' = packT σ s' := rfl
theorem xT_pack (σ : T) (s : S) : xT (packT σ s) = xT σ := rfl

def finishG (ctx : md5_ctx) (s : S) : md5_ctx :=
  { nbytes := ctx.nbytes, a := (ctx.a + s.a), b := (ctx.b + s.b), c := (ctx.c + s.c), d := (ctx.d + s.d) }

def startG (ctx : md5_ctx) : S := { a := ctx.a, b := ctx.b, c := ctx.c, d := ctx.d }

/-- entry `i` of the regenerated table -/
def opAt (i : Nat) : Nat × Nat × Nat × Nat × Nat × Nat × Nat × UInt32 := md5Ops.getD i (0, 0, 0, 0, 0, 0, 0, 0)

"""


def c05tmd5_partA(gen_text):
    """text of lean/UsualProofs/Bridge/C05TMd5A.lean for the outlined md5_mix"""
    nblk = len(re.findall(r'^def md5_mix_blk\d+ ', gen_text, re.M))
    if nblk != 72:
        raise Refused('md5_mix: %d blocks instead of 4 + 64 + 4' % nblk)
    main = gen_text[gen_text.index('def md5_mix (ctx'):]
    svars = re.findall(r'^  let (s_\d+) := md5_mix_blk(\d+) ', main, re.M)
    if [int(b) for _, b in svars] != list(range(1, 73)):
        raise Refused('md5_mix: the blocks are not chained in order')
    out = C05TMD5_PARTA_HEAD
    tup = '(n, ca, cb, cc, cd, X, z1, z2, z3, z4)'
    binders = '(n : BitVec 64) (ca cb cc cd : W) (X : Array W) (z1 z2 z3 z4 : W)'
    for i in range(64):
        # a wrong block must fail quickly (a failing `rfl` otherwise burns the default budget 64 times)
        out += ('set_option maxHeartbeats 20000 in\n'
                'theorem blk_op_%d %s (s : S) :\n    md5_mix_blk%d (packT %s s) = packT %s (opG (opAt %d) X s) := rfl\n'
                % (i, binders, i + 5, tup, tup, i))
    out += """
/-- the four loads `a = ctx->a; … d = ctx->d;` -/
theorem blk_load (ctx : md5_ctx) (X : Array W) (z1 z2 z3 z4 : W) :
    md5_mix_blk4 (md5_mix_blk3 (md5_mix_blk2 (md5_mix_blk1 (ctx.nbytes, ctx.a, ctx.b, ctx.c, ctx.d, X, z1, z2, z3, z4)))) =
    packT (ctx.nbytes, ctx.a, ctx.b, ctx.c, ctx.d, X, z1, z2, z3, z4) (startG ctx) := rfl

/-- the four stores `ctx->a += a; … ctx->d += d;` -/
theorem blk_store (n : BitVec 64) (ca cb cc cd : W) (X : Array W) (z1 z2 z3 z4 : W) (s : S) :
    md5_mix_blk72 (md5_mix_blk71 (md5_mix_blk70 (md5_mix_blk69 (packT (n, ca, cb, cc, cd, X, z1, z2, z3, z4) s)))) =
    (n, ca + s.a, cb + s.b, cc + s.c, cd + s.d, X, s.a, s.b, s.c, s.d) := rfl

set_option maxHeartbeats 2000000 in
/-- the generated `md5_mix`, folded (every step a rewrite with one of the lemmas above, so that a
wrong step fails at once and the kernel never has to unfold the chain) -/
theorem mix_eq_ops (ctx : md5_ctx) (X : Array W) :
    md5_mix ctx X = finishG ctx ((List.range 64).foldl (fun s i => opG (opAt i) X s) (startG ctx)) := by
  unfold md5_mix
  show (let r := """
    chain = '(ctx.nbytes, ctx.a, ctx.b, ctx.c, ctx.d, X, 0#32, 0#32, 0#32, 0#32)'
    for i in range(1, 73):
        chain = '(md5_mix_blk%d %s)' % (i, chain)
    out += chain + '\n'
    out += '        (({ nbytes := r.1, a := r.2.1, b := r.2.2.1, c := r.2.2.2.1, d := r.2.2.2.2.1 } : md5_ctx))) = _\n'
    out += '  rw [blk_load' + ''.join(', blk_op_%d' % i for i in range(64)) + ', blk_store]\n'
    out += '  simp only [List.range, List.range.loop, List.foldl, finishG]\n\nend UsualProofs.Bridge.C05TMd5\n'
    return out


TTIE = {
    'C12': (c12t_module, 'usual/mbuf.h + usual/mbuf.c'),
    'C09': (c09t_module, 'usual/bits.h safe_mul_*'),
    'C11': (c11t_module, 'usual/utf8.c utf8_validate_string'),
    'C02': (c02t_module, 'usual/json.c parse_hex'),
    'C14': (c14t_module, 'usual/string.c memrchr'),
    'C05': (c05t_module, 'usual/crypto/chacha.c chacha_mix + usual/bits.h rol32'),
    'C16': (c16t_module, 'usual/hashing siphash/lookup3 macros + crc32'),
    'C06': (c06t_module, 'usual/cbtree.c get_bit/find_crit_bit + usual/bits.h fls'),
}


def ttie(ck, vf, pid):
    """T-tie step of checks/<pid>.py: regenerate lean/Usual/Gen/<pid>T*.lean from vf.REPO and
    return the bridge modules to be added to the proof obligations.  Refusal of the translator or
    a generated file that Lean rejects = tie broken (ck.broken, ck.proof_ok = False); the
    committed Gen file is put back so that everything still builds and the check goes on
    searching.  Runs against a scratch copy restore the file when the process ends."""
    out = []
    for suffix, fn, what, bridges in TTIE_MODS.get(pid, [('T',) + TTIE[pid] + (['UsualProofs.Bridge.%sT' % pid],)]):
        out += _ttie1(ck, vf, pid + suffix, fn, what, bridges)
    return out


def _ttie1(ck, vf, name, fn, what, bridge):
    import atexit
    import subprocess as sp
    rel = 'lean/Usual/Gen/%s.lean' % name
    path = os.path.join(vf.VERIF, rel)
    before = open(path, encoding='utf-8').read() if os.path.exists(path) else None
    pinned = vf.git_committed(rel)
    if pinned is None:
        pinned = before
    if os.path.realpath(vf.REPO) != '/repo' and before is not None:
        atexit.register(lambda: vf.write_if_changed(path, before))

    def broken(msg):
        ck.broken.append(msg)
        ck.proof_ok = False
        ck.cov['t_tie_' + name] = 'BROKEN: ' + msg[:200]
        if pinned is not None:
            vf.write_if_changed(path, pinned)
            ck.cov['gen_restored_' + name] = 'pinned version, so that the tree still builds'
        # lemmas about a stale Gen file say nothing about the current source: not obligations of this run
        return []
    try:
        txt = fn(vf.REPO, ck.bdir)
    except Refused as e:
        return broken('T-tie: extract/c2lean.py refuses %s (left the C subset): %s' % (what, e))
    changed = vf.write_if_changed(path, txt)
    # a file identical to the one already on disk was compiled when it was written (its olean is what
    # `lake build` re-uses); a new text is compiled here first so that a failure is attributed to it
    p = sp.run(['lake', 'env', 'lean', path], cwd=vf.LEAN, stdout=sp.PIPE, stderr=sp.STDOUT, text=True) \
        if changed or txt != pinned else None
    if p is not None and p.returncode != 0:
        return broken('T-tie: the Lean file generated from %s does not compile: %s'
                      % (what, ' | '.join(l for l in p.stdout.split('\n') if 'error' in l)[:300]))
    ck.cov['t_tie_' + name] = 'regenerated from %s%s' % (
        what, '' if pinned is None or pinned == txt else ' (differs from the pinned Gen file)')
    return list(bridge)


TTIE_MODS = {
    'C16': [('T', c16t_module, 'usual/hashing siphash (whole) / lookup3 + spooky macros / crc32',
             ['UsualProofs.Bridge.C16T', 'UsualProofs.Bridge.C16TSip'])],
    'C05': [('T', c05t_module, 'usual/crypto/chacha.c chacha_mix + usual/bits.h rol32', ['UsualProofs.Bridge.C05T']),
            ('TSha', c05tsha_module, 'usual/crypto/sha256.c sha256_core',
             ['UsualProofs.Bridge.C05TShaA', 'UsualProofs.Bridge.C05TSha']),
            ('TSha512', c05tsha512_module, 'usual/crypto/sha512.c sha512_core',
             ['UsualProofs.Bridge.C05TSha512A', 'UsualProofs.Bridge.C05TSha512']),
            ('TSha1', c05tsha1_module, 'usual/crypto/sha1.c sha1_core',
             ['UsualProofs.Bridge.C05TSha1A', 'UsualProofs.Bridge.C05TSha1']),
            ('TMd5', c05tmd5_module, 'usual/crypto/md5.c md5_mix',
             ['UsualProofs.Bridge.C05TMd5A', 'UsualProofs.Bridge.C05TMd5'])],
}


if __name__ == '__main__':
    sys.path.insert(0, os.path.join(os.path.dirname(os.path.dirname(os.path.abspath(__file__))), 'lib'))
    try:
        txt = utf8_module(sys.argv[2] if len(sys.argv) > 2 else None)
    except Refused as e:
        print('REFUSED:', e)
        sys.exit(3)
    if len(sys.argv) > 1 and sys.argv[1] != '-':
        open(sys.argv[1], 'w').write(txt)
    else:
        print(txt)
