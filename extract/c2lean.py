#!/usr/bin/env python3
"""C -> Lean translator for a deliberately tiny loop-free C subset (the "T-tie" of DESIGN.md 2.3).

Input : clang-14's *typed* JSON AST of one function (implicit promotions / casts are explicit
        nodes there, so C's integer semantics are taken from the compiler, not re-derived).
Output: a Lean 4 definition over `BitVec w` terms.

  * integers      -> BitVec w   (width + signedness from the AST; IntegralCast becomes
                     zeroExtend / signExtend / truncate; comparisons ult/slt/ule/sle by the
                     promoted type; `>>` on signed operands is sshiftRight)
  * byte pointers -> Nat offsets into an accessor `rd : Nat -> BitVec 8`; the `end` pointer is
                     `avail : Nat`, so `p + k > end` is a comparison of naturals
  * in/out pointer parameters (`const char **src_p`) and stores through an output pointer
    (`*dst++ = e`) become extra results (new offset, list of bytes written)
  * statements are translated in continuation-passing style, so early `return` and forward
    `goto` (label block inlined at the jump) need no CFG structuring.

The translator REFUSES (raises `Refused`) whatever is outside the subset instead of guessing:
loops, calls, unknown statement / expression kinds, backward gotos, signed arithmetic whose
interval (a cheap value-range analysis is carried along) may overflow, shifts whose amount may
be negative or >= width, side effects in conditions.  A refusal means "tie broken" for the
caller (checks/Cxx.py), never a silent approximation.

API:  translate(src, fn, roles, rettype, repo=...) -> str   (one `def`)
      roles: C parameter name -> 'in' | 'end' | 'inout' | 'outp' | 'outend' | 'val'
      rettype: bit width of the C return type, or 'bool'
      utf8_module(repo) -> str   (the whole lean/Usual/Gen/C11.lean)
"""
import json
import os
import subprocess
import sys


class Refused(Exception):
    """the function left the supported C subset"""


def _default_repo():
    try:
        import vf
        return vf.REPO
    except Exception:
        return os.environ.get("VERIF_REPO", "/repo")


_ast_cache = {}


def ast_docs(src, flt, repo, extra=()):
    key = (src, flt, repo, tuple(extra), os.path.getmtime(src))
    if key in _ast_cache:
        return _ast_cache[key]
    p = subprocess.run(['clang-14', '-I' + repo, '-DHAVE_CONFIG_H', '-fsyntax-only', '-Xclang',
                        '-ast-dump=json', '-Xclang', '-ast-dump-filter=' + flt, *extra, src],
                       capture_output=True, text=True)
    if p.returncode != 0:
        raise Refused('clang does not accept %s: %s' % (src, p.stderr.strip()[-300:]))
    out = p.stdout
    dec = json.JSONDecoder()
    i = 0
    docs = []
    while i < len(out):
        while i < len(out) and out[i].isspace():
            i += 1
        if i >= len(out):
            break
        o, j = dec.raw_decode(out, i)
        docs.append(o)
        i = j
    _ast_cache[key] = docs
    return docs


def ast_of(src, fn, repo, extra=(), flt=None):
    for d in ast_docs(src, flt or fn, repo, extra):
        if d.get('kind') == 'FunctionDecl' and d.get('name') == fn and \
                any(c.get('kind') == 'CompoundStmt' for c in d.get('inner', [])):
            return d
    raise Refused('no definition of ' + fn + ' in ' + src)


INT_TYPES = {'char': (8, True), 'signed char': (8, True), 'unsigned char': (8, False),
             'uint8_t': (8, False), 'short': (16, True), 'unsigned short': (16, False),
             'uint16_t': (16, False), 'int': (32, True), 'unsigned int': (32, False),
             'unsigned': (32, False), 'uint32_t': (32, False), 'long': (64, True),
             'unsigned long': (64, False), 'size_t': (64, False), 'uint64_t': (64, False),
             'long long': (64, True), 'unsigned long long': (64, False), '_Bool': (1, False),
             'bool': (1, False)}


def ctype(n):
    t = n['type']
    q = t.get('desugaredQualType', t['qualType']).replace('const ', '').strip()
    if q.endswith('*'):
        return ('ptr',)
    if q in INT_TYPES:
        return ('int',) + INT_TYPES[q]
    q2 = t['qualType'].replace('const ', '').strip()
    if q2 in INT_TYPES:
        return ('int',) + INT_TYPES[q2]
    raise Refused('unsupported type ' + repr(t))


def full(t):
    w, s = t[1], t[2]
    return (-(1 << (w - 1)), (1 << (w - 1)) - 1) if s else (0, (1 << w) - 1)


def fits(r, t):
    lo, hi = full(t)
    return lo <= r[0] and r[1] <= hi


class V:
    """translated expression: Lean text, C type, value interval (ints only)"""
    __slots__ = ('e', 't', 'r')

    def __init__(self, e, t, r=None):
        self.e, self.t = e, t
        if r is None and t[0] == 'int':
            r = full(t)
        self.r = r


def indent(s):
    return '\n'.join('  ' + l for l in s.split('\n'))


class Tr:
    def __init__(self, fn, roles):
        self.fn = fn
        self.roles = roles
        self.labels = {}
        self.pending = []
        self.cnt = 0
        self.active_labels = []

    def refuse(self, msg):
        raise Refused('%s: %s' % (self.fn, msg))

    # ------------------------------------------------------------ expressions
    def conv(self, v, to):
        (w1, s1), (w2, s2) = (v.t[1], v.t[2]), (to[1], to[2])
        r = v.r if fits(v.r, to) else full(to)
        if w1 == w2:
            return V(v.e, to, r)
        if w2 < w1:
            return V(f'(BitVec.truncate {w2} {v.e})', to, r)
        e = f'(BitVec.signExtend {w2} {v.e})' if s1 else f'(BitVec.zeroExtend {w2} {v.e})'
        return V(e, to, r)

    def arith(self, op, a, b, t):
        """interval of a op b in type t; refuses signed overflow"""
        (al, ah), (bl, bh) = a.r, b.r
        if op == '+':
            r = (al + bl, ah + bh)
        elif op == '-':
            r = (al - bh, ah - bl)
        else:
            c = [al * bl, al * bh, ah * bl, ah * bh]
            r = (min(c), max(c))
        if fits(r, t):
            return r
        if t[2]:
            self.refuse(f'signed {op} may overflow (operand ranges {a.r} {b.r})')
        return full(t)

    def shift_amount(self, b, w):
        if b.r[0] < 0 or b.r[1] >= w:
            self.refuse(f'shift amount range {b.r} not inside 0..{w - 1}')

    def expr(self, n, env):
        k = n['kind']
        if k in ('ParenExpr', 'ConstantExpr'):
            return self.expr(n['inner'][0], env)
        if k in ('IntegerLiteral', 'CharacterLiteral'):
            t = ctype(n)
            v = int(n['value'])
            return V(f'({v % (1 << t[1])}#{t[1]})', t, (v, v))
        if k == 'DeclRefExpr':
            name = n['referencedDecl']['name']
            if name not in env:
                self.refuse('reference to ' + name + ' (not a parameter or local)')
            return env[name]
        if k in ('ImplicitCastExpr', 'CStyleCastExpr'):
            ck = n.get('castKind')
            sub = n['inner'][-1]
            if ck in ('LValueToRValue', 'NoOp', 'BitCast', 'ArrayToPointerDecay'):
                return self.expr(sub, env)
            v = self.expr(sub, env)
            if ck == 'IntegralCast':
                if v.t[0] == 'bool':
                    v = self.tobv(v)
                return self.conv(v, ctype(n))
            if ck == 'IntegralToBoolean':
                if v.t[0] == 'bool':
                    return v
                return V(f'({v.e} != 0#{v.t[1]})', ('bool',))
            self.refuse('cast kind ' + str(ck))
        if k == 'UnaryOperator':
            op = n['opcode']
            sub = n['inner'][0]
            if op == '*':
                v = self.expr(sub, env)
                if v.t == ('ptr', 'bytes'):
                    t = ctype(n)
                    return V(f'(rd ({v.e}))', ('int', 8, t[2]))
                if v.t[0] == 'ptrptr':
                    return env['*' + v.t[1]]
                self.refuse('dereference of ' + str(v.t))
            if op in ('++', '--') and n.get('isPostfix'):
                tgt = sub
                while tgt['kind'] == 'ParenExpr':
                    tgt = tgt['inner'][0]
                if tgt['kind'] != 'DeclRefExpr':
                    self.refuse('post-increment of a non-variable')
                name = tgt['referencedDecl']['name']
                self.pending.append((name, op))
                return env[name]
            v = self.expr(sub, env)
            if op == '!':
                if v.t[0] == 'bool':
                    return V(f'(!{v.e})', ('bool',))
                if v.t[0] != 'int':
                    self.refuse('! on ' + str(v.t))
                return V(f'({v.e} == 0#{v.t[1]})', ('bool',))
            if v.t[0] == 'bool':
                v = self.tobv(v)
            if v.t[0] != 'int':
                self.refuse(f'unary {op} on {v.t}')
            if op == '-':
                if v.t[2]:
                    if v.r[0] == full(v.t)[0]:
                        self.refuse('signed negation may overflow')
                    return V(f'(-{v.e})', v.t, (-v.r[1], -v.r[0]))
                return V(f'(-{v.e})', v.t, (0, 0) if v.r == (0, 0) else None)
            if op == '~':
                return V(f'(~~~{v.e})', v.t, (-v.r[1] - 1, -v.r[0] - 1) if v.t[2] else None)
            if op == '+':
                return v
            self.refuse('unary operator ' + op)
        if k == 'ArraySubscriptExpr':
            b = self.expr(n['inner'][0], env)
            i = self.expr(n['inner'][1], env)
            if b.t != ('ptr', 'bytes') or i.t[0] != 'int':
                self.refuse('subscript of ' + str(b.t))
            if i.r[0] < 0:
                self.refuse('possibly negative index')
            return V(f'(rd ({b.e} + ({i.e}).toNat))', ('int', 8, ctype(n)[2]))
        if k == 'BinaryOperator':
            op = n['opcode']
            if op == ',' or op.endswith('=') and op not in ('==', '!=', '<=', '>='):
                self.refuse('assignment / comma inside an expression')
            a = self.expr(n['inner'][0], env)
            b = self.expr(n['inner'][1], env)
            if a.t[0] == 'ptr' or b.t[0] == 'ptr':
                if op == '+' and a.t[0] == 'ptr' and b.t[0] == 'int':
                    if b.r[0] < 0:
                        self.refuse('pointer + possibly negative offset')
                    return V(f'({a.e} + ({b.e}).toNat)', a.t)
                if op in ('>', '<', '>=', '<=', '==', '!=') and a.t[0] == 'ptr' and a.t == b.t:
                    lop = {'==': '=', '!=': '≠'}.get(op, op)
                    return V(f'(decide ({a.e} {lop} {b.e}))', ('bool',))
                self.refuse('pointer operation ' + op)
            if op in ('&&', '||'):
                ba = a.e if a.t[0] == 'bool' else f'({a.e} != 0#{a.t[1]})'
                bb = b.e if b.t[0] == 'bool' else f'({b.e} != 0#{b.t[1]})'
                return V(f'({ba} {op} {bb})', ('bool',))
            a, b = self.tobv(a), self.tobv(b)
            if a.t[0] != 'int' or b.t[0] != 'int':
                self.refuse(f'operator {op} on {a.t} {b.t}')
            if op in ('<<', '>>'):
                t = ctype(n)
                w, s = a.t[1], a.t[2]
                if (t[1], t[2]) != (w, s):
                    self.refuse('shift result type differs from promoted left operand')
                self.shift_amount(b, w)
                if op == '<<':
                    r = (a.r[0] << b.r[0], a.r[1] << b.r[1])
                    if s and (a.r[0] < 0 or not fits(r, t)):
                        self.refuse(f'signed << may overflow (ranges {a.r} {b.r})')
                    return V(f'({a.e} <<< ({b.e}).toNat)', t, r if fits(r, t) else None)
                if a.r[0] >= 0:
                    r = (a.r[0] >> b.r[1], a.r[1] >> b.r[0])
                else:
                    r = None
                e = f'(BitVec.sshiftRight {a.e} ({b.e}).toNat)' if s else f'({a.e} >>> ({b.e}).toNat)'
                return V(e, t, r)
            if a.t[1] != b.t[1] or a.t[2] != b.t[2]:
                self.refuse(f'operands of {op} not converted to a common type: {a.t} {b.t}')
            w, s = a.t[1], a.t[2]
            if op in ('<', '>', '<=', '>='):
                f = {'<': ('slt', 'ult'), '<=': ('sle', 'ule')}
                x, y = a.e, b.e
                if op in ('>', '>='):
                    x, y = y, x
                    op = {'>': '<', '>=': '<='}[op]
                return V(f'(BitVec.{f[op][0 if s else 1]} {x} {y})', ('bool',))
            if op == '==':
                return V(f'({a.e} == {b.e})', ('bool',))
            if op == '!=':
                return V(f'({a.e} != {b.e})', ('bool',))
            t = ctype(n)
            if (t[1], t[2]) != (w, s):
                self.refuse(f'result type of {op} differs from operand type')
            if op in ('+', '-', '*'):
                return V(f'({a.e} {op} {b.e})', t, self.arith(op, a, b, t))
            if op in ('&', '|', '^'):
                m = {'&': '&&&', '|': '|||', '^': '^^^'}[op]
                r = None
                if a.r[0] >= 0 and b.r[0] >= 0:
                    if op == '&':
                        r = (0, min(a.r[1], b.r[1]))
                    else:
                        r = (0, (1 << max(a.r[1], b.r[1]).bit_length()) - 1)
                elif op == '&' and (a.r[0] >= 0 or b.r[0] >= 0):
                    r = (0, a.r[1] if a.r[0] >= 0 else b.r[1])
                return V(f'({a.e} {m} {b.e})', t, r)
            if op in ('/', '%'):
                if b.r[0] <= 0 <= b.r[1]:
                    self.refuse('possible division by zero')
                if s and (a.r[0] < 0 or b.r[0] < 0):
                    self.refuse('signed division of possibly negative operands')
                r = (0, a.r[1]) if op == '/' else (0, min(a.r[1], b.r[1] - 1))
                return V(f'({a.e} {op} {b.e})', t, r)
            self.refuse('binary operator ' + op)
        if k == 'ConditionalOperator':
            c = self.expr(n['inner'][0], env)
            a = self.expr(n['inner'][1], env)
            b = self.expr(n['inner'][2], env)
            ce = c.e if c.t[0] == 'bool' else f'({c.e} != 0#{c.t[1]})'
            if a.t != b.t:
                self.refuse('?: arms of different type')
            r = (min(a.r[0], b.r[0]), max(a.r[1], b.r[1])) if a.t[0] == 'int' else None
            return V(f'(if {ce} then {a.e} else {b.e})', a.t, r)
        self.refuse('expression kind ' + k)

    def tobv(self, v):
        if v.t[0] == 'bool':
            return V(f'(if {v.e} then 1#32 else 0#32)', ('int', 32, True), (0, 1))
        return v

    def pure(self, what):
        if self.pending:
            self.refuse('side effect inside ' + what)

    def cond(self, n, env):
        v = self.expr(n, env)
        self.pure('a condition')
        if v.t[0] == 'bool':
            return v.e
        if v.t[0] != 'int':
            self.refuse('condition of type ' + str(v.t))
        return f'({v.e} != 0#{v.t[1]})'

    # ------------------------------------------------------------- statements
    def fresh(self, base):
        self.cnt += 1
        return f'{base}_{self.cnt}'

    def bump(self, name, op, env):
        """x++ / x-- as a statement: returns the let text"""
        v = env[name]
        nv = self.fresh(name)
        if v.t[0] == 'ptr':
            if op != '++':
                self.refuse('pointer decrement')
            env[name] = V(nv, v.t)
            return f'let {nv} := ({v.e} + 1)\n'
        if v.t[0] != 'int':
            self.refuse('++ on ' + str(v.t))
        one = V(f'1#{v.t[1]}', v.t, (1, 1))
        r = self.arith('+' if op == '++' else '-', v, one, v.t)
        env[name] = V(nv, v.t, r)
        return f'let {nv} := ({v.e} {"+" if op == "++" else "-"} 1#{v.t[1]})\n'

    def flush(self, env):
        lets = ''
        for name, op in self.pending:
            lets += self.bump(name, op, env)
        self.pending = []
        return lets

    def stmts(self, ss, env, ret):
        if not ss:
            return ret(env)
        s, rest = ss[0], ss[1:]
        k = s['kind']
        if k == 'CompoundStmt':
            return self.stmts(s.get('inner', []) + rest, env, ret)
        if k == 'NullStmt':
            return self.stmts(rest, env, ret)
        if k == 'LabelStmt':
            return self.stmts([s['inner'][0]] + rest, env, ret)
        if k == 'DeclStmt':
            env = dict(env)
            lets = ''
            for d in s['inner']:
                if d.get('kind') != 'VarDecl':
                    self.refuse('declaration kind ' + str(d.get('kind')))
                name = d['name']
                t = ctype(d)
                if d.get('inner'):
                    v = self.expr(d['inner'][0], env)
                    self.pure('an initialiser')
                    if t[0] == 'int':
                        if v.t[0] == 'bool':
                            v = self.tobv(v)
                        v = self.conv(v, t)
                    elif v.t[0] != 'ptr':
                        self.refuse('pointer initialised from ' + str(v.t))
                else:
                    # uninitialised local: reading it before assignment would be UB; the value
                    # chosen here is never observable in well-defined executions
                    v = V('0' if t[0] == 'ptr' else f'0#{t[1]}', t if t[0] == 'int' else ('ptr', 'bytes'),
                          (0, 0) if t[0] == 'int' else None)
                nv = self.fresh(name)
                lets += f'let {nv} := {v.e}\n'
                env[name] = V(nv, v.t, v.r)
            return lets + self.stmts(rest, env, ret)
        if k == 'ReturnStmt':
            if s.get('inner'):
                v = self.expr(s['inner'][0], env)
                self.pure('a return expression')
                return ret(env, v)
            return ret(env, None)
        if k == 'GotoStmt':
            lab = s['targetLabelDeclId']
            if lab not in self.labels:
                self.refuse('goto to an unknown label')
            if lab in self.active_labels:
                self.refuse('backward goto (loop)')
            self.active_labels.append(lab)
            try:
                return self.stmts(self.labels[lab], env, ret)
            finally:
                self.active_labels.pop()
        if k == 'IfStmt':
            if len(s['inner']) not in (2, 3) or s.get('hasInit') or s.get('hasVar'):
                self.refuse('if statement with init/declaration')
            c = self.cond(s['inner'][0], env)
            th = self.stmts([s['inner'][1]] + rest, dict(env), ret)
            el = self.stmts(([s['inner'][2]] if len(s['inner']) > 2 else []) + rest, dict(env), ret)
            return f'if {c} then\n{indent(th)}\nelse\n{indent(el)}'
        if k in ('BinaryOperator', 'CompoundAssignOperator', 'UnaryOperator'):
            env, lets = self.assign(s, env)
            return lets + self.stmts(rest, env, ret)
        self.refuse('statement kind ' + k)

    def assign(self, s, env):
        env = dict(env)
        k = s['kind']
        op = s['opcode']

        def target(n):
            while n['kind'] == 'ParenExpr':
                n = n['inner'][0]
            return n
        if k == 'UnaryOperator':
            if op not in ('++', '--'):
                self.refuse('expression statement ' + op)
            tgt = target(s['inner'][0])
            if tgt['kind'] != 'DeclRefExpr':
                self.refuse('++ of a non-variable')
            return env, self.bump(tgt['referencedDecl']['name'], op, env)
        if k == 'BinaryOperator' and op != '=':
            self.refuse('expression statement ' + op)
        lhs = target(s['inner'][0])
        rhs = s['inner'][1]
        if op != '=':
            fake = {'kind': 'BinaryOperator', 'opcode': op[:-1], 'inner': [s['inner'][0], rhs],
                    'type': s.get('computeResultType', s['type'])}
            v = self.expr(fake, env)
        else:
            v = self.expr(rhs, env)
        if lhs['kind'] == 'DeclRefExpr':
            name = lhs['referencedDecl']['name']
            if name not in env:
                self.refuse('assignment to ' + name)
            old = env[name]
            if old.t[0] == 'int':
                if v.t[0] == 'bool':
                    v = self.tobv(v)
                if v.t[0] != 'int':
                    self.refuse('integer assigned from ' + str(v.t))
                v = self.conv(v, ctype(lhs))
            elif old.t[0] == 'ptr':
                if v.t != old.t:
                    self.refuse('pointer assigned from ' + str(v.t))
            else:
                self.refuse('assignment to ' + str(old.t))
            nv = self.fresh(name)
            env[name] = V(nv, v.t, v.r)
            lets = f'let {nv} := {v.e}\n'
            lets += self.flush(env)
            return env, lets
        self.pure('a store')
        if lhs['kind'] == 'UnaryOperator' and lhs['opcode'] == '*':
            sub = target(lhs['inner'][0])
            # *dst++ = e   (store through the output pointer, post-increment)
            if sub['kind'] == 'UnaryOperator' and sub['opcode'] == '++' and sub.get('isPostfix'):
                pn = target(sub['inner'][0])['referencedDecl']['name']
                p = env[pn]
                if p.t != ('ptr', 'out'):
                    self.refuse('store through a pointer that is not the output pointer')
                if v.t[0] == 'bool':
                    v = self.tobv(v)
                if v.t[0] != 'int':
                    self.refuse('store of ' + str(v.t))
                v = self.conv(v, ('int', 8, ctype(lhs)[2]))
                o = self.fresh('out')
                nv = self.fresh(pn)
                oe = env['$out'].e
                env['$out'] = V(o, ('out',))
                env[pn] = V(nv, p.t)
                return env, f'let {o} := {oe} ++ [({v.e} : BitVec 8)]\nlet {nv} := {p.e} + 1\n'
            p = self.expr(sub, env)
            self.pure('a store')
            if p.t[0] == 'ptrptr':      # *src_p = p   /  *dst_p = dst
                if v.t[0] != 'ptr' or v.t != env['*' + p.t[1]].t:
                    self.refuse('in/out pointer assigned from ' + str(v.t))
                env['*' + p.t[1]] = v
                return env, ''
        self.refuse('assignment form')


def collect_labels(n, tr):
    """label -> statements from the label to the end of the enclosing compound"""
    if n.get('kind') == 'CompoundStmt':
        inner = n.get('inner', [])
        for i, s in enumerate(inner):
            t = s
            while t.get('kind') == 'LabelStmt':
                tr.labels[t['declId']] = [t['inner'][0]] + inner[i + 1:]
                t = t['inner'][0]
    if n.get('kind') in ('WhileStmt', 'ForStmt', 'DoStmt', 'SwitchStmt', 'CallExpr'):
        tr.refuse('contains ' + n['kind'])
    for c in n.get('inner', []):
        if isinstance(c, dict):
            collect_labels(c, tr)


def translate(src, fn, roles, rettype, extra=(), repo=None, flt=None):
    repo = repo or _default_repo()
    d = ast_of(src, fn, repo, extra, flt)
    tr = Tr(fn, roles)
    body = [c for c in d['inner'] if c['kind'] == 'CompoundStmt'][0]
    collect_labels(body, tr)
    env = {}
    params = []
    for p in [c for c in d['inner'] if c['kind'] == 'ParmVarDecl']:
        if p['name'] not in roles:
            tr.refuse('parameter ' + p['name'] + ' has no role (signature changed)')
        r = roles[p['name']]
        if r == 'in':
            env[p['name']] = V('0', ('ptr', 'bytes'))
        elif r == 'end':
            env[p['name']] = V('avail', ('ptr', 'bytes'))
        elif r == 'inout':
            env[p['name']] = V('$pp', ('ptrptr', p['name']))
            env['*' + p['name']] = V('0', ('ptr', 'bytes'))
        elif r == 'outp':
            env[p['name']] = V('$pp', ('ptrptr', p['name']))
            env['*' + p['name']] = V('0', ('ptr', 'out'))
        elif r == 'outend':
            env[p['name']] = V('room', ('ptr', 'out'))
        elif r == 'val':
            t = ctype(p)
            if t[0] != 'int':
                tr.refuse('value parameter of type ' + str(t))
            env[p['name']] = V(p['name'], t)
            params.append(f'({p["name"]} : BitVec {t[1]})')
    missing = set(roles) - {p['name'] for p in d['inner'] if p['kind'] == 'ParmVarDecl'}
    if missing:
        tr.refuse('parameters %s not found (signature changed)' % sorted(missing))
    env['$out'] = V('([] : List (BitVec 8))', ('out',))

    def ret(env, val=None):
        parts = []
        if rettype is not None:
            if val is None:
                tr.refuse('control reaches the end of a non-void function')
            if rettype == 'bool':
                if val.t[0] == 'bool':
                    e = val.e
                else:
                    e = f'({val.e} != 0#{val.t[1]})'
            else:
                if val.t[0] == 'bool':
                    val = tr.tobv(val)
                e = tr.conv(val, ('int', rettype, val.t[2])).e
            parts.append(e)
        for name, r in roles.items():
            if r in ('inout', 'outp'):
                parts.append(env['*' + name].e)
        if any(r == 'outp' for r in roles.values()):
            parts.append(env['$out'].e)
        return '(' + ', '.join(parts) + ')' if len(parts) > 1 else parts[0]
    sig = []
    if any(r in ('in', 'inout') for r in roles.values()):
        sig += ['(rd : Nat → BitVec 8)', '(avail : Nat)']
    if any(r == 'outend' for r in roles.values()):
        sig += ['(room : Nat)']
    sig += params
    term = tr.stmts(body['inner'], env, ret)
    return f'def {fn} {" ".join(sig)} :=\n{indent(term)}\n'


# ---------------------------------------------------------------------------- utf8.c (C11)
UTF8_FUNCS = [
    ('utf8_validate_seq', {'src': 'in', 'srcend': 'end'}, 32),
    ('utf8_seq_size', {'b': 'val'}, 32),
    ('utf8_char_size', {'c': 'val'}, 32),
    ('utf8_get_char', {'src_p': 'inout', '_srcend': 'end'}, 32),
    ('utf8_put_char', {'c': 'val', 'dst_p': 'outp', 'dstend': 'outend'}, 'bool'),
]


def utf8_module(repo=None):
    """text of lean/Usual/Gen/C11.lean for the utf8.c of `repo` (raises Refused)"""
    repo = repo or _default_repo()
    src = os.path.join(repo, 'usual', 'utf8.c')
    out = ('/- GENERATED by extract/c2lean.py from usual/utf8.c on every run of checks/C11.py;\n'
           '   do not edit.  C integers are BitVec terms with the casts clang made explicit; byte\n'
           '   pointers are offsets into `rd`, `avail` = bytes before the end pointer, `room` =\n'
           '   bytes before the destination end pointer. -/\n'
           'set_option linter.unusedVariables false\n'
           'namespace Usual.Gen.C11\n\n')
    for fn, roles, rt in UTF8_FUNCS:
        out += translate(src, fn, roles, rt, repo=repo, flt='utf8_') + '\n'
    out += 'end Usual.Gen.C11\n'
    return out


if __name__ == '__main__':
    sys.path.insert(0, os.path.join(os.path.dirname(os.path.dirname(os.path.abspath(__file__))), 'lib'))
    try:
        txt = utf8_module(sys.argv[2] if len(sys.argv) > 2 else None)
    except Refused as e:
        print('REFUSED:', e)
        sys.exit(3)
    if len(sys.argv) > 1 and sys.argv[1] != '-':
        open(sys.argv[1], 'w').write(txt)
    else:
        print(txt)
