"""C05: translate the two unrolled keccak_f bodies of usual/crypto/keccak.c (the default 64-bit
path and the KECCAK_32BIT bit-interleaved path) and the 32-bit lane (de)interleaving networks
of xor_lane()/extract() into Lean, statement by statement -> lean/Usual/Gen/C05Keccak.lean.

The code is straight-line: assignments `X = e;` / `X ^= e;` over `^ & | ~ << >>`, `rol64/rol32(e, n)`,
hexadecimal constants and `RoundConstantsNN[i+k]`, inside one `for` loop whose body holds four
rounds.  Anything outside that shape makes the translator refuse (ExtractError) rather than guess.
Each round of the body becomes one Lean function `f64RoundK` / `f32RoundK` from 25 lanes
(resp. 2x25 words) to the same; UsualProofs/Bridge/C05.lean proves them equal to the FIPS 202
round up to the lane placement the in-place code uses.
"""
import os
import re


class ExtractError(Exception):
    pass


def _strip_comments(t):
    t = re.sub(r"/\*.*?\*/", " ", t, flags=re.S)
    return re.sub(r"//[^\n]*", " ", t)


# ------------------------------------------------------------------ expression parser
TOK = re.compile(r"\s*(0[xX][0-9a-fA-F]+|\d+|[A-Za-z_][A-Za-z_0-9]*|<<|>>|\^=|[\^&|~()\[\],+=*])")


def tokenize(s):
    out, i = [], 0
    s = s.strip()
    while i < len(s):
        m = TOK.match(s, i)
        if not m:
            raise ExtractError("cannot tokenize: %r" % s[i:i + 30])
        out.append(m.group(1))
        i = m.end()
    return out


class P:
    """C precedence: unary ~  >  << >>  >  &  >  ^  >  |"""

    def __init__(self, toks, width, rcname):
        self.t, self.i, self.w, self.rcname = toks, 0, width, rcname
        self.rc_used = []

    def peek(self):
        return self.t[self.i] if self.i < len(self.t) else None

    def eat(self, x=None):
        tok = self.peek()
        if tok is None or (x is not None and tok != x):
            raise ExtractError("expected %r, got %r in %r" % (x, tok, " ".join(self.t)))
        self.i += 1
        return tok

    def expr(self):
        e = self.xor()
        while self.peek() == "|":
            self.eat()
            e = "(%s ||| %s)" % (e, self.xor())
        return e

    def xor(self):
        e = self.and_()
        while self.peek() == "^":
            self.eat()
            e = "(%s ^^^ %s)" % (e, self.and_())
        return e

    def and_(self):
        e = self.shift()
        while self.peek() == "&":
            self.eat()
            e = "(%s &&& %s)" % (e, self.shift())
        return e

    def shift(self):
        e = self.unary()
        while self.peek() in ("<<", ">>"):
            op = self.eat()
            n = self.eat()
            if not n.isdigit() or int(n) >= self.w:
                raise ExtractError("shift amount %r" % n)
            e = "(%s %s %s)" % (e, "<<<" if op == "<<" else ">>>", n)
        return e

    def unary(self):
        if self.peek() == "~":
            self.eat()
            return "(~~~ %s)" % self.unary()
        return self.primary()

    def primary(self):
        tok = self.eat()
        if tok == "(":
            e = self.expr()
            self.eat(")")
            return e
        if tok in ("rol64", "rol32"):
            if int(tok[3:]) != self.w:
                raise ExtractError("%s in %d-bit code" % (tok, self.w))
            self.eat("(")
            e = self.expr()
            self.eat(",")
            n = self.eat()
            self.eat(")")
            if not n.isdigit() or not (0 < int(n) < self.w):
                raise ExtractError("rotation amount %r" % n)
            return "(rol%d %s %s)" % (self.w, e, n)
        if tok == self.rcname:
            self.eat("[")
            self.eat("i")
            self.eat("+")
            k = self.eat()
            self.eat("]")
            self.rc_used.append(int(k))
            return "rc%d" % int(k)
        if re.fullmatch(r"0[xX][0-9a-fA-F]+|\d+", tok):
            return "(%d : UInt%d)" % (int(tok, 0), self.w)
        if re.fullmatch(r"[A-Za-z_][A-Za-z_0-9]*", tok):
            return tok
        raise ExtractError("unexpected token %r" % tok)


def parse_stmt(stmt, width, rcname):
    """'X = e' or 'X ^= e' -> (lhs, lean expr, rc indices used)"""
    toks = tokenize(stmt)
    if len(toks) < 3 or toks[1] not in ("=", "^="):
        raise ExtractError("not an assignment: %r" % stmt)
    lhs, op = toks[0], toks[1]
    p = P(toks[2:], width, rcname)
    e = p.expr()
    if p.peek() is not None:
        raise ExtractError("trailing tokens in %r" % stmt)
    if op == "^=":
        e = "(%s ^^^ %s)" % (lhs, e)
    return lhs, e, p.rc_used


# ------------------------------------------------------------------ locating the code
def _between(text, a, b):
    i = text.find(a)
    j = text.find(b, i + 1) if i >= 0 else -1
    if i < 0 or j < 0:
        raise ExtractError("markers %r .. %r not found" % (a, b))
    return text[i + len(a):j]


def _func(text, header_re):
    m = re.search(header_re, text)
    if not m:
        raise ExtractError("function %s not found" % header_re)
    i = text.index("{", m.end() - 1)
    depth, j = 1, i + 1
    while depth and j < len(text):
        depth += {"{": 1, "}": -1}.get(text[j], 0)
        j += 1
    return text[i + 1:j - 1]


def _loop_body(body):
    m = re.search(r"for\s*\(([^)]*)\)\s*\{", body)
    if not m:
        raise ExtractError("for loop not found")
    i = m.end()
    depth, j = 1, i
    while depth and j < len(body):
        depth += {"{": 1, "}": -1}.get(body[j], 0)
        j += 1
    rest = body[j:].strip()
    if rest:
        raise ExtractError("code after the round loop: %r" % rest[:40])
    return re.sub(r"\s+", "", m.group(1)), body[i:j - 1]


def _rounds(section, width, names, per_round_rc, loop_expect, rcname, aliases, macros):
    """returns list of rounds; each round = list of (lhs, expr)"""
    body = _func(section, r"static\s+void\s+keccak_f\s*\(\s*struct\s+KeccakContext\s*\*\s*ctx\s*\)\s*\{")
    # declarations / defines in front of the loop are not code
    body_nodef = re.sub(r"^\s*#\s*define[^\n]*$", "", body, flags=re.M)
    hdr, loop = _loop_body(body_nodef[body_nodef.index("for"):])
    if hdr != loop_expect:
        raise ExtractError("round loop header is %r, expected %r" % (hdr, loop_expect))
    for mname, mbody in macros.items():
        loop = loop.replace(mname + "()", "@ROUND@;" + mbody)
    stmts = [s.strip() for s in loop.split(";") if s.strip()]
    rounds, cur = [], None
    for st in stmts:
        if st.startswith("@ROUND@"):
            cur = []
            rounds.append(cur)
            st = st[len("@ROUND@"):].strip()
            if not st:
                continue
        for a, b in aliases.items():
            st = re.sub(r"\b%s\b" % a, b, st)
        lhs, e, rcs = parse_stmt(st, width, rcname)
        if not macros and lhs == "Ca":
            cur = []
            rounds.append(cur)
        if cur is None:
            raise ExtractError("statement before the first round: %r" % st)
        k = len(rounds) - 1
        for r in rcs:
            if r // per_round_rc != k:
                raise ExtractError("round %d uses round constant index i+%d" % (k, r))
        e = re.sub(r"\brc(\d+)\b", lambda m: "rc%d" % (int(m.group(1)) % per_round_rc), e)
        cur.append((lhs, e))
    if len(rounds) != 4:
        raise ExtractError("%d rounds in the loop body, expected 4" % len(rounds))
    used = set()
    for r in rounds:
        for lhs, e in r:
            used.add(lhs)
            used.update(re.findall(r"\b[A-Z][a-z]+[01]?\b|\bC[xyzw]\b", e))
    return rounds


LANES = ["ba", "be", "bi", "bo", "bu", "ga", "ge", "gi", "go", "gu", "ka", "ke", "ki", "ko", "ku",
         "ma", "me", "mi", "mo", "mu", "sa", "se", "si", "so", "su"]


def _defines(section, pattern):
    out = {}
    for m in re.finditer(r"^\s*#\s*define\s+(\w+)\s+" + pattern + r"\s*$", section, flags=re.M):
        out[m.group(1)] = m.group(2)
    return out


def generate(repo):
    src = open(os.path.join(repo, "usual/crypto/keccak.c"), encoding="utf-8", errors="replace").read()
    # keep the marker comments: cut the sections first, strip comments afterwards
    sec64 = _strip_comments(_between(src, "#else /* !KECCAK_SMALL - fast 64-bit */", "#endif /* !KECCAK_SMALL */"))
    sec32 = _strip_comments(_between(src, "#else /* KECCAK_32BIT */", "#endif /* KECCAK_32BIT */"))
    out = ["import Usual.C05.KeccakSpec\n"
           "/-! GENERATED by extract/c05_keccak.py from usual/crypto/keccak.c - do not edit.\n"
           "    Statement-by-statement translation of the unrolled keccak_f bodies (one Lean function per\n"
           "    round of the 4-round loop body) and of the 32-bit lane interleaving networks. -/\n"
           "namespace Usual.Gen.C05\nopen Usual.C05.Keccak\n"]

    # ---------------------------------------------------------------- 64-bit unrolled
    d64 = _defines(sec64, r"state\[\s*(\d+)\s*\]")
    want = {"A" + n: str(i) for i, n in enumerate(LANES)}
    if d64 != want:
        raise ExtractError("64-bit lane #defines are not Aba=state[0] .. Asu=state[24]")
    r64 = _rounds(sec64, 64, want, 1, "i=0;i<KECCAK_ROUNDS;i+=4", "RoundConstants64", {}, {})
    for k, stmts in enumerate(r64):
        out.append("/-- round %d of the 4-round loop body of the default 64-bit keccak_f -/" % k)
        out.append("def f64Round%d (rc0 : UInt64) (s : L25 UInt64) : L25 UInt64 :=" % k)
        for i, n in enumerate(LANES):
            out.append("  let A%s := s.l%d" % (n, i))
        for lhs, e in stmts:
            out.append("  let %s := %s" % (lhs, e))
        out.append("  ⟨" + ", ".join("A" + n for n in LANES) + "⟩\n")

    # ---------------------------------------------------------------- 32-bit interleaved
    d32 = _defines(sec32, r"state\[\s*(\d+)\s*\]")
    want32 = {}
    for i, n in enumerate(LANES):
        want32["A%s0" % n] = str(2 * i)
        want32["A%s1" % n] = str(2 * i + 1)
    if d32 != want32:
        raise ExtractError("32-bit word #defines are not Aba0=state[0], Aba1=state[1] .. Asu1=state[49]")
    aliases = _defines(sec32, r"(C[aeiou]0)")
    if sorted(aliases) != ["Ba", "Be", "Bi", "Bo", "Bu"]:
        raise ExtractError("32-bit B aliases: %r" % aliases)
    macros = {}
    for m in re.finditer(r"#\s*define\s+(KeccakAtoD_round\d)\(\)\s*\\\n((?:[^\n]*\\\n)*[^\n]*)\n", sec32):
        macros[m.group(1)] = m.group(2).replace("\\\n", " ")
    if sorted(macros) != ["KeccakAtoD_round%d" % i for i in range(4)]:
        raise ExtractError("KeccakAtoD_round0..3 macros not found")
    r32 = _rounds(sec32, 32, want32, 2, "i=0;i<KECCAK_ROUNDS*2;i+=8", "RoundConstants32", aliases, macros)
    for k, stmts in enumerate(r32):
        out.append("/-- round %d of the 4-round loop body of the KECCAK_32BIT keccak_f; `s0`/`s1` = `state[2k]`/`state[2k+1]` -/" % k)
        out.append("def f32Round%d (rc0 rc1 : UInt32) (s0 s1 : L25 UInt32) : L25 UInt32 × L25 UInt32 :=" % k)
        for i, n in enumerate(LANES):
            out.append("  let A%s0 := s0.l%d" % (n, i))
            out.append("  let A%s1 := s1.l%d" % (n, i))
        for lhs, e in stmts:
            out.append("  let %s := %s" % (lhs, e))
        out.append("  (⟨" + ", ".join("A%s0" % n for n in LANES) + "⟩,\n   ⟨" + ", ".join("A%s1" % n for n in LANES) + "⟩)\n")

    # ---------------------------------------------------------------- 32-bit xor_lane / extract networks
    xl = _func(sec32, r"static\s+void\s+xor_lane\s*\([^)]*\)\s*\{")
    stm = [s.strip() for s in xl.split(";") if s.strip()]
    if not (stm[0].startswith("uint32_t x0, x1, t") and stm[1].replace(" ", "") == "uint32_t*dst=ctx->u.state32+lane*2"):
        raise ExtractError("xor_lane (32-bit): unexpected declarations")
    out.append("/-- the interleaving network of the 32-bit xor_lane(): the two words xor-ed into `dst[0]`, `dst[1]` -/")
    out.append("def interleave32 (val : UInt64) : UInt32 × UInt32 :=")
    res = {}
    for st in stm[2:]:
        s2 = st.replace(" ", "")
        if s2 == "x0=val":
            out.append("  let x0 : UInt32 := val.toUInt32")
            continue
        if s2 == "x1=val>>32":
            out.append("  let x1 : UInt32 := (val >>> 32).toUInt32")
            continue
        m = re.fullmatch(r"dst\[([01])\]\^=(.*)", s2)
        if m:
            _, e, _ = parse_stmt("d = " + st.split("^=", 1)[1], 32, "-")
            res[int(m.group(1))] = e
            continue
        lhs, e, _ = parse_stmt(st, 32, "-")
        out.append("  let %s := %s" % (lhs, e))
    if sorted(res) != [0, 1]:
        raise ExtractError("xor_lane (32-bit): dst[0]/dst[1] updates not found")
    out.append("  (%s, %s)\n" % (res[0], res[1]))

    ex = _func(sec32, r"static\s+void\s+extract\s*\([^)]*\)\s*\{")
    m = re.search(r"while\s*\(\s*laneCount--\s*\)\s*\{(.*)\}", ex, flags=re.S)
    if not m:
        raise ExtractError("extract (32-bit): loop not found")
    stm = [s.strip() for s in m.group(1).split(";") if s.strip()]
    if [s.replace(" ", "") for s in stm[:2]] != ["x0=*src++", "x1=*src++"] or \
            [s.replace(" ", "") for s in stm[-3:]] != ["le32enc(dst+0,x0)", "le32enc(dst+4,x1)", "dst+=8"]:
        raise ExtractError("extract (32-bit): unexpected loop shape")
    out.append("/-- the de-interleaving network of the 32-bit extract(): state words `w0`, `w1` to the lane written out\n"
               "    little-endian (`le32enc(dst, x0); le32enc(dst + 4, x1)`) -/")
    out.append("def deinterleave32 (w0 w1 : UInt32) : UInt64 :=")
    out.append("  let x0 := w0\n  let x1 := w1")
    for st in stm[2:-3]:
        lhs, e, _ = parse_stmt(st, 32, "-")
        out.append("  let %s := %s" % (lhs, e))
    out.append("  x0.toUInt64 ||| (x1.toUInt64 <<< 32)\n")
    out.append("end Usual.Gen.C05\n")
    return "\n".join(out)


if __name__ == "__main__":
    import sys
    sys.stdout.write(generate(sys.argv[1] if len(sys.argv) > 1 else "/repo"))
