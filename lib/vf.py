"""Shared machinery for the libusual Lean-4 verification checks.

Every property check (checks/Cxx.py) is a function `run(ck: Check)` that uses the helpers
here to
  1. scan the Lean tree for forbidden constructs (sorry, axiom, native_decide, ...),
  2. regenerate whatever is extracted from /repo's *current* sources (tables, translated
     leaf functions) into lean/Usual/Gen/,
  3. build the property's theorem modules and its model driver with lake (serialised by a
     file lock), and audit the axioms of every property theorem,
  4. compile the C harness from /repo's working-tree sources (ASan+UBSan),
  5. run model and implementation on the same op lines and diff the output streams,
  6. on a difference: shrink, classify (observable / internal), match against
     known_findings.json, write the replay, print the VIOLATION line,
  7. write evidence/<id>.json from the counters measured in this run.

Nothing here is specific to one property.
"""
import fcntl
import hashlib
import json
import os
import re
import shutil
import subprocess
import sys
import time

VERIF = os.path.dirname(os.path.dirname(os.path.abspath(__file__)))
REPO = os.environ.get("VERIF_REPO", "/repo")
LEAN = os.path.join(VERIF, "lean")
BUILD = os.path.join(VERIF, "build")
EVID = os.path.join(VERIF, "evidence")
HARNESS = os.path.join(VERIF, "harness")
CORPUS = os.path.join(VERIF, "corpus")
KNOWN = os.path.join(VERIF, "known_findings.json")

SAN_FLAGS = ["-O1", "-g", "-fsanitize=address,undefined", "-fno-sanitize-recover=all",
             "-fno-omit-frame-pointer"]
STD_AXIOMS = {"propext", "Classical.choice", "Quot.sound"}

FORBIDDEN = re.compile(
    r"\b(sorry|admit|native_decide|implemented_by|unsafe|bv_decide)\b|^\s*axiom\s|maxHeartbeats\s+0\b")


def log(*a):
    print(*a, flush=True)


class ViolationFound(Exception):
    pass


class Check:
    def __init__(self, pid, tier, seed, replay=None):
        self.pid = pid
        self.tier = tier
        self.seed = seed
        self.replay = replay
        self.t0 = time.time()
        # runs against a scratch copy (VERIF_REPO) get their own build directory and do not
        # touch evidence/: they must not collide with a run against /repo itself
        self.scratch = os.path.realpath(REPO) != "/repo"
        suffix = ("-" + hashlib.sha1(os.path.realpath(REPO).encode()).hexdigest()[:8]) if self.scratch else ""
        self.bdir = os.path.join(BUILD, pid + suffix)
        os.makedirs(self.bdir, exist_ok=True)
        os.makedirs(os.path.join(BUILD, "replay"), exist_ok=True)
        os.makedirs(EVID, exist_ok=True)
        self.level = "proof"
        self.violations = []          # list of dicts (unlisted violations)
        self.known_hits = []          # list of strings
        self.cov = {"evaluations": 0, "distinct_nontrivial": 0, "rule": "", "samples": [],
                    "obligations": 0, "discharged": 0, "checker_cmd": "", "trusted_base": []}
        self.assumptions = []
        self.broken = []              # names of theorems / ties that no longer check
        self.proof_ok = True
        self.theorems = {}            # name -> axioms list
        self._distinct = set()
        self._known = load_known()

    # ------------------------------------------------------------------ misc
    def quick(self):
        return self.tier == "quick"

    def scale(self, q, t):
        return q if self.tier == "quick" else t

    def sample(self, s, limit=6):
        if len(self.cov["samples"]) < limit:
            self.cov["samples"].append(s)

    def count(self, n=1):
        self.cov["evaluations"] += n

    def distinct(self, key):
        """register a distinct non-trivial case (hashed to keep memory small)"""
        self._distinct.add(hashlib.blake2b(repr(key).encode(), digest_size=8).digest())

    # ------------------------------------------------------------- integrity
    def forbid_scan(self, allow_bv_decide_in=("Bridge",), modules=None):
        """grep the Lean sources this property depends on (transitive imports, inside the
        project, of its theorem modules and its driver) for constructs that would void the
        proofs.  Called without `modules` it only arms the scan; `build_proofs` then runs it on
        the import closure of what it builds."""
        if modules is None:
            self._scan_armed = allow_bv_decide_in
            return []
        files = import_closure(modules)
        hits = []
        for p in sorted(files):
            txt = strip_lean_comments(open(p, encoding="utf-8").read())
            for i, line in enumerate(txt.split("\n"), 1):
                m = FORBIDDEN.search(line)
                if not m:
                    continue
                tok = (m.group(1) or m.group(0)).strip()
                if tok == "bv_decide" and any(a in p for a in allow_bv_decide_in):
                    continue
                hits.append(f"{os.path.relpath(p, VERIF)}:{i}: {line.strip()[:100]}")
        self.cov["forbidden_scan_files"] = len(files)
        self.cov["forbidden_scan_hits"] = len(hits)
        if hits:
            self.broken.append("forbidden construct in Lean sources of this property: " + "; ".join(hits[:5]))
            self.proof_ok = False
        return hits

    # ------------------------------------------------------------------ lean
    def lake(self, targets, timeout=3600):
        """lake build <targets> under the project lock. returns (ok, output)"""
        t = time.time()
        with open(os.path.join(LEAN, ".lake-lock"), "w") as lk:
            fcntl.flock(lk, fcntl.LOCK_EX)
            p = subprocess.run(["lake", "build"] + list(targets), cwd=LEAN,
                               stdout=subprocess.PIPE, stderr=subprocess.STDOUT, text=True,
                               timeout=timeout)
        self.cov.setdefault("lake_s", 0.0)
        self.cov["lake_s"] = round(self.cov["lake_s"] + time.time() - t, 2)
        return p.returncode == 0, p.stdout

    def build_proofs(self, prop_modules, extra_modules=(), driver=None):
        """Build the theorem modules (+ driver exe). prop_modules: modules whose `theorem`s
        are the proof obligations of this property (Props file and Bridge files)."""
        targets = list(prop_modules) + list(extra_modules)
        scan_mods = list(targets)
        if driver and driver.startswith("drv_c"):
            scan_mods.append("Driver.C" + driver[5:])
        self.forbid_scan(getattr(self, "_scan_armed", ("Bridge",)), modules=scan_mods)
        ok, out = self.lake(targets)
        self.cov["checker_cmd"] = "cd lean && lake build " + " ".join(targets) + \
            " && lake env lean <generated #print axioms audit>"
        if not ok:
            self.proof_ok = False
            errs = [l for l in out.split("\n") if "error" in l.lower()][:8]
            self.broken.append("lake build failed: " + " | ".join(errs))
            self.cov["lake_errors"] = errs
            self.lake_out = out
        dok = True
        if driver:
            dok, dout = self.lake([driver])
            if not dok:
                self.broken.append("driver build failed: " + dout[-400:])
        # obligations = theorems found in the property modules
        names = []
        for m in prop_modules:
            names += theorems_in(module_path(m))
        self.cov["obligations"] = len(names)
        if ok:
            self.audit(prop_modules, names)
        else:
            # try module by module so that we can still say which obligations hold
            good = []
            for m in prop_modules:
                ok1, _ = self.lake([m])
                if ok1:
                    good.append(m)
                else:
                    self.broken.append("module does not check: " + m)
            gnames = []
            for m in good:
                gnames += theorems_in(module_path(m))
            if good:
                self.audit(good, gnames)
        return ok and dok

    def audit(self, modules, names):
        """#print axioms for every theorem; count as discharged those depending only on the
        standard axioms (plus per-theorem bv_decide axioms in Bridge modules, counted)."""
        src = "".join(f"import {m}\n" for m in modules)
        src += "".join(f"#print axioms {n}\n" for n in names)
        ap = os.path.join(self.bdir, "Audit.lean")
        open(ap, "w").write(src)
        p = subprocess.run(["lake", "env", "lean", ap], cwd=LEAN, stdout=subprocess.PIPE,
                           stderr=subprocess.STDOUT, text=True)
        out = p.stdout
        res = {}
        # outputs: "'X' depends on axioms: [a, b]" or "'X' does not depend on any axioms"
        for m in re.finditer(r"'(\S+)' (does not depend on any axioms|depends on axioms: \[([^\]]*)\])",
                             out.replace("\n", " ")):
            ax = [a.strip() for a in (m.group(3) or "").split(",") if a.strip()]
            res[m.group(1)] = ax
        bad = []
        nbv = 0
        for n in names:
            if n not in res:
                bad.append(n + " (no audit output)")
                continue
            extra = [a for a in res[n] if a not in STD_AXIOMS]
            bv = [a for a in extra if "_native.bv_decide" in a]
            nbv += len(bv)
            other = [a for a in extra if a not in bv]
            if other or any("sorryAx" in a for a in res[n]):
                bad.append(f"{n} uses {other}")
        self.theorems.update(res)
        self.cov["discharged"] = len([n for n in names if n in res]) - len(bad)
        self.cov["bv_decide_axioms"] = nbv
        self.cov["theorems"] = [f"{n}: {','.join(res.get(n, ['?'])) or 'no axioms'}" for n in names]
        if bad:
            self.proof_ok = False
            self.broken.append("axiom audit: " + "; ".join(bad[:5]))
        return res

    def leanchecker(self, modules):
        """independent re-check of compiled modules (thorough tier)"""
        res = {}
        for m in modules:
            p = subprocess.run(["lake", "env", "leanchecker", m], cwd=LEAN,
                               stdout=subprocess.PIPE, stderr=subprocess.STDOUT, text=True)
            res[m] = p.returncode == 0
            if p.returncode != 0:
                self.proof_ok = False
                self.broken.append(f"leanchecker rejects {m}: {p.stdout[-300:]}")
        self.cov["leanchecker"] = res
        return res

    def driver_path(self, name):
        return os.path.join(LEAN, ".lake", "build", "bin", name)

    # --------------------------------------------------------------------- C
    def cc(self, out, sources, flags=(), include_repo=True, san=True, libs=(), cc="gcc",
           defines=("HAVE_CONFIG_H", "LIBUSUAL_VERIF")):
        """compile a harness from /repo's working-tree sources. `sources` entries starting
        with 'repo:' are taken relative to /repo."""
        srcs = [os.path.join(REPO, s[5:]) if s.startswith("repo:") else s for s in sources]
        cmd = [cc] + (SAN_FLAGS if san else ["-O2", "-g"]) + ["-w"]
        if include_repo:
            cmd += ["-I" + REPO]
        cmd += ["-I" + os.path.join(HARNESS, "common")]
        cmd += ["-D" + d for d in defines]
        cmd += list(flags) + srcs + ["-o", out] + list(libs)
        p = subprocess.run(cmd, stdout=subprocess.PIPE, stderr=subprocess.STDOUT, text=True)
        if p.returncode != 0:
            raise RuntimeError("harness compile failed:\n" + " ".join(cmd) + "\n" + p.stdout[-3000:])
        return out

    def run(self, cmd, stdin_path=None, stdout_path=None, timeout=3600, env=None, input_text=None):
        e = dict(os.environ)
        e.setdefault("ASAN_OPTIONS", "detect_leaks=0:abort_on_error=0:allocator_may_return_null=1")
        e.setdefault("UBSAN_OPTIONS", "print_stacktrace=1")
        if env:
            e.update(env)
        fin = open(stdin_path, "rb") if stdin_path else None
        fout = open(stdout_path, "wb") if stdout_path else subprocess.PIPE
        try:
            p = subprocess.run(cmd, stdin=fin, stdout=fout, stderr=subprocess.PIPE, timeout=timeout,
                               env=e, input=(input_text.encode() if input_text is not None else None))
            rc, err = p.returncode, p.stderr.decode(errors="replace")
            so = None if stdout_path else p.stdout.decode(errors="replace")
        except subprocess.TimeoutExpired as ex:
            rc, err, so = -999, "TIMEOUT after %ss" % timeout, (None if stdout_path else "")
        finally:
            if fin:
                fin.close()
            if stdout_path:
                fout.close()
        return rc, so, err

    # ------------------------------------------------------ stream comparison
    def both(self, harness_cmd, driver_cmd, ops_text, timeout=600):
        """run implementation harness and model driver on the same op lines; return
        (c_lines, m_lines, c_err). A crash of the harness is turned into an extra output
        line 'CRASH <signal/sanitizer summary>' so that it is a *result*."""
        rc, cout, cerr = self.run(harness_cmd, input_text=ops_text, timeout=timeout)
        c_lines = cout.split("\n")
        if c_lines and c_lines[-1] == "":
            c_lines.pop()
        if rc != 0:
            c_lines.append("CRASH rc=%d %s" % (rc, san_summary(cerr)))
        rc2, mout, merr = self.run(driver_cmd, input_text=ops_text, timeout=timeout)
        m_lines = mout.split("\n")
        if m_lines and m_lines[-1] == "":
            m_lines.pop()
        if rc2 != 0:
            m_lines.append("MODEL-CRASH rc=%d %s" % (rc2, merr[-200:]))
        return c_lines, m_lines, cerr

    def first_diff(self, c_lines, m_lines):
        """index of first differing line and its kind ('obs'|'int'), or None.
        Lines are 'observable ## internal'; the part after ' ## ' is the internal projection."""
        n = max(len(c_lines), len(m_lines))
        first_int = None
        for i in range(n):
            a = c_lines[i] if i < len(c_lines) else "<missing>"
            b = m_lines[i] if i < len(m_lines) else "<missing>"
            if a == b:
                continue
            ao, bo = a.split(" ## ")[0], b.split(" ## ")[0]
            if ao != bo:
                return i, "obs"
            if first_int is None:
                first_int = i
        if first_int is not None:
            return first_int, "int"
        return None

    def compare_cases(self, harness_cmd, driver_cmd, cases, label="", timeout=900,
                      nontrivial=None, shrink=True, max_failures=4, monitor=None):
        """cases: list of lists of op lines (each case starts from a fresh state; harness
        and driver both reset on the line '#case').  Runs all of them through both sides,
        and for each failing case (up to max_failures): shrinks, classifies, records.
        Returns the number of failing cases."""
        for c in cases:
            if nontrivial is None or nontrivial(c):
                self.distinct(tuple(c))
        self.count(len(cases))
        nfail = 0
        start = 0
        while start < len(cases) and nfail < max_failures:
            lines, idx = [], []
            for ci in range(start, len(cases)):
                lines.append("#case")
                idx.append(ci)
                for l in cases[ci]:
                    lines.append(l)
                    idx.append(ci)
            self.cov["op_lines"] = self.cov.get("op_lines", 0) + len(lines)
            c_lines, m_lines, cerr = self.both(harness_cmd, driver_cmd, "\n".join(lines) + "\n", timeout)
            if monitor is not None:
                # property monitor on the implementation's own output (independent of the
                # model): yields (line index, message) for lines that violate the property
                seen_cases = set()
                for li, msg, cls in monitor(lines, c_lines):
                    ci = idx[min(li, len(idx) - 1)]
                    if (ci, cls) in seen_cases or len(seen_cases) >= max_failures:
                        continue
                    seen_cases.add((ci, cls))
                    case = list(cases[ci])

                    def still(cand, cls=cls):
                        ls = ["#case"] + list(cand)
                        rc, cout, cerr = self.run(harness_cmd, input_text="\n".join(ls) + "\n", timeout=60)
                        co = cout.split("\n")
                        return any(c == cls for _, _, c in monitor(ls, co))
                    if shrink:
                        case = ddmin(case, still)
                    ls = ["#case"] + case
                    rc, cout, cerr = self.run(harness_cmd, input_text="\n".join(ls) + "\n", timeout=60)
                    msgs = [m for _, m, c in monitor(ls, cout.split("\n")) if c == cls]
                    self.report("obs", {"label": label + ":monitor", "ops": case, "class": cls,
                                        "monitor": msgs[0] if msgs else msg,
                                        "impl": cout.split("\n")[-8:]})
            d = self.first_diff(c_lines, m_lines)
            if d is None:
                break
            # prefer the first *observable* difference but handle the earliest failing case
            i, kind = d
            ci = idx[min(i, len(idx) - 1)]
            nfail += 1
            case = list(cases[ci])
            k0 = self.fails(harness_cmd, driver_cmd, case)
            if k0 is None:
                # not reproducible in isolation (state leaked between cases): keep the prefix
                case = [l for c in cases[start:ci + 1] for l in (["#case"] + list(c))][1:]
                k0 = kind
            elif shrink:
                case, k0 = self.shrink_case(harness_cmd, driver_cmd, case, k0)
            cl, ml, err = self.both(harness_cmd, driver_cmd, "#case\n" + "\n".join(case) + "\n", 120)
            self.report(k0, {"label": label, "ops": case, "impl": cl[-12:], "model": ml[-12:],
                             "stderr": san_summary(err)})
            start = ci + 1
        return nfail

    def fails(self, harness_cmd, driver_cmd, case):
        cl, ml, _ = self.both(harness_cmd, driver_cmd, "#case\n" + "\n".join(case) + "\n", 60)
        d = self.first_diff(cl, ml)
        return d[1] if d else None

    def shrink_case(self, harness_cmd, driver_cmd, case, kind, budget=300):
        """ddmin over op lines keeping a failure of the same kind (obs preferred)."""
        want = kind
        n = 2
        cur = list(case)
        runs = 0
        while len(cur) >= 2 and runs < budget:
            chunk = max(1, len(cur) // n)
            reduced = False
            for s in range(0, len(cur), chunk):
                cand = cur[:s] + cur[s + chunk:]
                if not cand:
                    continue
                runs += 1
                k = self.fails(harness_cmd, driver_cmd, cand)
                if k == want or (k == "obs"):
                    cur = cand
                    want = k
                    n = max(n - 1, 2)
                    reduced = True
                    break
                if runs >= budget:
                    break
            if not reduced:
                if chunk == 1:
                    break
                n = min(len(cur), n * 2)
        return cur, want

    # ------------------------------------------------------------- reporting
    def report(self, kind, replay, what=None):
        """kind: 'obs' = concrete input on which the implementation departs from the proved
        model on an observable the property pins (a real failing input);
        'int' / 'proof' = the tie or a theorem no longer checks but no failing input."""
        sig = json.dumps(replay, sort_keys=True, default=str)
        h = hashlib.sha1(sig.encode()).hexdigest()[:12]
        replay = dict(replay)
        replay["property"] = self.pid
        replay["kind"] = kind
        replay["seed"] = self.seed
        if what:
            replay["what"] = what
        k = match_known(self._known, self.pid, replay)
        if k is not None:
            msg = f"KNOWN-FINDING: property={self.pid} {k['what']}"
            if msg not in self.known_hits:
                self.known_hits.append(msg)
                log(msg)
            return False
        path = os.path.join(BUILD, "replay", f"{self.pid}-{h}.json")
        with open(path, "w") as f:
            json.dump(replay, f, indent=1, default=str)
        replay["_path"] = path
        self.violations.append(replay)
        return True

    def finish(self):
        """print verdict lines, write evidence, return exit code"""
        # broken proofs/ties without any concrete failing input
        concrete = [v for v in self.violations if v["kind"] == "obs"]
        rc = 0
        if concrete:
            for v in concrete[:3]:
                log(f"VIOLATION property={self.pid} replay={v['_path']}")
            rc = 1
        elif self.violations or self.broken or not self.proof_ok:
            path = os.path.join(BUILD, "replay", f"{self.pid}-unproved.json")
            with open(path, "w") as f:
                json.dump({"property": self.pid, "no_longer_checks": self.broken,
                           "internal_differences": [
                               {k: v for k, v in x.items() if k != "_path"} for x in self.violations[:3]],
                           "note": "the theorem/bridge/correspondence named here no longer checks; "
                                   "the search found no input on which the observable behaviour "
                                   "violates the property"}, f, indent=1, default=str)
            log(f"VIOLATION property={self.pid} replay={path} no-failing-input-found")
            rc = 1
        cov = self.cov
        cov["distinct_nontrivial"] = max(cov.get("distinct_nontrivial", 0), len(self._distinct))
        cov["broken"] = self.broken
        cov["known_findings_hit"] = self.known_hits
        ev = {"property_id": self.pid, "tier": self.tier, "seed": self.seed, "level": self.level,
              "coverage": cov, "assumptions": self.assumptions,
              "wall_s": round(time.time() - self.t0, 2), "violations": len(self.violations) + (1 if (self.broken and not self.violations) else 0)}
        if not cov["samples"]:
            cov["samples"] = ["(none recorded)"]
        evpath = os.path.join(self.bdir, "evidence.json") if self.scratch else os.path.join(EVID, self.pid + ".json")
        with open(evpath, "w") as f:
            json.dump(ev, f, indent=1, default=str)
        log(f"[{self.pid}] tier={self.tier} seed={self.seed} obligations={cov['obligations']} "
            f"discharged={cov['discharged']} evaluations={cov['evaluations']} "
            f"distinct={cov['distinct_nontrivial']} violations={len(self.violations)} "
            f"known={len(self.known_hits)} wall={ev['wall_s']}s rc={rc}")
        return rc


# ---------------------------------------------------------------------- helpers
def strip_lean_comments(txt):
    """remove /- ... -/ (nested) and -- comments; keeps line structure"""
    out = []
    i, n, depth = 0, len(txt), 0
    in_str = False
    while i < n:
        c = txt[i]
        two = txt[i:i + 2]
        if depth == 0 and not in_str and c == '"':
            in_str = True
            out.append(c)
            i += 1
        elif in_str:
            if c == "\\":
                out.append(txt[i:i + 2])
                i += 2
                continue
            if c == '"':
                in_str = False
            out.append(c)
            i += 1
        elif two == "/-":
            depth += 1
            i += 2
        elif two == "-/" and depth > 0:
            depth -= 1
            i += 2
        elif depth > 0:
            if c == "\n":
                out.append(c)
            i += 1
        elif two == "--":
            while i < n and txt[i] != "\n":
                i += 1
        else:
            out.append(c)
            i += 1
    return "".join(out)


def import_closure(modules):
    """files of the project's own modules reachable through `import` from `modules`"""
    seen, todo = set(), list(modules)
    while todo:
        m = todo.pop()
        p = module_path(m)
        if p in seen or not os.path.exists(p):
            continue
        seen.add(p)
        for line in open(p, encoding="utf-8"):
            mm = re.match(r"^\s*(?:public\s+)?import\s+(?:all\s+)?([A-Za-z0-9_.']+)", line)
            if mm and mm.group(1).split(".")[0] in ("Usual", "UsualProofs", "Driver"):
                todo.append(mm.group(1))
    return seen


def module_path(mod):
    return os.path.join(LEAN, *mod.split(".")) + ".lean"


def theorems_in(path):
    """fully qualified names of the `theorem`s of a Lean file (tracks namespace/end)"""
    txt = strip_lean_comments(open(path, encoding="utf-8").read())
    ns = []
    names = []
    for line in txt.split("\n"):
        m = re.match(r"^\s*namespace\s+(\S+)", line)
        if m:
            ns.append(m.group(1))
            continue
        m = re.match(r"^\s*end\s+(\S+)\s*$", line)
        if m and ns and ns[-1] == m.group(1):
            ns.pop()
            continue
        m = re.match(r"^\s*(?:@\[[^\]]*\]\s*)*(?:private\s+|protected\s+)?theorem\s+([^\s:({\[]+)", line)
        if m:
            nm = m.group(1)
            if nm.startswith("_root_."):
                names.append(nm[7:])
            else:
                names.append(".".join(ns + [nm]))
    return names


def san_summary(err):
    if not err:
        return ""
    m = re.search(r"(ERROR: AddressSanitizer: [^\n]*|runtime error: [^\n]*|SUMMARY: [^\n]*|TIMEOUT[^\n]*)", err)
    s = m.group(1) if m else err.strip().split("\n")[-1]
    s = re.sub(r"0x[0-9a-f]+", "0x..", s)
    return s[:200]


def load_known():
    try:
        return json.load(open(KNOWN))
    except FileNotFoundError:
        return {"known": [], "fixed": []}


def match_known(known, pid, replay):
    """An entry matches when property is equal and every string in entry['match_all'] occurs
    in the JSON text of the (minimised) replay, and none of entry['match_none'] does."""
    txt = json.dumps(replay, sort_keys=True, default=str)
    for k in known.get("known", []):
        if k["property"] != pid:
            continue
        if "class" in k and replay.get("class") != k["class"]:
            continue
        if all(s in txt for s in k.get("match_all", [])) and \
                not any(s in txt for s in k.get("match_none", [])):
            if "max_ops" in k and len(replay.get("ops", [])) > k["max_ops"]:
                continue
            return k
    return None


class SplitMix:
    """splitmix64, the only source of randomness (seeded from VERIF_SEED)"""
    M = (1 << 64) - 1

    def __init__(self, seed):
        # hash the seed first: with a plain multiple of the increment, the streams of
        # consecutive seeds would be the same stream shifted by one draw
        z = (seed * 0xD6E8FEB86659FD93 + 0x1234567) & self.M
        z = ((z ^ (z >> 32)) * 0xD6E8FEB86659FD93) & self.M
        self.s = (z ^ (z >> 32)) & self.M

    def next(self):
        self.s = (self.s + 0x9E3779B97F4A7C15) & self.M
        z = self.s
        z = ((z ^ (z >> 30)) * 0xBF58476D1CE4E5B9) & self.M
        z = ((z ^ (z >> 27)) * 0x94D049BB133111EB) & self.M
        return z ^ (z >> 31)

    def below(self, n):
        return self.next() % n if n > 0 else 0

    def choice(self, seq):
        return seq[self.below(len(seq))]

    def chance(self, num, den):
        return self.below(den) < num

    def bytes(self, n):
        return bytes(self.below(256) for _ in range(n))


def hexs(b):
    return b.hex() if len(b) else "-"


def corpus_cases(pid):
    """minimised past failures / hand-written boundary cases: corpus/<pid>/*.ops, one case
    per file, run first on every check"""
    d = os.path.join(CORPUS, pid)
    out = []
    if os.path.isdir(d):
        for f in sorted(os.listdir(d)):
            if f.endswith(".ops"):
                out.append([l for l in open(os.path.join(d, f)).read().split("\n")
                            if l and not l.startswith("#")])
    return out


def repo_file(rel):
    return os.path.join(REPO, rel)


def write_if_changed(path, text):
    old = None
    if os.path.exists(path):
        old = open(path, encoding="utf-8").read()
    if old != text:
        os.makedirs(os.path.dirname(path), exist_ok=True)
        with open(path, "w", encoding="utf-8") as f:
            f.write(text)
        return True
    return False


def git_committed(path_rel_to_verif):
    p = subprocess.run(["git", "-C", VERIF, "show", "HEAD:" + path_rel_to_verif],
                       stdout=subprocess.PIPE, stderr=subprocess.DEVNULL)
    return p.stdout.decode() if p.returncode == 0 else None


def ddmin(items, pred, budget=400):
    """delta debugging: smallest sub-sequence of `items` (found within budget) with pred true"""
    cur = list(items)
    n = 2
    runs = 0
    while len(cur) >= 2 and runs < budget:
        chunk = max(1, len(cur) // n)
        reduced = False
        for st in range(0, len(cur), chunk):
            cand = cur[:st] + cur[st + chunk:]
            if not cand:
                continue
            runs += 1
            if pred(cand):
                cur = cand
                n = max(n - 1, 2)
                reduced = True
                break
            if runs >= budget:
                break
        if not reduced:
            if chunk == 1:
                break
            n = min(len(cur), n * 2)
    return cur


def generic_replay(ck, path, harness_cmd, driver_cmd):
    """re-run the op lines of a replay file on implementation and model; print both outputs.
    exit code 1 if they still differ (observable or internal), 0 otherwise."""
    r = json.load(open(path))
    ops = r.get("ops")
    if not ops:
        log("replay file names no op sequence (no-failing-input-found case):")
        log(json.dumps(r, indent=1)[:2000])
        return 1
    cl, ml, err = ck.both(harness_cmd, driver_cmd, "#case\n" + "\n".join(ops) + "\n", 300)
    d = ck.first_diff(cl, ml)
    for i, op in enumerate(["#case"] + list(ops)):
        a = cl[i] if i < len(cl) else "<missing>"
        b = ml[i] if i < len(ml) else "<missing>"
        log(f"{'!!' if a != b else '  '} {op}\n      impl : {a}\n      model: {b}")
    for extra in cl[len(ops) + 1:]:
        log("   impl extra: " + extra)
    if d is None:
        log("replay: implementation and model agree on this input now")
        return 0
    log(f"replay: first difference at line {d[0]} ({'observable' if d[1] == 'obs' else 'internal only'})")
    log(f"VIOLATION property={ck.pid} replay={path}")
    return 1


def chunks(seq, n):
    for i in range(0, len(seq), n):
        yield seq[i:i + n]
