/* C16 harness — non-cryptographic hashes of /repo/usual/hashing, called in-process.
 *
 * Same line protocol as lean/Driver/C16.lean.  Every hash op is evaluated at NPLACE = 32
 * placements of the same bytes inside an arena that lies between two PROT_NONE pages:
 *
 *   L0..L15   buffer starts s bytes after the left guard page  (s = 0: flush left)
 *   R0..R15   buffer ends   s bytes before the right guard page (s = 0: flush right)
 *
 * so every start alignment 0..15 occurs for every length on both sides.  The part of the
 * arena outside [data, data+len) is filled with fresh garbage near the buffer and then
 * ASan-poisoned (exact at the right edge for every alignment; at the left edge up to the
 * 8-byte shadow granule), the guard pages give a hardware fault at s = 0 in any build.
 * A read outside the buffer therefore aborts the harness (vf turns that into a CRASH line).
 *
 * The observable line is
 *   <value>                         all placements agree, and agree with the independent
 *                                   from-the-publication implementation in refs.h
 *   IMPURE <v-at-L0> <v> <place>    result depends on address / alignment / surroundings
 *   REFDIFF <impl> <ref>            deterministic but not the published algorithm
 *   INCDIFF <split> <inc> <oneshot> crcinc only: incremental identity fails
 * `touch` calls every other public entry point of usual/hashing (memhash, memhash_string,
 * siphash24_secure, …) and the measured ones with other arguments: values measured afterwards in
 * the same process must still be the model's (history independence is part of purity).
 * `mem32` runs the XXH32 branch of memhash_seed (memhash_narrow.c: a 32-bit build's choice).
 * For `spooky` both builds of spooky.c are run at every placement: the one /repo's
 * configuration selects (direct unaligned reads) and the strict-alignment variant
 * (spooky_noua.c); they must agree as well.
 */
#define _GNU_SOURCE
#include "hcommon.h"
#include "refs.h"
#include <sys/mman.h>
#include <sys/wait.h>
#include <unistd.h>
#include <signal.h>
#include <fcntl.h>

#include <usual/hashing/crc32.h>
#include <usual/hashing/lookup3.h>
#include <usual/hashing/siphash.h>
#include <usual/hashing/spooky.h>
#include <usual/hashing/xxhash.h>
#include <usual/hashing/memhash.h>

void spookyhash_noua(const void *message, size_t length, uint64_t *hash1, uint64_t *hash2);
uint32_t memhash_seed_narrow(const void *data, size_t len, uint32_t seed);
uint32_t memhash_narrow(const void *data, size_t len);
uint32_t memhash_string_narrow(const char *s);

#if defined(__SANITIZE_ADDRESS__)
#include <sanitizer/asan_interface.h>
#define POISON(p, n)   ASAN_POISON_MEMORY_REGION((p), (n))
#define UNPOISON(p, n) ASAN_UNPOISON_MEMORY_REGION((p), (n))
#define HAVE_ASAN 1
#else
#define POISON(p, n)   ((void)0)
#define UNPOISON(p, n) ((void)0)
#define HAVE_ASAN 0
#endif

/* csrandom() is referenced by siphash24_secure/memhash (not under test) */
/* deterministic, never zero, different on every call */
static uint32_t csr_state = 0x9E3779B9u;
uint32_t csrandom(void) { csr_state = csr_state * 1664525u + 1013904223u; return csr_state | 1u; }

#define PAGE 4096
#define NPLACE 32
#define GARBAGE 64

struct Arena { uint8_t *lo, *hi; };		/* usable bytes [lo, hi), guard pages at lo-PAGE and hi */
static struct Arena arenas[3];
static const size_t arena_pages[3] = { 1, 2, 18 };

static void arena_init(void)
{
	int i;
	for (i = 0; i < 3; i++) {
		size_t n = arena_pages[i] * PAGE;
		uint8_t *m = mmap(NULL, n + 2 * PAGE, PROT_READ | PROT_WRITE, MAP_PRIVATE | MAP_ANONYMOUS, -1, 0);
		if (m == MAP_FAILED) { perror("mmap"); exit(3); }
		if (mprotect(m, PAGE, PROT_NONE) || mprotect(m + PAGE + n, PAGE, PROT_NONE)) { perror("mprotect"); exit(3); }
		arenas[i].lo = m + PAGE;
		arenas[i].hi = m + PAGE + n;
		memset(arenas[i].lo, 0xA5, n);
	}
}

static struct Arena *arena_for(size_t len)
{
	int i;
	for (i = 0; i < 3; i++)
		if ((size_t)(arenas[i].hi - arenas[i].lo) >= len + 16)
			return &arenas[i];
	return NULL;
}

static uint64_t gstate = 0x243F6A8885A308D3ULL;
static inline uint8_t garbage(void)
{
	gstate ^= gstate << 13; gstate ^= gstate >> 7; gstate ^= gstate << 17;
	return (uint8_t)(gstate >> 32);
}

/* place bytes at placement k; returns the data pointer, arena left poisoned around it */
static uint8_t *place(struct Arena *a, const uint8_t *bytes, size_t len, int k)
{
	uint8_t *d, *p, *e;
	size_t s = k & 15;
	UNPOISON(a->lo, a->hi - a->lo);
	d = (k < 16) ? a->lo + s : a->hi - s - len;
	p = (d - a->lo > GARBAGE) ? d - GARBAGE : a->lo;
	for (; p < d; p++) *p = garbage();
	e = ((size_t)(a->hi - (d + len)) > GARBAGE) ? d + len + GARBAGE : a->hi;
	for (p = d + len; p < e; p++) *p = garbage();
	if (len) memcpy(d, bytes, len);
	if (d > a->lo) POISON(a->lo, d - a->lo);
	if (d + len < a->hi) POISON(d + len, a->hi - (d + len));
	return d;
}

static void unplace(struct Arena *a) { UNPOISON(a->lo, a->hi - a->lo); }

/* ------------------------------------------------------------------ functions under test */
struct Val { uint64_t a, b; };
typedef struct Val (*hfn)(const uint8_t *p, size_t n, const uint64_t *arg);

static struct Val f_crc(const uint8_t *p, size_t n, const uint64_t *arg)
{ struct Val v = { calc_crc32(p, n, (uint32_t)arg[0]), 0 }; return v; }
static struct Val f_l3(const uint8_t *p, size_t n, const uint64_t *arg)
{ struct Val v = { hash_lookup3(p, n), 0 }; return v; }
static struct Val f_sip(const uint8_t *p, size_t n, const uint64_t *arg)
{ struct Val v = { siphash24(p, n, arg[0], arg[1]), 0 }; return v; }
static struct Val f_spooky(const uint8_t *p, size_t n, const uint64_t *arg)
{ struct Val v = { arg[0], arg[1] }; spookyhash(p, n, &v.a, &v.b); return v; }
static struct Val f_spooky_noua(const uint8_t *p, size_t n, const uint64_t *arg)
{ struct Val v = { arg[0], arg[1] }; spookyhash_noua(p, n, &v.a, &v.b); return v; }
static struct Val f_xxh(const uint8_t *p, size_t n, const uint64_t *arg)
{ struct Val v = { xxhash(p, n, (uint32_t)arg[0]), 0 }; return v; }
static struct Val f_mem(const uint8_t *p, size_t n, const uint64_t *arg)
{ struct Val v = { memhash_seed(p, n, (uint32_t)arg[0]), 0 }; return v; }

static struct Val f_mem32(const uint8_t *p, size_t n, const uint64_t *arg)
{ struct Val v = { memhash_seed_narrow(p, n, (uint32_t)arg[0]), 0 }; return v; }

static struct Val r_crc(const uint8_t *p, size_t n, const uint64_t *arg)
{ struct Val v = { ref_crc32(p, n, (uint32_t)arg[0]), 0 }; return v; }
static struct Val r_l3(const uint8_t *p, size_t n, const uint64_t *arg)
{ struct Val v = { ref_lookup3(p, n), 0 }; return v; }
static struct Val r_sip(const uint8_t *p, size_t n, const uint64_t *arg)
{ struct Val v = { ref_siphash24(p, n, arg[0], arg[1]), 0 }; return v; }
static struct Val r_spooky(const uint8_t *p, size_t n, const uint64_t *arg)
{ struct Val v = { arg[0], arg[1] }; ref_spooky128(p, n, &v.a, &v.b); return v; }
static struct Val r_xxh(const uint8_t *p, size_t n, const uint64_t *arg)
{ struct Val v = { ref_xxh32(p, n, (uint32_t)arg[0]), 0 }; return v; }
static struct Val r_mem(const uint8_t *p, size_t n, const uint64_t *arg)
{
	struct Val v;
	if (sizeof(void *) == 8 || sizeof(long) == 8) {
		uint64_t h0 = (uint32_t)arg[0], h1 = 0;
		ref_spooky128(p, n, &h0, &h1);
		v.a = (uint32_t)h0;
	} else {
		v.a = ref_xxh32(p, n, (uint32_t)arg[0]);
	}
	v.b = 0;
	return v;
}

enum Kind { K32, K64, K128 };
static void putval(enum Kind k, struct Val v)
{
	if (k == K32) printf("%08x", (unsigned)v.a);
	else if (k == K64) printf("%016llx", (unsigned long long)v.a);
	else printf("%016llx %016llx", (unsigned long long)v.a, (unsigned long long)v.b);
}

static unsigned long n_calls;

/* evaluate fn (and optionally a second build fn2) at all placements.  returns 0 and *out when
 * pure; otherwise prints the IMPURE line and returns -1 */
static int eval(enum Kind kind, hfn fn, hfn fn2, const uint8_t *bytes, size_t len,
		const uint64_t *arg, struct Val *out)
{
	struct Arena *a = arena_for(len);
	struct Val first = { 0, 0 };
	int k;
	if (!a) { printf("bad-op"); return -1; }
	for (k = 0; k < NPLACE; k++) {
		const uint8_t *d = place(a, bytes, len, k);
		struct Val v = fn(d, len, arg), v2 = v;
		n_calls++;
		if (fn2) { v2 = fn2(d, len, arg); n_calls++; }
		unplace(a);
		if (k == 0) first = v;
		if (v.a != first.a || v.b != first.b || v2.a != first.a || v2.b != first.b) {
			printf("IMPURE ");
			putval(kind, first);
			printf(" ");
			putval(kind, (v.a != first.a || v.b != first.b) ? v : v2);
			printf(" %c%d%s", k < 16 ? 'L' : 'R', k & 15,
			       (v.a != first.a || v.b != first.b) ? "" : " strict-alignment-build");
			return -1;
		}
	}
	*out = first;
	return 0;
}

static void run_op(enum Kind kind, hfn fn, hfn fn2, hfn ref, const uint8_t *bytes, size_t len,
		   const uint64_t *arg)
{
	struct Val v, r;
	if (eval(kind, fn, fn2, bytes, len, arg, &v) < 0)
		return;
	r = ref(bytes, len, arg);
	if (r.a != v.a || r.b != v.b) {
		printf("REFDIFF ");
		putval(kind, v);
		printf(" ");
		putval(kind, r);
		return;
	}
	putval(kind, v);
}

/* ------------------------------------------------------------------------------ history */
/* `touch`: call every public entry point of usual/hashing/*.h — in particular the ones that
 * are not measured (memhash, memhash_string, siphash24_secure keep process-wide state) and the
 * measured ones with other seeds/keys and other data — so that anything a function could
 * remember from an earlier call has been set.  The hashes are pure functions of their
 * arguments, so every value measured after a `touch` must still be the model's value. */
static volatile uint64_t touch_sink;
static unsigned long n_touch;
static void touch_all(const uint8_t *buf, size_t len)
{
	static const char str[] = "history must not matter";
	uint8_t scratch[257];
	uint64_t a, b, acc = 0;
	size_t i, n;
	n_touch++;
	for (i = 0; i < sizeof scratch; i++) scratch[i] = (uint8_t)(i * 37 + n_touch);
	acc += memhash(buf, len);
	acc += memhash(scratch, sizeof scratch);
	acc += memhash_string(str);
	acc += memhash_narrow(buf, len);
	acc += memhash_string_narrow(str);
	acc += siphash24_secure(buf, len);
	acc += siphash24_secure(scratch, 13);
	for (n = 0; n <= sizeof scratch; n += (n < 34 ? 1 : 31)) {
		uint32_t s32 = csrandom();
		uint64_t k0 = ((uint64_t)csrandom() << 32) | csrandom(), k1 = ~k0 * 3;
		acc += calc_crc32(scratch, n, s32);
		acc += hash_lookup3(scratch, n);
		acc += siphash24(scratch, n, k0, k1);
		a = k0; b = k1; spookyhash(scratch, n, &a, &b); acc += a ^ b;
		a = k1; b = k0; spookyhash_noua(scratch, n, &a, &b); acc += a ^ b;
		acc += xxhash(scratch, n, s32);
		acc += memhash_seed(scratch, n, s32);
		acc += memhash_seed_narrow(scratch, n, ~s32);
	}
	touch_sink = acc;
}

/* ---------------------------------------------------------------------------- parsing */
static int hexnum(const char *s, int maxdigits, uint64_t *out)
{
	uint64_t v = 0;
	int n = 0;
	if (!*s) return -1;
	for (; *s; s++, n++) {
		int d = hc_hexval((unsigned char)*s);
		if (d < 0 || n >= maxdigits) return -1;
		v = v * 16 + d;
	}
	*out = v;
	return 0;
}
static int decnum(const char *s, uint64_t *out)
{
	uint64_t v = 0;
	int n = 0;
	if (!*s) return -1;
	for (; *s; s++, n++) {
		if (*s < '0' || *s > '9' || n >= 9) return -1;
		v = v * 10 + (*s - '0');
	}
	*out = v;
	return 0;
}

/* ---------------------------------------------------------------------------- self test */
/* each probe runs in a child that must die: proves that a read outside the buffer is fatal */
static int dies(int which)
{
	pid_t pid = fork();
	int st;
	if (pid == 0) {
		struct Arena *a = arena_for(100);
		static uint8_t bytes[100];
		volatile uint8_t sink;
		const uint8_t *d;
		int fd = open("/dev/null", 1);
		dup2(fd, 2);
		switch (which) {
		case 0: d = place(a, bytes, 100, 16); sink = d[100]; break;		/* R0: right guard page */
		case 1: d = place(a, bytes, 100, 0); sink = d[-1]; break;		/* L0: left guard page */
		case 2: d = place(a, bytes, 100, 16 + 5); sink = d[100]; break;	/* R5: poisoned slack, right */
		case 3: d = place(a, bytes, 100, 3); sink = d[100]; break;		/* L3: poisoned, right */
		case 4: d = place(a, bytes, 100, 8); sink = d[-1]; break;		/* L8: poisoned slack, left */
		case 5: d = place(a, bytes, 100, 7); sink = d[99]; sink = d[0]; _exit(0);	/* inside: must live */
		}
		(void)sink;
		_exit(0);
	}
	waitpid(pid, &st, 0);
	return !(WIFEXITED(st) && WEXITSTATUS(st) == 0);
}

int main(int argc, char **argv)
{
	uint8_t *buf = NULL;
	long blen = -1;
	char *line;

	arena_init();
	if (argc > 1 && strcmp(argv[1], "--info") == 0) {
		printf("{\"placements\": %d, \"asan\": %d, \"page\": %d, \"spooky_builds\": 2}\n",
		       NPLACE, HAVE_ASAN, PAGE);
		return 0;
	}
	if (argc > 1 && strcmp(argv[1], "--selftest") == 0) {
		int g0 = dies(0), g1 = dies(1), p2 = dies(2), p3 = dies(3), p4 = dies(4), in = dies(5);
		printf("{\"guard_right\": %d, \"guard_left\": %d, \"poison_right_R5\": %d, "
		       "\"poison_right_L3\": %d, \"poison_left_L8\": %d, \"inside_ok\": %d}\n",
		       g0, g1, p2, p3, p4, !in);
		return (g0 && g1 && !in && (!HAVE_ASAN || (p2 && p3 && p4))) ? 0 : 1;
	}

	while ((line = hc_line()) != NULL) {
		char *w[8];
		int nw;
		uint64_t arg[2] = { 0, 0 };
		if (strcmp(line, "#case") == 0) {
			free(buf); buf = NULL; blen = -1;
			puts("#case");
			continue;
		}
		nw = hc_words(line, w, 8);
		if (nw == 2 && strcmp(w[0], "data") == 0) {
			uint8_t *nb;
			long n = hc_unhex(w[1], &nb);
			if (n < 0) { puts("bad-op"); continue; }
			free(buf); buf = nb; blen = n;
			printf("ok %ld\n", n);
			continue;
		}
		if (nw == 0 || blen < 0) { puts("bad-op"); continue; }
		fflush(stdout);		/* keep what was printed so far if the next call faults */
		if (strcmp(w[0], "touch") == 0 && nw == 1) {
			touch_all(buf, blen);
			printf("touched");
		} else if (strcmp(w[0], "crc") == 0 && nw == 2 && hexnum(w[1], 8, &arg[0]) == 0) {
			run_op(K32, f_crc, NULL, r_crc, buf, blen, arg);
		} else if (strcmp(w[0], "crcinc") == 0 && nw == 3 && decnum(w[1], &arg[1]) == 0
			   && hexnum(w[2], 8, &arg[0]) == 0 && arg[1] <= (uint64_t)blen) {
			size_t k = arg[1];
			struct Val v1, v2, one;
			uint64_t a2[2] = { 0, 0 };
			if (eval(K32, f_crc, NULL, buf, k, arg, &v1) == 0) {
				a2[0] = v1.a;
				if (eval(K32, f_crc, NULL, buf + k, blen - k, a2, &v2) == 0
				    && eval(K32, f_crc, NULL, buf, blen, arg, &one) == 0) {
					if (one.a != v2.a)
						printf("INCDIFF %zu %08x %08x", k, (unsigned)v2.a, (unsigned)one.a);
					else
						putval(K32, v2);
				}
			}
		} else if (strcmp(w[0], "l3") == 0 && nw == 1) {
			run_op(K64, f_l3, NULL, r_l3, buf, blen, arg);
		} else if (strcmp(w[0], "sip") == 0 && nw == 3 && hexnum(w[1], 16, &arg[0]) == 0
			   && hexnum(w[2], 16, &arg[1]) == 0) {
			run_op(K64, f_sip, NULL, r_sip, buf, blen, arg);
		} else if (strcmp(w[0], "spooky") == 0 && nw == 3 && hexnum(w[1], 16, &arg[0]) == 0
			   && hexnum(w[2], 16, &arg[1]) == 0) {
			run_op(K128, f_spooky, f_spooky_noua, r_spooky, buf, blen, arg);
		} else if (strcmp(w[0], "xxh") == 0 && nw == 2 && hexnum(w[1], 8, &arg[0]) == 0) {
			run_op(K32, f_xxh, NULL, r_xxh, buf, blen, arg);
		} else if (strcmp(w[0], "mem") == 0 && nw == 2 && hexnum(w[1], 8, &arg[0]) == 0) {
			run_op(K32, f_mem, NULL, r_mem, buf, blen, arg);
		} else if (strcmp(w[0], "mem32") == 0 && nw == 2 && hexnum(w[1], 8, &arg[0]) == 0) {
			run_op(K32, f_mem32, NULL, r_xxh, buf, blen, arg);
		} else {
			printf("bad-op");
		}
		putchar('\n');
	}
	fflush(stdout);
	{
		const char *sp = getenv("C16_STATS");
		if (sp) {
			FILE *f = fopen(sp, "a");
			if (f) { fprintf(f, "%lu\n", n_calls); fclose(f); }
		}
	}
	return 0;
}
