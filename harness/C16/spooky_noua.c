/* C16 — second build of /repo/usual/hashing/spooky.c with ALLOW_UNALIGNED_READS = 0 (what a
 * strict-alignment host compiles): usual/endian.h defines WORDS_UNALIGNED_ACCESS_OK from the
 * compiler's architecture macros, so include it first (its include guard makes the second
 * inclusion from spooky.c a no-op) and take the macro away again. */
#include <usual/endian.h>
#undef WORDS_UNALIGNED_ACCESS_OK
#define spookyhash spookyhash_noua
#include <usual/hashing/spooky.c>
