/* C16 — the branch of memhash_seed() that a build with 32-bit pointers and longs takes
 * (XXH32): memhash.c is compiled a second time with `sizeof` forced to 4 in its own text (all
 * headers it needs are included before, so only the two `sizeof` tests in memhash_seed see it). */
#include <usual/hashing/memhash.h>
#include <usual/hashing/xxhash.h>
#include <usual/hashing/spooky.h>
#include <usual/crypto/csrandom.h>
#include <string.h>
#define memhash_seed memhash_seed_narrow
#define memhash memhash_narrow
#define memhash_string memhash_string_narrow
#define sizeof(x) ((size_t)4)
#include <usual/hashing/memhash.c>
