/* C16 — independent reference implementations, written from the publications (not from
 * /repo): bytes are assembled with explicit shifts (endian-neutral), the mixing functions are
 * written as index formulas over arrays + rotation tables instead of the macros of the originals.
 *
 *   CRC-32/ISO-HDLC      bit-at-a-time, reflected polynomial 0xEDB88320
 *   lookup3 hashlittle2  Bob Jenkins, lookup3.c (May 2006), byte-at-a-time branch, *pc=*pb=0
 *   SipHash-2-4          Aumasson & Bernstein 2012, section 2 (padding to words, SipRound figure)
 *   XXH32                xxHash specification, "XXH32 algorithm description"
 *   SpookyHash V2        Bob Jenkins, SpookyV2 (Aug 2012), Hash128 one-shot (Short + long)
 */
#ifndef C16_REFS_H
#define C16_REFS_H
#include <stdint.h>
#include <stddef.h>
#include <stdlib.h>
#include <string.h>

static inline uint32_t r_rol32(uint32_t x, int k) { return (x << k) | (x >> (32 - k)); }
static inline uint64_t r_rol64(uint64_t x, int k) { return (x << k) | (x >> (64 - k)); }
static inline uint32_t r_le32(const uint8_t *p)
{
	return (uint32_t)p[0] | ((uint32_t)p[1] << 8) | ((uint32_t)p[2] << 16) | ((uint32_t)p[3] << 24);
}
static inline uint64_t r_le64(const uint8_t *p)
{
	return (uint64_t)r_le32(p) | ((uint64_t)r_le32(p + 4) << 32);
}

/* ------------------------------------------------------------------ CRC-32 */
static uint32_t ref_crc32(const uint8_t *p, size_t n, uint32_t init)
{
	uint32_t c = ~init;
	size_t i;
	int k;
	for (i = 0; i < n; i++) {
		c ^= p[i];
		for (k = 0; k < 8; k++)
			c = (c & 1) ? (c >> 1) ^ 0xEDB88320u : (c >> 1);
	}
	return ~c;
}

/* ----------------------------------------------------------------- lookup3 */
static void r_l3_mix(uint32_t v[3])
{
	static const int rot[6] = { 4, 6, 8, 16, 19, 4 };
	int i;
	for (i = 0; i < 6; i++) {
		uint32_t *x = &v[i % 3], *y = &v[(i + 1) % 3], *z = &v[(i + 2) % 3];
		*x -= *z; *x ^= r_rol32(*z, rot[i]); *z += *y;
	}
}
static void r_l3_final(uint32_t v[3])
{
	static const int rot[7] = { 14, 11, 25, 16, 4, 14, 24 };
	int i;
	for (i = 0; i < 7; i++) {
		uint32_t *x = &v[(2 + i) % 3], *y = &v[(1 + i) % 3];
		*x ^= *y; *x -= r_rol32(*y, rot[i]);
	}
}
/* returns ((uint64_t)*pb << 32) | *pc  for hashlittle2(key, length, pc, pb), *pc = *pb = 0 */
static uint64_t ref_lookup3(const uint8_t *k, size_t length)
{
	uint32_t v[3];
	size_t i;
	v[0] = v[1] = v[2] = 0xdeadbeef + (uint32_t)length;
	while (length > 12) {
		for (i = 0; i < 12; i++)
			v[i / 4] += (uint32_t)k[i] << (8 * (i % 4));
		r_l3_mix(v);
		length -= 12;
		k += 12;
	}
	if (length == 0)
		return ((uint64_t)v[1] << 32) | v[2];
	for (i = length; i-- > 0;)			/* case 12 … case 1, falling through */
		v[i / 4] += (uint32_t)k[i] << (8 * (i % 4));
	r_l3_final(v);
	return ((uint64_t)v[1] << 32) | v[2];
}

/* ----------------------------------------------------------------- SipHash */
static void r_sipround(uint64_t v[4])
{
	v[0] += v[1]; v[2] += v[3];
	v[1] = r_rol64(v[1], 13); v[3] = r_rol64(v[3], 16);
	v[1] ^= v[0]; v[3] ^= v[2];
	v[0] = r_rol64(v[0], 32);
	v[2] += v[1]; v[0] += v[3];
	v[1] = r_rol64(v[1], 17); v[3] = r_rol64(v[3], 21);
	v[1] ^= v[2]; v[3] ^= v[0];
	v[2] = r_rol64(v[2], 32);
}
static uint64_t ref_siphash24(const uint8_t *in, size_t b, uint64_t k0, uint64_t k1)
{
	size_t w = b / 8 + 1, i;			/* ceil((b+1)/8) words */
	uint8_t *m = calloc(w, 8);
	uint64_t v[4], r;
	if (b) memcpy(m, in, b);
	m[8 * w - 1] = (uint8_t)(b & 0xff);
	v[0] = k0 ^ 0x736f6d6570736575ULL;		/* "somepseu" */
	v[1] = k1 ^ 0x646f72616e646f6dULL;		/* "dorandom" */
	v[2] = k0 ^ 0x6c7967656e657261ULL;		/* "lygenera" */
	v[3] = k1 ^ 0x7465646279746573ULL;		/* "tedbytes" */
	for (i = 0; i < w; i++) {
		uint64_t mi = r_le64(m + 8 * i);
		v[3] ^= mi;
		r_sipround(v); r_sipround(v);
		v[0] ^= mi;
	}
	v[2] ^= 0xff;
	r_sipround(v); r_sipround(v); r_sipround(v); r_sipround(v);
	r = v[0] ^ v[1] ^ v[2] ^ v[3];
	free(m);
	return r;
}

/* ------------------------------------------------------------------- XXH32 */
static uint32_t ref_xxh32(const uint8_t *p, size_t len, uint32_t seed)
{
	static const uint32_t P1 = 0x9E3779B1u, P2 = 0x85EBCA77u, P3 = 0xC2B2AE3Du,
		P4 = 0x27D4EB2Fu, P5 = 0x165667B1u;
	uint32_t acc;
	size_t off = 0;
	if (len < 16) {
		acc = seed + P5;
	} else {
		uint32_t lane[4];
		int j;
		lane[0] = seed + P1 + P2; lane[1] = seed + P2; lane[2] = seed; lane[3] = seed - P1;
		for (; off + 16 <= len; off += 16)
			for (j = 0; j < 4; j++) {
				lane[j] += r_le32(p + off + 4 * j) * P2;
				lane[j] = r_rol32(lane[j], 13);
				lane[j] *= P1;
			}
		acc = r_rol32(lane[0], 1) + r_rol32(lane[1], 7) + r_rol32(lane[2], 12) + r_rol32(lane[3], 18);
	}
	acc += (uint32_t)len;
	for (; off + 4 <= len; off += 4) {
		acc += r_le32(p + off) * P3;
		acc = r_rol32(acc, 17) * P4;
	}
	for (; off < len; off++) {
		acc += (uint32_t)p[off] * P5;
		acc = r_rol32(acc, 11) * P1;
	}
	acc ^= acc >> 15; acc *= P2;
	acc ^= acc >> 13; acc *= P3;
	acc ^= acc >> 16;
	return acc;
}

/* -------------------------------------------------------------- SpookyHash V2 */
#define R_SC 0xdeadbeefdeadbeefULL
static void r_sp_shortmix(uint64_t h[4])
{
	static const int rot[12] = { 50, 52, 30, 41, 54, 48, 38, 37, 62, 34, 5, 36 };
	int i;
	for (i = 0; i < 12; i++) {
		uint64_t *x = &h[(i + 2) % 4], *y = &h[(i + 3) % 4], *z = &h[i % 4];
		*x = r_rol64(*x, rot[i]); *x += *y; *z ^= *x;
	}
}
static void r_sp_shortend(uint64_t h[4])
{
	static const int rot[11] = { 15, 52, 26, 51, 28, 9, 47, 54, 32, 25, 63 };
	int i;
	for (i = 0; i < 11; i++) {
		uint64_t *x = &h[(i + 3) % 4], *y = &h[(i + 2) % 4];
		*x ^= *y; *y = r_rol64(*y, rot[i]); *x += *y;
	}
}
static void r_sp_mix(const uint64_t d[12], uint64_t s[12])
{
	static const int rot[12] = { 11, 32, 43, 31, 17, 28, 39, 57, 55, 54, 22, 46 };
	int i;
	for (i = 0; i < 12; i++) {
		s[i] += d[i];
		s[(i + 2) % 12] ^= s[(i + 10) % 12];
		s[(i + 11) % 12] ^= s[i];
		s[i] = r_rol64(s[i], rot[i]);
		s[(i + 11) % 12] += s[(i + 1) % 12];
	}
}
static void r_sp_endpartial(uint64_t h[12])
{
	static const int rot[12] = { 44, 15, 34, 21, 38, 33, 10, 13, 38, 53, 42, 54 };
	int i;
	for (i = 0; i < 12; i++) {
		h[(i + 11) % 12] += h[(i + 1) % 12];
		h[(i + 2) % 12] ^= h[(i + 11) % 12];
		h[(i + 1) % 12] = r_rol64(h[(i + 1) % 12], rot[i]);
	}
}
static void ref_spooky128(const uint8_t *msg, size_t length, uint64_t *hash1, uint64_t *hash2)
{
	size_t i;
	if (length < 192) {
		/* Short: a,b,c,d = h[0..3] */
		uint64_t h[4];
		uint8_t last[16];
		size_t off = 0, rem;
		h[0] = *hash1; h[1] = *hash2; h[2] = R_SC; h[3] = R_SC;
		for (; off + 32 <= length; off += 32) {
			h[2] += r_le64(msg + off); h[3] += r_le64(msg + off + 8);
			r_sp_shortmix(h);
			h[0] += r_le64(msg + off + 16); h[1] += r_le64(msg + off + 24);
		}
		if (length - off >= 16) {
			h[2] += r_le64(msg + off); h[3] += r_le64(msg + off + 8);
			r_sp_shortmix(h);
			off += 16;
		}
		rem = length - off;			/* 0..15 */
		h[3] += (uint64_t)length << 56;
		if (rem == 0) {
			h[2] += R_SC; h[3] += R_SC;
		} else {
			memset(last, 0, 16);
			memcpy(last, msg + off, rem);
			h[2] += r_le64(last); h[3] += r_le64(last + 8);
		}
		r_sp_shortend(h);
		*hash1 = h[0]; *hash2 = h[1];
		return;
	}
	{
		uint64_t s[12], d[12];
		uint8_t last[96];
		size_t off = 0, rem;
		for (i = 0; i < 12; i++)
			s[i] = (i % 3 == 0) ? *hash1 : (i % 3 == 1) ? *hash2 : R_SC;
		for (; off + 96 <= length; off += 96) {
			for (i = 0; i < 12; i++) d[i] = r_le64(msg + off + 8 * i);
			r_sp_mix(d, s);
		}
		rem = length - off;
		memset(last, 0, 96);
		memcpy(last, msg + off, rem);
		last[95] = (uint8_t)rem;
		for (i = 0; i < 12; i++) s[i] += r_le64(last + 8 * i);
		r_sp_endpartial(s); r_sp_endpartial(s); r_sp_endpartial(s);
		*hash1 = s[0]; *hash2 = s[1];
	}
}

#endif
