/* C18 harness: runs parse_ini_file / cf_load_file / cf_set / cf_get of the working-tree
 * usual/cfparser.c (+ fileutil.c load_file, string.c strtod_dot) in-process on REAL files kept in
 * a private scratch directory (argv[1], a per-process subdirectory is created and removed).
 *
 * Ops (one per line; byte strings in hex, "-" = empty):
 *   file <name> <content>   write a file; `name` is the name config text uses for it
 *   parse <name> <failAt>   parse_ini_file with a logging handler that refuses the failAt-th
 *                           event (0 = never):  ok|fail <events> live=<n> ## err=<first log>
 *                           events: S:<sect> | K:<key>=<val>, comma separated, `none` if empty
 *   schema <0..5>           select a built-in CfContext (4: the main section is dynamic, 5: `*` first) and zero its variables
 *   loaded <0|1>            CfContext.loaded
 *   home <hex|nil>          $HOME
 *   load <name>             cf_load_file:  ok|fail starts=<section_start log> live=<n> ## err=…
 *   set <sect> <key> <val>  cf_set:  1|0 live=<n> ## err=…
 *   get <sect> <key>        cf_get:  <hex>|nil
 *   setself <sect> <key> <off>   cf_set(sect, key, cf_get(sect, key) + off) with the very pointer the
 *                           library returned (cf_get_str returns the stored string itself, so the
 *                           new value aliases the old one):  nil | range | 1|0 <cf_get afterwards>
 *                           live=<n> ## err=…
 *   dump                    cf_get of a fixed list of (sect,key) ## raw non-zero variables
 *
 * Observed besides the results:
 *  - every allocation made inside the library is tracked (--wrap=malloc,calloc,realloc,free,
 *    strdup,strndup,reallocarray,posix_memalign,aligned_alloc): `live` = regions still allocated afterwards, minus the string variables that
 *    legitimately hold one; must be 0;
 *  - every buffer load_file returned is compared with the file's content when the parser
 *    frees it: it must be byte-identical (NUL patches restored) unless the scan of that file
 *    ended because the handler refused a section (the one path that frees a patched buffer);
 *    a violation shows as ` NOT-INTACT` on the observable side;
 *  - fopen is wrapped so that only names written with `file` exist (deterministic ENOENT);
 *    getpwnam/getpwuid are wrapped with a fixed table; log_generic is replaced to classify
 *    the first error message (internal projection).
 * ASan+UBSan watch the real pointers (the loaded buffer is an exact-size malloc block).
 */
#include <usual/cfparser.h>
#include <usual/fileutil.h>
#include <usual/logging.h>
#include <usual/time.h>
#include <usual/string.h>
#include <errno.h>
#include <pwd.h>
#include <stdarg.h>
#include <unistd.h>
#include <sys/stat.h>
#include "hcommon.h"

int cf_verbose = 0;

/* ------------------------------------------------------------------ log classification */
static const char *first_err;
static const struct { const char *pfx; const char *kind; } errkinds[] = {
	{ "could not load file", "nofile" },
	{ "include nesting level too deep", "depth" },
	{ "error processing include", "incl" },
	{ "invalid section", "badsect" },
	{ "syntax error in configuration", "syntax" },
	{ "invalid value", "badval" },
	{ "unknown section", "unknownsect" },
	{ "unknown parameter", "unknownkey" },
	{ "bug - no base", "nobase" },
	{ "fill_defaults fail", "filldefaults" },
	{ "load_init_file: value without section", "nosection" },
	{ "load_init_file: main section missing", "mainmissing" },
	{ "cannot to expand filename", "expand" },
	{ NULL, NULL }
};

void log_generic(enum LogLevel level, void *ctx, const char *s, ...)
{
	int i;
	if (level != LG_ERROR || first_err)
		return;
	first_err = "other";
	for (i = 0; errkinds[i].pfx; i++)
		if (strncmp(s, errkinds[i].pfx, strlen(errkinds[i].pfx)) == 0)
			first_err = errkinds[i].kind;
}

void log_fatal(const char *file, int line, const char *func, bool show_perror, void *ctx, const char *s, ...)
{
	printf("FATAL %s\n", s);
	fflush(stdout);
	abort();
}

/* ------------------------------------------------------------------ files */
#define MAXFILES 64
static char tmpdir[512];
static struct VFile { uint8_t *name; long nlen; uint8_t *data; long len; } vfiles[MAXFILES];
static int nfiles;

FILE *__real_fopen(const char *fn, const char *mode);
FILE *__real_fopen64(const char *fn, const char *mode);

static int vfile_find(const char *name)
{
	int i;
	size_t n = strlen(name);
	for (i = 0; i < nfiles; i++)
		if ((size_t)vfiles[i].nlen == n && memcmp(vfiles[i].name, name, n) == 0)
			return i;
	return -1;
}

static void vfile_path(int i, char *dst, size_t dlen)
{
	snprintf(dst, dlen, "%s/f%d", tmpdir, i);
}

/* ------------------------------------------------------------------ allocation tracking */
static int in_lib;
#define MAXPTR 8192
static void *live_ptrs[MAXPTR];
static int n_live;
/* buffers returned by load_file: pointer -> file index */
static struct LBuf { void *p; int file; } lbufs[64];
static int n_lbufs;
static int pending_file = -1;
static int not_intact;        /* buffers freed in a patched state */
static int refusal_credit;    /* handler refused a section: the next patched free is legitimate */

void *__real_malloc(size_t);
void *__real_calloc(size_t, size_t);
void *__real_realloc(void *, size_t);
void __real_free(void *);
char *__real_strdup(const char *);
char *__real_strndup(const char *, size_t);
void *__real_reallocarray(void *, size_t, size_t);
int __real_posix_memalign(void **, size_t, size_t);
void *__real_aligned_alloc(size_t, size_t);

static void track(void *p)
{
	if (!p || !in_lib)
		return;
	if (n_live >= MAXPTR) { printf("FATAL too many live pointers\n"); abort(); }
	live_ptrs[n_live++] = p;
	if (pending_file >= 0 && n_lbufs < 64) {
		lbufs[n_lbufs].p = p;
		lbufs[n_lbufs].file = pending_file;
		n_lbufs++;
		pending_file = -1;
	}
}

static void untrack(void *p)
{
	int i;
	if (!p)
		return;
	for (i = n_lbufs - 1; i >= 0; i--) {
		if (lbufs[i].p == p) {
			struct VFile *f = &vfiles[lbufs[i].file];
			const uint8_t *b = p;
			if (memcmp(b, f->data, f->len) != 0 || b[f->len] != 0) {
				if (refusal_credit > 0)
					refusal_credit--;
				else
					not_intact++;
			}
			lbufs[i] = lbufs[--n_lbufs];
			break;
		}
	}
	for (i = n_live - 1; i >= 0; i--) {
		if (live_ptrs[i] == p) {
			live_ptrs[i] = live_ptrs[--n_live];
			return;
		}
	}
}

void *__wrap_malloc(size_t n) { void *p = __real_malloc(n); track(p); return p; }
void *__wrap_calloc(size_t a, size_t b) { void *p = __real_calloc(a, b); track(p); return p; }
char *__wrap_strdup(const char *s) { char *p = __real_strdup(s); track(p); return p; }
char *__wrap_strndup(const char *s, size_t n) { char *p = __real_strndup(s, n); track(p); return p; }
void *__wrap_aligned_alloc(size_t a, size_t n) { void *p = __real_aligned_alloc(a, n); track(p); return p; }
int __wrap_posix_memalign(void **pp, size_t a, size_t n) { int r = __real_posix_memalign(pp, a, n); if (r == 0) track(*pp); return r; }
void *__wrap_reallocarray(void *o, size_t a, size_t b)
{
	void *p = __real_reallocarray(o, a, b);
	if (p) { if (o) untrack(o); track(p); }
	return p;
}
void __wrap_free(void *p) { untrack(p); __real_free(p); }
void *__wrap_realloc(void *o, size_t n)
{
	void *p = __real_realloc(o, n);
	if (p) { if (o) untrack(o); track(p); }
	return p;
}

FILE *__wrap_fopen(const char *fn, const char *mode)
{
	char path[600];
	int i = vfile_find(fn);
	if (i < 0) { errno = ENOENT; return NULL; }
	vfile_path(i, path, sizeof path);
	if (in_lib)
		pending_file = i;
	return __real_fopen(path, mode);
}
FILE *__wrap_fopen64(const char *fn, const char *mode) { return __wrap_fopen(fn, mode); }

/* ------------------------------------------------------------------ passwd database */
static struct passwd pw_alice = { .pw_name = "alice", .pw_dir = "/home/alice" };
static struct passwd pw_bob = { .pw_name = "bob", .pw_dir = "/b" };
static struct passwd pw_uid = { .pw_name = "me", .pw_dir = "/home/uid" };
struct passwd *__wrap_getpwnam(const char *n)
{
	if (strcmp(n, "alice") == 0) return &pw_alice;
	if (strcmp(n, "bob") == 0) return &pw_bob;
	return NULL;
}
struct passwd *__wrap_getpwuid(uid_t u) { return &pw_uid; }

/* ------------------------------------------------------------------ variables & schemas */
#define NSLOT 48
static int a_i[NSLOT];
static unsigned a_u[NSLOT];
static char *a_s[NSLOT];
static usec_t a_t[NSLOT];
static double a_d[NSLOT];

struct RObj { int i[4]; unsigned u[4]; char *s[4]; usec_t t[4]; double d[4]; };
static struct RObj obj1, obj2, obj10, obj11, obj12;

static const struct CfLookup lk[] = { { "one", 1 }, { "two", 2 }, { "Three", 3 }, { "uno", 1 }, { NULL } };

static const struct CfKey keys0_main[] = {
	CF_ABS("i", CF_INT, a_i[0], 0, "5"),
	CF_ABS("u", CF_UINT, a_u[1], 0, NULL),
	CF_ABS("b", CF_BOOL, a_i[2], 0, "0"),
	CF_ABS("s", CF_STR, a_s[3], 0, "dflt"),
	CF_ABS("f", CF_FILE, a_s[4], 0, NULL),
	CF_ABS("t", CF_TIME_USEC, a_t[5], 0, "1.5"),
	CF_ABS("d", CF_TIME_DOUBLE, a_d[6], 0, NULL),
	CF_ABS("l", CF_LOOKUP(lk), a_i[7], 0, "one"),
	CF_ABS("ro", CF_INT, a_i[8], CF_READONLY, "7"),
	CF_ABS("roa", CF_INT, a_i[8], 0, NULL),
	CF_ABS("nr", CF_INT, a_i[9], CF_NO_RELOAD, "3"),
	CF_ABS("nrs", CF_STR, a_s[10], CF_NO_RELOAD, NULL),
	{ "ns", { NULL, cf_get_int }, CF_VAL_ABS, (uintptr_t)&a_i[0], "9" },
	{ "ng", { cf_set_int, NULL }, CF_VAL_ABS, (uintptr_t)&a_i[11], NULL },
	CF_ABS("a.b-c_d*", CF_INT, a_i[12], 0, NULL),
	CF_ABS("", CF_STR, a_s[13], 0, NULL),
	{ NULL },
};
static const struct CfKey keys0_two[] = {
	CF_ABS("s2", CF_STR, a_s[20], 0, "somedefault"),
	CF_ABS("i2", CF_INT, a_i[21], 0, NULL),
	{ NULL },
};
static const struct CfKey keys0_baddef[] = { CF_ABS("x", CF_INT, a_i[30], 0, "zz"), { NULL } };
static const struct CfKey keys0_empty[] = { CF_ABS("k", CF_STR, a_s[31], 0, NULL), { NULL } };
static const struct CfSect sects0[] = {
	{ "main", keys0_main },
	{ "two", keys0_two },
	{ "baddef", keys0_baddef },
	{ "", keys0_empty },
	{ NULL },
};

#define CF_REL_BASE struct RObj
static const struct CfKey keys1_main[] = {
	CF_REL("i", CF_INT, i[0], 0, "5"),
	CF_REL("s", CF_STR, s[1], 0, "dflt"),
	CF_ABS("abs", CF_INT, a_i[40], 0, NULL),
	{ NULL },
};
static const struct CfKey keys1_two[] = {
	CF_REL("s2", CF_STR, s[0], 0, "somedefault"),
	CF_REL("t", CF_TIME_USEC, t[1], 0, NULL),
	CF_REL("nr", CF_INT, i[2], CF_NO_RELOAD, "3"),
	{ NULL },
};
static const struct CfKey keys1_nobase[] = { CF_REL("x", CF_INT, i[0], 0, NULL), { NULL } };
static const struct CfKey keys1_star[] = {
	CF_REL("x", CF_INT, i[0], 0, "1"),
	CF_REL("y", CF_STR, s[1], 0, NULL),
	{ NULL },
};
#undef CF_REL_BASE
static const struct CfKey keys1_shadowed[] = { CF_ABS("q", CF_INT, a_i[41], 0, NULL), { NULL } };
static const struct CfKey keys_none[] = { { NULL } };

static void *lookup_two(void *top, const char *name) { return top ? &obj2 : NULL; }
static void *lookup_null(void *top, const char *name) { return NULL; }
static void *lookup_byname(void *top, const char *name)
{
	if (strcmp(name, "a") == 0) return &obj10;
	if (strcmp(name, "b") == 0) return &obj11;
	if (strcmp(name, "c") == 0) return &obj12;
	return NULL;
}
static int obj_id(void *base)
{
	if (base == &obj1) return 1;
	if (base == &obj2) return 2;
	if (base == &obj10) return 10;
	if (base == &obj11) return 11;
	if (base == &obj12) return 12;
	return 0;
}

static const struct CfSect sects1[] = {
	{ "main", keys1_main },
	{ "two", keys1_two, lookup_two },
	{ "nobase", keys1_nobase, lookup_null },
	{ "*", keys1_star, lookup_byname },
	{ "shadowed", keys1_shadowed },
	{ NULL },
};

/* dynamic keys */
#define MAXDYN 256
static struct DynEnt { int base; char *key; char *val; } dyn[MAXDYN];
static int ndyn;
static char *starts[256];
static int nstarts;

static bool dyn_set(void *base, const char *key, const char *val)
{
	int b = obj_id(base), i, save = in_lib;
	if (!base || key[0] == 'x')
		return false;
	in_lib = 0;
	for (i = 0; i < ndyn; i++) {
		if (dyn[i].base == b && strcmp(dyn[i].key, key) == 0) {
			char *nv = strdup(val);	/* val may point into the old value */
			free(dyn[i].val);
			dyn[i].val = nv;
			in_lib = save;
			return true;
		}
	}
	if (ndyn >= MAXDYN) { printf("FATAL dyn table full\n"); abort(); }
	dyn[ndyn].base = b;
	dyn[ndyn].key = strdup(key);
	dyn[ndyn].val = strdup(val);
	ndyn++;
	in_lib = save;
	return true;
}
static const char *dyn_get(void *base, const char *key, char *buf, int buflen)
{
	int b = obj_id(base), i;
	if (!base)
		return NULL;
	for (i = 0; i < ndyn; i++)
		if (dyn[i].base == b && strcmp(dyn[i].key, key) == 0)
			return dyn[i].val;
	return NULL;
}
static bool start_note(const char *name)
{
	int save = in_lib;
	in_lib = 0;
	if (nstarts < 256)
		starts[nstarts++] = strdup(name);
	in_lib = save;
	return true;
}
static bool start_log(void *top, const char *name) { start_note(name); return true; }
static bool start_bad(void *top, const char *name) { start_note(name); return false; }

static const struct CfKey keys2_main[] = {
	CF_ABS("i", CF_INT, a_i[0], 0, "5"),
	CF_ABS("s", CF_STR, a_s[3], 0, NULL),
	{ NULL },
};
static const struct CfSect sects2[] = {
	{ "main", keys2_main, NULL, NULL, NULL, start_log },
	{ "wo", keys_none, NULL, dyn_set, NULL, NULL },
	{ "bad", keys_none, NULL, NULL, NULL, start_bad },
	{ "*", keys_none, lookup_byname, dyn_set, dyn_get, start_log },
	{ NULL },
};

static const struct CfKey keys4_fixed[] = {
	CF_ABS("i", CF_INT, a_i[0], 0, "5"),
	CF_ABS("s", CF_STR, a_s[3], 0, NULL),
	{ NULL },
};
/* schema 4: the MAIN (first) section is dynamic */
static const struct CfSect sects4[] = {
	{ "main", keys_none, NULL, dyn_set, dyn_get, start_log },
	{ "fixed", keys4_fixed },
	{ "*", keys_none, lookup_byname, dyn_set, dyn_get, NULL },
	{ NULL },
};
static const struct CfKey keys5_fixed[] = { CF_ABS("i", CF_INT, a_i[0], 0, "5"), { NULL } };
/* schema 5: the wildcard is the first section */
static const struct CfSect sects5[] = {
	{ "*", keys_none, lookup_byname, dyn_set, dyn_get, start_log },
	{ "fixed", keys5_fixed },
	{ NULL },
};

static struct CfContext cf = { sects0, NULL, false };
static int cur_schema;

/* the variables a schema may touch, for the raw dump: tag + where */
enum { T_I, T_U, T_S, T_T, T_D };
struct Slot { const char *label; int type; void *p; };
#define AI(n) { "a" #n, T_I, &a_i[n] }
#define AU(n) { "a" #n, T_U, &a_u[n] }
#define AS(n) { "a" #n, T_S, &a_s[n] }
#define AT(n) { "a" #n, T_T, &a_t[n] }
#define AD(n) { "a" #n, T_D, &a_d[n] }
static const struct Slot slots0[] = {
	AI(0), AU(1), AI(2), AS(3), AS(4), AT(5), AD(6), AI(7), AI(8), AI(9), AS(10), AI(11), AI(12), AS(13),
	AS(20), AI(21), AI(30), AS(31), { NULL } };
static const struct Slot slots1[] = {
	{ "r1.0", T_I, &obj1.i[0] }, { "r1.1", T_S, &obj1.s[1] }, AI(40),
	{ "r2.0", T_S, &obj2.s[0] }, { "r2.1", T_T, &obj2.t[1] }, { "r2.2", T_I, &obj2.i[2] },
	{ "r10.0", T_I, &obj10.i[0] }, { "r10.1", T_S, &obj10.s[1] },
	{ "r11.0", T_I, &obj11.i[0] }, { "r11.1", T_S, &obj11.s[1] },
	{ "r12.0", T_I, &obj12.i[0] }, { "r12.1", T_S, &obj12.s[1] }, AI(41), { NULL } };
static const struct Slot slots2[] = { AI(0), AS(3), { NULL } };
static const struct Slot slots5[] = { AI(0), { NULL } };

static const struct Slot *cur_slots(void)
{
	return cur_schema == 0 ? slots0 : (cur_schema == 2 || cur_schema == 4) ? slots2 : cur_schema == 5 ? slots5 : slots1;
}

static const char *dump0[][2] = {
	{ "main", "i" }, { "main", "u" }, { "main", "b" }, { "main", "s" }, { "main", "f" }, { "main", "t" },
	{ "main", "d" }, { "main", "l" }, { "main", "ro" }, { "main", "roa" }, { "main", "nr" }, { "main", "nrs" },
	{ "main", "ns" }, { "main", "ng" }, { "main", "a.b-c_d*" }, { "main", "" },
	{ "two", "s2" }, { "two", "i2" }, { "baddef", "x" }, { "", "k" }, { NULL, NULL } };
static const char *dump1[][2] = {
	{ "main", "i" }, { "main", "s" }, { "main", "abs" }, { "two", "s2" }, { "two", "t" }, { "two", "nr" },
	{ "nobase", "x" }, { "a", "x" }, { "a", "y" }, { "b", "x" }, { "b", "y" }, { "c", "x" }, { "zz", "x" },
	{ "shadowed", "q" }, { "shadowed", "x" }, { NULL, NULL } };
static const char *dump4[][2] = {
	{ "main", "k1" }, { "main", "k2" }, { "fixed", "i" }, { "fixed", "s" }, { "a", "k1" }, { "zz", "k1" }, { NULL, NULL } };
static const char *dump5[][2] = {
	{ "a", "k1" }, { "b", "k1" }, { "main", "k1" }, { "fixed", "i" }, { NULL, NULL } };
static const char *dump2[][2] = {
	{ "main", "i" }, { "main", "s" }, { "wo", "k1" }, { "a", "k1" }, { "a", "k2" }, { "b", "k1" },
	{ "zz", "k1" }, { NULL, NULL } };

static int string_slots_in_use(void)
{
	const struct Slot *s;
	int n = 0;
	for (s = cur_slots(); s->label; s++)
		if (s->type == T_S && *(char **)s->p)
			n++;
	return n;
}

static void zero_vars(void)
{
	int i, j;
	struct RObj *objs[] = { &obj1, &obj2, &obj10, &obj11, &obj12 };
	for (i = 0; i < NSLOT; i++) { free(a_s[i]); }
	memset(a_i, 0, sizeof a_i); memset(a_u, 0, sizeof a_u); memset(a_s, 0, sizeof a_s);
	memset(a_t, 0, sizeof a_t); memset(a_d, 0, sizeof a_d);
	for (j = 0; j < 5; j++) {
		for (i = 0; i < 4; i++) free(objs[j]->s[i]);
		memset(objs[j], 0, sizeof(struct RObj));
	}
	for (i = 0; i < ndyn; i++) { free(dyn[i].key); free(dyn[i].val); }
	ndyn = 0;
	for (i = 0; i < nstarts; i++) free(starts[i]);
	nstarts = 0;
}

static bool select_schema(int id)
{
	zero_vars();
	switch (id) {
	case 0: cf.sect_list = sects0; cf.base = NULL; break;
	case 1: cf.sect_list = sects1; cf.base = &obj1; break;
	case 2: cf.sect_list = sects2; cf.base = &obj1; break;
	case 3: cf.sect_list = sects1; cf.base = NULL; break;
	case 4: cf.sect_list = sects4; cf.base = &obj1; break;
	case 5: cf.sect_list = sects5; cf.base = &obj1; break;
	default: return false;
	}
	cur_schema = id;
	return true;
}

/* ------------------------------------------------------------------ parse handler */
static char *evbuf;
static size_t evlen, evcap;
static int nevents, fail_at;

static void ev_put(const char *s, size_t n)
{
	if (evlen + n + 1 > evcap) {
		evcap = (evlen + n + 1) * 2;
		evbuf = realloc(evbuf, evcap);
	}
	memcpy(evbuf + evlen, s, n);
	evlen += n;
	evbuf[evlen] = 0;
}
static void ev_hex(const char *s)
{
	char tmp[3];
	if (!*s) { ev_put("-", 1); return; }
	for (; *s; s++) { snprintf(tmp, sizeof tmp, "%02x", (unsigned char)*s); ev_put(tmp, 2); }
}

static bool log_handler(void *arg, bool is_sect, const char *key, const char *val)
{
	int save = in_lib;
	bool ok;
	in_lib = 0;
	if (nevents)
		ev_put(",", 1);
	nevents++;
	if (is_sect) {
		ev_put("S:", 2); ev_hex(key);
	} else {
		ev_put("K:", 2); ev_hex(key); ev_put("=", 1); ev_hex(val);
	}
	ok = !(fail_at && nevents == fail_at);
	if (!ok && is_sect)
		refusal_credit = 1;
	in_lib = save;
	return ok;
}

/* ------------------------------------------------------------------ helpers */
static char *arg_cstr(const char *hex)
{
	uint8_t *raw; char *s;
	long n = hc_unhex(hex, &raw);
	if (n < 0) return NULL;
	if (memchr(raw, 0, n)) { free(raw); return NULL; }
	s = malloc(n + 1);
	memcpy(s, raw, n); s[n] = 0;
	free(raw);
	return s;
}

static void put_cstr_hex(const char *s)
{
	if (!s) { fputs("nil", stdout); return; }
	hc_puthex(s, strlen(s));
}

static void reset_case(void)
{
	int i; char path[600];
	for (i = 0; i < nfiles; i++) {
		vfile_path(i, path, sizeof path);
		unlink(path);
		free(vfiles[i].name); free(vfiles[i].data);
	}
	nfiles = 0;
	select_schema(0);
	cf.loaded = false;
	setenv("HOME", "/home/u0", 1);
}

static void cleanup(void)
{
	reset_case();
	rmdir(tmpdir);
}

static void begin_lib(void)
{
	first_err = NULL; not_intact = 0; refusal_credit = 0; pending_file = -1; n_lbufs = 0;
	in_lib = 1;
}
static long end_lib(void)
{
	in_lib = 0;
	return (long)n_live - string_slots_in_use();
}

int main(int argc, char **argv)
{
	char *line, *w[8];
	int nw;
	if (argc < 2) { fprintf(stderr, "usage: h <scratch-dir>\n"); return 2; }
	snprintf(tmpdir, sizeof tmpdir, "%s/p%ld", argv[1], (long)getpid());
	mkdir(argv[1], 0700);
	if (mkdir(tmpdir, 0700) != 0 && errno != EEXIST) { perror("mkdir"); return 2; }
	atexit(cleanup);
	reset_case();
	/* line-buffered: a sanitizer abort must not swallow the results of the cases before it */
	setvbuf(stdout, NULL, _IOLBF, 0);
	while ((line = hc_line()) != NULL) {
		nw = hc_words(line, w, 8);
		if (nw == 1 && strcmp(w[0], "#case") == 0) {
			reset_case();
			puts("#case");
		} else if (nw == 3 && strcmp(w[0], "file") == 0) {
			char *name = arg_cstr(w[1]);
			uint8_t *data; long len = name ? hc_unhex(w[2], &data) : -1;
			char path[600]; FILE *f; int i;
			if (!name || len < 0) { free(name); puts("bad-op"); continue; }
			i = vfile_find(name);
			if (i < 0) {
				if (nfiles >= MAXFILES) { puts("bad-op"); free(name); free(data); continue; }
				i = nfiles++;
				vfiles[i].name = (uint8_t *)name; vfiles[i].nlen = strlen(name);
			} else {
				free(name); free(vfiles[i].data);
			}
			vfiles[i].data = data; vfiles[i].len = len;
			vfile_path(i, path, sizeof path);
			f = __real_fopen(path, "wb");
			if (!f || fwrite(data, 1, len, f) != (size_t)len || fclose(f) != 0) { printf("FATAL cannot write %s\n", path); return 2; }
			puts("ok");
		} else if (nw == 3 && strcmp(w[0], "parse") == 0) {
			char *name = arg_cstr(w[1]); char *e; long fa = strtol(w[2], &e, 10); bool ok; long live;
			if (!name || *e || !*w[2] || fa < 0) { free(name); puts("bad-op"); continue; }
			evlen = 0; nevents = 0; fail_at = fa; if (evbuf) evbuf[0] = 0;
			begin_lib();
			ok = parse_ini_file(name, log_handler, NULL);
			live = end_lib();
			printf("%s %s%s live=%ld ## err=%s\n", ok ? "ok" : "fail", nevents ? evbuf : "none",
			       not_intact ? " NOT-INTACT" : "", live, first_err ? first_err : "none");
			free(name);
		} else if (nw == 2 && strcmp(w[0], "schema") == 0) {
			if (strlen(w[1]) == 1 && w[1][0] >= '0' && w[1][0] <= '5' && select_schema(w[1][0] - '0')) puts("ok");
			else puts("bad-op");
		} else if (nw == 2 && strcmp(w[0], "loaded") == 0) {
			if (strcmp(w[1], "0") == 0) { cf.loaded = false; puts("ok"); }
			else if (strcmp(w[1], "1") == 0) { cf.loaded = true; puts("ok"); }
			else puts("bad-op");
		} else if (nw == 2 && strcmp(w[0], "home") == 0) {
			if (strcmp(w[1], "nil") == 0) { unsetenv("HOME"); puts("ok"); }
			else {
				char *h = arg_cstr(w[1]);
				if (!h) { puts("bad-op"); continue; }
				setenv("HOME", h, 1); free(h); puts("ok");
			}
		} else if (nw == 2 && strcmp(w[0], "load") == 0) {
			char *name = arg_cstr(w[1]); bool ok; long live; int i;
			if (!name) { puts("bad-op"); continue; }
			for (i = 0; i < nstarts; i++) free(starts[i]);
			nstarts = 0;
			begin_lib();
			ok = cf_load_file(&cf, name);
			live = end_lib();
			/* on failure the innermost file may legitimately be freed patched */
			if (!ok && not_intact == 1) not_intact = 0;
			fputs(ok ? "ok starts=" : "fail starts=", stdout);
			if (!nstarts) fputs("none", stdout);
			for (i = 0; i < nstarts; i++) { if (i) putchar(','); put_cstr_hex(starts[i]); }
			printf("%s live=%ld ## err=%s\n", not_intact ? " NOT-INTACT" : "", live, first_err ? first_err : "none");
			free(name);
		} else if (nw == 4 && strcmp(w[0], "set") == 0) {
			char *s = arg_cstr(w[1]), *k = arg_cstr(w[2]), *v = arg_cstr(w[3]); bool ok; long live;
			if (!s || !k || !v) { free(s); free(k); free(v); puts("bad-op"); continue; }
			begin_lib();
			ok = cf_set(&cf, s, k, v);
			live = end_lib();
			printf("%d live=%ld ## err=%s\n", ok ? 1 : 0, live, first_err ? first_err : "none");
			free(s); free(k); free(v);
		} else if (nw == 3 && strcmp(w[0], "get") == 0) {
			char *s = arg_cstr(w[1]), *k = arg_cstr(w[2]); char buf[128]; const char *r;
			if (!s || !k) { free(s); free(k); puts("bad-op"); continue; }
			begin_lib();
			r = cf_get(&cf, s, k, buf, sizeof buf);
			end_lib();
			put_cstr_hex(r); putchar('\n');
			free(s); free(k);
		} else if (nw == 4 && strcmp(w[0], "setself") == 0) {
			char *s = arg_cstr(w[1]), *k = arg_cstr(w[2]); char *e; long off = strtol(w[3], &e, 10);
			char buf[128], buf2[128]; const char *r; bool ok; long live;
			if (!s || !k || *e || !*w[3] || off < 0 || off > 1000) { free(s); free(k); puts("bad-op"); continue; }
			begin_lib();
			r = cf_get(&cf, s, k, buf, sizeof buf);
			if (!r) {
				end_lib(); puts("nil");
			} else if ((long)strlen(r) < off) {
				end_lib(); puts("range");
			} else {
				ok = cf_set(&cf, s, k, r + off);
				r = cf_get(&cf, s, k, buf2, sizeof buf2);
				live = end_lib();
				printf("%d ", ok ? 1 : 0); put_cstr_hex(r);
				printf(" live=%ld ## err=%s\n", live, first_err ? first_err : "none");
			}
			free(s); free(k);
		} else if (nw == 1 && strcmp(w[0], "dump") == 0) {
			const char *(*d)[2] = cur_schema == 0 ? dump0 : cur_schema == 2 ? dump2 : cur_schema == 4 ? dump4 : cur_schema == 5 ? dump5 : dump1;
			const struct Slot *sl; char buf[128]; int i, n = 0;
			for (i = 0; d[i][0]; i++) {
				if (i) putchar(',');
				put_cstr_hex(cf_get(&cf, d[i][0], d[i][1], buf, sizeof buf));
			}
			fputs(" ## ", stdout);
			for (sl = cur_slots(); sl->label; sl++) {
				char tmp[64]; const char *txt = NULL;
				switch (sl->type) {
				case T_I: if (*(int *)sl->p) { snprintf(tmp, sizeof tmp, "%d", *(int *)sl->p); txt = tmp; } break;
				case T_U: if (*(unsigned *)sl->p) { snprintf(tmp, sizeof tmp, "%u", *(unsigned *)sl->p); txt = tmp; } break;
				case T_T: if (*(usec_t *)sl->p) { snprintf(tmp, sizeof tmp, "%llu", (unsigned long long)*(usec_t *)sl->p); txt = tmp; } break;
				case T_D: { uint64_t bits; memcpy(&bits, sl->p, 8); if (*(double *)sl->p != *(double *)sl->p) bits = (bits & 0x8000000000000000ULL) | 0x7ff8000000000000ULL; /* NaN payloads are not modelled */ if (bits) { snprintf(tmp, sizeof tmp, "%llu", (unsigned long long)bits); txt = tmp; } } break;
				case T_S: if (*(char **)sl->p) txt = ""; break;
				}
				if (!txt) continue;
				if (n++) putchar(',');
				printf("%s=%s", sl->label, txt);
				if (sl->type == T_S) put_cstr_hex(*(char **)sl->p);
			}
			if (!n) fputs("none", stdout);
			putchar('\n');
		} else {
			puts("bad-op");
		}
	}
	fflush(stdout);
	return 0;
}
