/* Tracking CxMem allocator: counts regions, can fail the k-th request, reports balance.
 * Usable as a `CxMem *` parent for every libusual allocator-taking API. */
#ifndef VERIF_TRKCX_H
#define VERIF_TRKCX_H
#include <usual/cxalloc.h>
#include <stdlib.h>
#include <string.h>

struct TrkHdr { size_t len; size_t magic; };
#define TRK_MAGIC 0x74726b6d61676963ULL

static long trk_live;        /* regions currently allocated */
static long trk_live_bytes;
static long trk_requests;    /* alloc+realloc requests seen so far */
static long trk_fail_at;     /* fail request number k (1-based); 0 = never */
static long trk_fail_count;  /* how many failures were injected */
static long trk_fail_from;   /* when >0: fail every request >= this number */

static int trk_should_fail(void)
{
	trk_requests++;
	if ((trk_fail_at && trk_requests == trk_fail_at) ||
	    (trk_fail_from && trk_requests >= trk_fail_from)) {
		trk_fail_count++;
		return 1;
	}
	return 0;
}

static void *trk_alloc(void *ctx, size_t len)
{
	struct TrkHdr *h;
	if (trk_should_fail()) return NULL;
	h = malloc(sizeof(*h) + len);
	if (!h) return NULL;
	h->len = len; h->magic = TRK_MAGIC;
	trk_live++; trk_live_bytes += len;
	return h + 1;
}

static void trk_free(void *ctx, void *ptr)
{
	struct TrkHdr *h;
	if (!ptr) return;
	h = (struct TrkHdr *)ptr - 1;
	if (h->magic != TRK_MAGIC) { fprintf(stderr, "trk_free: bad magic\n"); abort(); }
	h->magic = 0;
	trk_live--; trk_live_bytes -= h->len;
	memset(ptr, 0xDD, h->len);
	free(h);
}

static void *trk_realloc(void *ctx, void *ptr, size_t len)
{
	struct TrkHdr *h, *n;
	if (!ptr) return trk_alloc(ctx, len);
	if (trk_should_fail()) return NULL;
	h = (struct TrkHdr *)ptr - 1;
	if (h->magic != TRK_MAGIC) { fprintf(stderr, "trk_realloc: bad magic\n"); abort(); }
	/* always move, so stale pointers are caught by ASan */
	n = malloc(sizeof(*n) + len);
	if (!n) return NULL;
	n->len = len; n->magic = TRK_MAGIC;
	memcpy(n + 1, ptr, len < h->len ? len : h->len);
	trk_live_bytes += (long)len - (long)h->len;
	h->magic = 0;
	memset(ptr, 0xDD, h->len);
	free(h);
	return n + 1;
}

static const struct CxOps trk_ops = {
	trk_alloc, trk_realloc, trk_free, NULL,
};
static const struct CxMem trk_cx = { &trk_ops, NULL };

static void trk_reset(void) { trk_requests = 0; trk_fail_at = 0; trk_fail_from = 0; trk_fail_count = 0; }
#endif
