/* Tracking CxMem allocator: counts regions, can fail the k-th request, reports balance.
 * Usable as a `CxMem *` parent for every libusual allocator-taking API. */
#ifndef VERIF_TRKCX_H
#define VERIF_TRKCX_H
#include <usual/cxalloc.h>
#include <stdlib.h>
#include <string.h>

struct TrkHdr { size_t len; size_t magic; };
#define TRK_MAGIC 0x74726b6d61676963ULL

static long trk_live;        /* regions currently allocated */
static long trk_live_bytes;
static long trk_requests;    /* alloc+realloc requests seen so far */
static long trk_fail_at;     /* fail request number k (1-based); 0 = never */
static long trk_fail_count;  /* how many failures were injected */
static long trk_fail_from;   /* when >0: fail every request >= this number */

static int trk_should_fail(void)
{
	trk_requests++;
	if ((trk_fail_at && trk_requests == trk_fail_at) ||
	    (trk_fail_from && trk_requests >= trk_fail_from)) {
		trk_fail_count++;
		return 1;
	}
	return 0;
}

static void *trk_alloc(void *ctx, size_t len)
{
	struct TrkHdr *h;
	if (trk_should_fail()) return NULL;
	h = malloc(sizeof(*h) + len);
	if (!h) return NULL;
	h->len = len; h->magic = TRK_MAGIC;
	trk_live++; trk_live_bytes += len;
	return h + 1;
}

static void trk_free(void *ctx, void *ptr)
{
	struct TrkHdr *h;
	/* CxOps contract (usual/cxalloc.h): c_free is never handed NULL - cx_free() filters it.
	 * A parent allocator that tolerated NULL would hide a regression in that filter. */
	if (!ptr) { fprintf(stderr, "trk_free: c_free called with NULL (cx_free must filter it)\n"); abort(); }
	h = (struct TrkHdr *)ptr - 1;
	if (h->magic != TRK_MAGIC) { fprintf(stderr, "trk_free: bad magic\n"); abort(); }
	h->magic = 0;
	trk_live--; trk_live_bytes -= h->len;
	memset(ptr, 0xDD, h->len);
	free(h);
}

static void *trk_realloc(void *ctx, void *ptr, size_t len)
{
	struct TrkHdr *h, *n;
	if (!ptr) return trk_alloc(ctx, len);
	if (trk_should_fail()) return NULL;
	h = (struct TrkHdr *)ptr - 1;
	if (h->magic != TRK_MAGIC) { fprintf(stderr, "trk_realloc: bad magic\n"); abort(); }
	/* always move, so stale pointers are caught by ASan */
	n = malloc(sizeof(*n) + len);
	if (!n) return NULL;
	n->len = len; n->magic = TRK_MAGIC;
	memcpy(n + 1, ptr, len < h->len ? len : h->len);
	trk_live_bytes += (long)len - (long)h->len;
	h->magic = 0;
	memset(ptr, 0xDD, h->len);
	free(h);
	return n + 1;
}

static const struct CxOps trk_ops = {
	trk_alloc, trk_realloc, trk_free, NULL,
};
static const struct CxMem trk_cx = { &trk_ops, NULL };

static void trk_reset(void) { trk_requests = 0; trk_fail_at = 0; trk_fail_from = 0; trk_fail_count = 0; }
#endif

/* ---- appended for C09 (append-only extension; nothing above is changed) ----------------------
 * trkm: a base CxMem whose returned addresses modulo 4096 are dictated by the caller
 * (trkm_next_mis, a multiple of the parent alignment under test), with a table of every region
 * (sequence number, address, size, live flag).  Each region sits in its own 4096-aligned raw
 * allocation; the bytes before and after the region are poisoned for AddressSanitizer, so an
 * access outside the region is reported even though it stays inside the raw allocation.
 * Honours trk_fail_at / trk_fail_from like trk_cx. */
#ifndef VERIF_TRKM
#define VERIF_TRKM
#include <stdint.h>
#if defined(__SANITIZE_ADDRESS__)
#include <sanitizer/asan_interface.h>
#define TRKM_POISON(p, n) ASAN_POISON_MEMORY_REGION((p), (n))
#define TRKM_UNPOISON(p, n) ASAN_UNPOISON_MEMORY_REGION((p), (n))
#else
#define TRKM_POISON(p, n) ((void)0)
#define TRKM_UNPOISON(p, n) ((void)0)
#endif

struct TrkmReg { unsigned char *user; size_t len; unsigned char *raw; size_t rawlen; long seq; size_t mis; int live; };
static struct TrkmReg *trkm_regs;
static long trkm_n, trkm_cap;
static long trkm_seq;           /* regions handed out since trkm_reset() */
static long trkm_live;          /* regions currently live */
static size_t trkm_next_mis;    /* address modulo 4096 of the next region(s) */
static size_t trkm_last_req;

static void *trkm_alloc(void *ctx, size_t len)
{
	struct TrkmReg *r;
	size_t rawlen;
	void *raw = NULL;
	if (trk_should_fail()) return NULL;
	trkm_last_req = len;
	if (len > ((size_t)1 << 40)) return NULL;
	rawlen = ((len + 4095) & ~(size_t)4095) + 3 * 4096;
	if (posix_memalign(&raw, 4096, rawlen) != 0 || !raw) return NULL;
	if (trkm_n == trkm_cap) {
		trkm_cap = trkm_cap ? trkm_cap * 2 : 256;
		trkm_regs = realloc(trkm_regs, trkm_cap * sizeof(*trkm_regs));
	}
	r = &trkm_regs[trkm_n++];
	r->raw = raw; r->rawlen = rawlen;
	r->mis = trkm_next_mis % 4096;
	r->user = r->raw + 4096 + r->mis;
	r->len = len; r->seq = trkm_seq++; r->live = 1;
	trkm_live++;
	TRKM_POISON(r->raw, 4096 + r->mis);
	TRKM_POISON(r->user + len, rawlen - 4096 - r->mis - len);
	return r->user;
}

/* index of the live region containing [p, p+n), or -1 */
static long trkm_find(const void *p, size_t n)
{
	long i;
	const unsigned char *q = p;
	for (i = trkm_n - 1; i >= 0; i--) {
		struct TrkmReg *r = &trkm_regs[i];
		if (r->live && q >= r->user && q <= r->user + r->len && n <= (size_t)(r->user + r->len - q))
			return i;
	}
	return -1;
}

static void trkm_free(void *ctx, void *ptr)
{
	long i;
	if (!ptr) { fprintf(stderr, "trkm_free: c_free called with NULL (cx_free must filter it)\n"); abort(); }
	for (i = trkm_n - 1; i >= 0; i--)
		if (trkm_regs[i].live && trkm_regs[i].user == (unsigned char *)ptr) break;
	if (i < 0) { fprintf(stderr, "trkm_free: region not live (double free or foreign pointer)\n"); fflush(stdout); abort(); }
	trkm_regs[i].live = 0;
	trkm_live--;
	TRKM_UNPOISON(trkm_regs[i].raw, trkm_regs[i].rawlen);
	if (trkm_regs[i].len <= (64u << 20))
		memset(ptr, 0xDD, trkm_regs[i].len);
	free(trkm_regs[i].raw);
	trkm_regs[i].raw = NULL;
}

static void *trkm_realloc(void *ctx, void *ptr, size_t len)
{
	long i;
	void *n;
	size_t olen;
	if (!ptr) return trkm_alloc(ctx, len);
	for (i = trkm_n - 1; i >= 0; i--)
		if (trkm_regs[i].live && trkm_regs[i].user == (unsigned char *)ptr) break;
	if (i < 0) { fprintf(stderr, "trkm_realloc: region not live\n"); abort(); }
	olen = trkm_regs[i].len;
	n = trkm_alloc(ctx, len);            /* always moves, so stale pointers are caught */
	if (!n) return NULL;
	memcpy(n, ptr, len < olen ? len : olen);
	trkm_free(ctx, ptr);
	return n;
}

static const struct CxOps trkm_ops = { trkm_alloc, trkm_realloc, trkm_free, NULL };
static const struct CxMem trkm_cx = { &trkm_ops, NULL };

/* release everything still live and forget all regions */
static void trkm_reset(void)
{
	long i;
	for (i = 0; i < trkm_n; i++)
		if (trkm_regs[i].live) {
			TRKM_UNPOISON(trkm_regs[i].raw, trkm_regs[i].rawlen);
			free(trkm_regs[i].raw);
		}
	trkm_n = 0; trkm_seq = 0; trkm_live = 0; trkm_next_mis = 0;
}
#endif
