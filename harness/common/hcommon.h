/* Shared helpers for the C harnesses (line protocol, hex, splitmix64, tracking allocator). */
#ifndef VERIF_HCOMMON_H
#define VERIF_HCOMMON_H
#include <stdio.h>
#include <stdlib.h>
#include <string.h>
#include <stdint.h>
#include <stdbool.h>

/* ---- line reading: returns pointer to static buffer without trailing newline, NULL at EOF */
static char *hc_line(void)
{
	static char *buf = NULL;
	static size_t cap = 0;
	ssize_t n = getline(&buf, &cap, stdin);
	if (n < 0)
		return NULL;
	while (n > 0 && (buf[n - 1] == '\n' || buf[n - 1] == '\r'))
		buf[--n] = 0;
	return buf;
}

/* split in place on single spaces; returns number of words */
static int hc_words(char *line, char **w, int max)
{
	int n = 0;
	char *p = line;
	while (*p && n < max) {
		while (*p == ' ') p++;
		if (!*p) break;
		w[n++] = p;
		while (*p && *p != ' ') p++;
		if (*p) *p++ = 0;
	}
	return n;
}

static int hc_hexval(int c)
{
	if (c >= '0' && c <= '9') return c - '0';
	if (c >= 'a' && c <= 'f') return c - 'a' + 10;
	if (c >= 'A' && c <= 'F') return c - 'A' + 10;
	return -1;
}

/* parse hex ("-" = empty) into a fresh exact-size malloc buffer (so ASan sees overreads).
 * returns length or -1; *out is never NULL on success (1 byte allocated for empty). */
static long hc_unhex(const char *s, uint8_t **out)
{
	size_t n = strlen(s), i;
	uint8_t *b;
	if (strcmp(s, "-") == 0) { *out = malloc(1); return 0; }
	if (n % 2) return -1;
	b = malloc(n / 2 ? n / 2 : 1);
	for (i = 0; i < n / 2; i++) {
		int a = hc_hexval(s[2 * i]), c = hc_hexval(s[2 * i + 1]);
		if (a < 0 || c < 0) { free(b); return -1; }
		b[i] = a * 16 + c;
	}
	*out = b;
	return n / 2;
}

static void hc_puthex(const void *p, size_t n)
{
	const uint8_t *b = p;
	size_t i;
	if (n == 0) { fputc('-', stdout); return; }
	for (i = 0; i < n; i++)
		printf("%02x", b[i]);
}

/* ---- splitmix64 */
static uint64_t hc_rng_state;
static void hc_seed(uint64_t seed)
{
	/* hash the seed: consecutive seeds must not give the same stream shifted by one */
	uint64_t z = seed * 0xD6E8FEB86659FD93ULL + 0x1234567ULL;
	z = (z ^ (z >> 32)) * 0xD6E8FEB86659FD93ULL;
	hc_rng_state = z ^ (z >> 32);
}
static uint64_t hc_rand(void)
{
	uint64_t z = (hc_rng_state += 0x9E3779B97F4A7C15ULL);
	z = (z ^ (z >> 30)) * 0xBF58476D1CE4E5B9ULL;
	z = (z ^ (z >> 27)) * 0x94D049BB133111EBULL;
	return z ^ (z >> 31);
}

/* ---- FNV-1a 64 for range-hash protocols */
static inline uint64_t hc_fnv(uint64_t h, uint64_t v)
{
	int i;
	for (i = 0; i < 8; i++) { h ^= (v >> (8 * i)) & 0xff; h *= 0x100000001b3ULL; }
	return h;
}
#define HC_FNV_INIT 0xcbf29ce484222325ULL

#endif
