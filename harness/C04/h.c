/* C04 harness: drives the INTERNAL regex (usual/regex.c, forced with -DUSE_INTERNAL_REGEX)
 * through the line protocol.
 *
 *   x <cflags> <pattern-hex> <nm,nm,..> <ef,ef,..> <subject-hex>...
 *        compile once; for every subject (outer), eflags value (middle) and nmatch spec
 *        (inner; integer, `n` = re_nsub+1, `m` = re_nsub+2) run usual_regexec.
 *        output:  `err ## code=<rc>`                      when regcomp fails
 *                 `ok nsub=<n> <tok> <tok> ...`           otherwise, one token per exec:
 *                     `-`        no match            `+`   match, nothing reported (nmatch 0 / NOSUB)
 *                     `so,eo`    pmatch[0]           `slow` per-exec alarm fired (not compared; after two
 *                                                          of them the rest of the line is skipped as `slow`)
 *                 a token gets a suffix `!...` when the implementation's own output breaks
 *                 the sub-match clause (pmatchOk), writes outside [0,nmatch) / with NOSUB,
 *                 returns an unknown code or leaks; such a suffix never appears on the
 *                 model side, so it is an observable difference.
 *   y ...same arguments as x...
 *        same output as `x`, followed by ` ## ` and one *internal* token per exec: `-`, `+`, or
 *        the whole pmatch array `so,eo;so,eo;...` (compared with the Lean model of the C matcher,
 *        lean/Usual/C04/CMatch.lean; `?` = timed out)
 *   p <cflags> <pattern-hex> <nmatch> <eflags> <subject-hex>
 *        one exec, prints the whole pmatch array AT&T style: `ok nsub=<n> (0,3)(?,?)`,
 *        `ok nsub=<n> NOMATCH`, or `err ## code=<rc>` (regression-table mode).
 *
 * Pattern and subject live in exact-size heap blocks (length+1 for the NUL) and pmatch in an
 * exact-size heap block of nmatch entries, so that ASan sees every over/under-read and every
 * write past nmatch.
 * calloc/free are wrapped (-Wl,--wrap) while library code runs: after regfree nothing may
 * stay allocated.  argv[1] = per-exec alarm in milliseconds (default 5000). */
#include "hcommon.h"
#include <signal.h>
#include <setjmp.h>
#include <sys/time.h>
#include <usual/regex.h>

#ifdef USE_SYSTEM_REGEX
#error "harness must be built against the internal regex"
#endif

static long trk_live;
static int trk_on;
void *__real_calloc(size_t n, size_t sz);
void __real_free(void *p);
void *__wrap_calloc(size_t n, size_t sz)
{
	void *p = __real_calloc(n, sz);
	if (p && trk_on) trk_live++;
	return p;
}
void __wrap_free(void *p)
{
	if (p && trk_on) trk_live--;
	__real_free(p);
}

static sigjmp_buf slow_jmp;
static volatile int slow_armed;
static void on_alarm(int sig)
{
	if (slow_armed) {
		slow_armed = 0;
		siglongjmp(slow_jmp, 1);
	}
}

static long alarm_ms = 5000;
static void arm(long ms)
{
	struct itimerval it;
	memset(&it, 0, sizeof it);
	it.it_value.tv_sec = ms / 1000;
	it.it_value.tv_usec = (ms % 1000) * 1000;
	setitimer(ITIMER_REAL, &it, NULL);
}

/* NUL-terminated exact-size copy; fails (returns NULL) when the bytes contain a NUL */
static char *cstr_exact(const uint8_t *b, long n)
{
	char *s;
	if (n > 0 && memchr(b, 0, n)) return NULL;
	s = malloc(n + 1);
	if (n > 0) memcpy(s, b, n);
	s[n] = 0;
	return s;
}

static int parse_int(const char *s, long *out)
{
	char *e;
	if (!*s) return 0;
	*out = strtol(s, &e, 10);
	return *e == 0;
}

#define SENT (-2L)

/* one exec; returns 0 ok / -1 slow.  *rc_p = regexec rc; pm = fresh exact-size array */
static int run_exec(regex_t *rx, const char *subj, long nm, int ef, regmatch_t **pm_p, int *rc_p)
{
	regmatch_t *pm = malloc(nm > 0 ? nm * sizeof(regmatch_t) : 1);
	long i;
	for (i = 0; i < nm; i++) pm[i].rm_so = pm[i].rm_eo = SENT;
	*pm_p = pm;
	if (sigsetjmp(slow_jmp, 1)) {
		arm(0);
		trk_on = 0;
		return -1;
	}
	slow_armed = 1;
	arm(alarm_ms);
	trk_on = 1;
	*rc_p = usual_regexec(rx, subj, nm, nm > 0 ? pm : NULL, ef);
	trk_on = 0;
	slow_armed = 0;
	arm(0);
	return 0;
}

/* the sub-match clause on the implementation's own output */
static const char *pmatch_ok(const regmatch_t *pm, long nm, long nsub, long slen, int nosub, int rc)
{
	long i;
	if (nosub || rc != 0) {
		/* nothing may be reported: NOSUB leaves the array alone, no-match leaves -1 */
		for (i = 0; i < nm; i++) {
			long want = nosub ? SENT : -1;
			if (pm[i].rm_so != want || pm[i].rm_eo != want) return "!TOUCHED";
		}
		return "";
	}
	if (nm == 0) return "";
	if (!(0 <= pm[0].rm_so && pm[0].rm_so <= pm[0].rm_eo && pm[0].rm_eo <= slen)) return "!PM0";
	for (i = 1; i < nm; i++) {
		long so = pm[i].rm_so, eo = pm[i].rm_eo;
		if (so == -1 && eo == -1) continue;
		if (i > nsub) return "!BEYOND";         /* entries past re_nsub must be -1 */
		if (!(0 <= so && so <= eo && eo <= slen)) return "!SUBRANGE";
		if (!(pm[0].rm_so <= so && eo <= pm[0].rm_eo)) return "!SUBOUTSIDE";
	}
	return "";
}

static int want_full;	/* `y` op: also print the whole pmatch array of every exec after ` ## ` */
static char *fullbuf;
static size_t fulllen, fullcap;
static void full_add(const char *s)
{
	size_t n = strlen(s);
	if (fulllen + n + 2 > fullcap) {
		fullcap = (fullcap + n + 2) * 2;
		fullbuf = realloc(fullbuf, fullcap);
	}
	memcpy(fullbuf + fulllen, s, n + 1);
	fulllen += n;
}

static void do_x(char **w, int nw)
{
	long cflags, patlen, i;
	uint8_t *pb = NULL;
	char *pat;
	regex_t rx;
	int rc;
	char *nmspec[16], *efspec[16];
	int nnm, nef, a, b, nslow;
	long efv[16];
	char *p;

	if (nw < 6 || !parse_int(w[1], &cflags) || cflags < 0 || cflags > 15) { puts("bad-op"); return; }
	patlen = hc_unhex(w[2], &pb);
	if (patlen < 0) { puts("bad-op"); return; }
	pat = cstr_exact(pb, patlen);
	free(pb);
	if (!pat) { puts("bad-op"); return; }
	nnm = 0;
	for (p = strtok(w[3], ","); p && nnm < 16; p = strtok(NULL, ",")) nmspec[nnm++] = p;
	nef = 0;
	for (p = strtok(w[4], ","); p && nef < 16; p = strtok(NULL, ",")) efspec[nef++] = p;
	if (nnm == 0 || nef == 0) { free(pat); puts("bad-op"); return; }
	for (a = 0; a < nef; a++)
		if (!parse_int(efspec[a], &efv[a]) || (efv[a] & ~48L)) { free(pat); puts("bad-op"); return; }
	for (a = 0; a < nnm; a++) {
		long v;
		if (strcmp(nmspec[a], "n") && strcmp(nmspec[a], "m") &&
		    (!parse_int(nmspec[a], &v) || v < 0 || v > 200)) { free(pat); puts("bad-op"); return; }
	}

	trk_live = 0;
	trk_on = 1;
	rc = usual_regcomp(&rx, pat, (int)cflags);
	trk_on = 0;
	if (rc != 0) {
		/* failed compile must have released everything (regcomp calls regfree itself) */
		printf("err%s ## code=%d\n", trk_live ? "!LEAK" : "", rc);
		free(pat);
		return;
	}
	printf("ok nsub=%d", rx.re_nsub);
	nslow = 0;
	fulllen = 0;
	if (fullbuf) fullbuf[0] = 0;
	for (i = 5; i < nw; i++) {
		uint8_t *sb = NULL;
		long slen = hc_unhex(w[i], &sb);
		char *subj = slen < 0 ? NULL : cstr_exact(sb, slen);
		if (slen >= 0) free(sb);
		if (!subj) { printf(" bad-subject"); continue; }
		for (a = 0; a < nef; a++) for (b = 0; b < nnm; b++) {
			long nm;
			regmatch_t *pm;
			int erc = -1;
			const char *bad;
			if (!strcmp(nmspec[b], "n")) nm = rx.re_nsub + 1;
			else if (!strcmp(nmspec[b], "m")) nm = rx.re_nsub + 2;
			else parse_int(nmspec[b], &nm);
			/* a pattern that timed out twice on this line is not run again on it */
			if (nslow >= 2) {
				printf(" slow");
				if (want_full) full_add(" ?");
				continue;
			}
			if (run_exec(&rx, subj, nm, (int)efv[a], &pm, &erc) < 0) {
				printf(" slow");
				if (want_full) full_add(" ?");
				nslow++;
				free(pm);
				continue;
			}
			if (want_full) {
				/* internal projection: rc and every entry of pmatch */
				if (erc == REG_NOMATCH) full_add(" -");
				else if (erc != 0) full_add(" rc");
				else if (nm == 0 || (cflags & REG_NOSUB)) full_add(" +");
				else {
					long k;
					char tmp[64];
					for (k = 0; k < nm; k++) {
						snprintf(tmp, sizeof tmp, "%s%ld,%ld", k ? ";" : " ", (long)pm[k].rm_so, (long)pm[k].rm_eo);
						full_add(tmp);
					}
				}
			}
			if (erc != 0 && erc != REG_NOMATCH) {
				printf(" rc%d!BADRC", erc);
				free(pm);
				continue;
			}
			bad = pmatch_ok(pm, nm, rx.re_nsub, slen, (cflags & REG_NOSUB) != 0, erc);
			if (erc == REG_NOMATCH) printf(" -%s", bad);
			else if (nm == 0 || (cflags & REG_NOSUB)) printf(" +%s", bad);
			else printf(" %ld,%ld%s", (long)pm[0].rm_so, (long)pm[0].rm_eo, bad);
			free(pm);
		}
		free(subj);
	}
	trk_on = 1;
	usual_regfree(&rx);
	trk_on = 0;
	if (trk_live != 0) printf(" !LEAK%ld", trk_live);
	if (want_full) printf(" ##%s", fulllen ? fullbuf : "");
	printf("\n");
	free(pat);
}

static void do_p(char **w, int nw)
{
	long cflags, patlen, nm, ef, slen, i;
	uint8_t *pb = NULL, *sb = NULL;
	char *pat, *subj;
	regex_t rx;
	regmatch_t *pm;
	int rc, erc = -1;

	if (nw != 6 || !parse_int(w[1], &cflags) || cflags < 0 || cflags > 15 ||
	    !parse_int(w[3], &nm) || nm < 0 || nm > 200 || !parse_int(w[4], &ef) || (ef & ~48L)) {
		puts("bad-op");
		return;
	}
	patlen = hc_unhex(w[2], &pb);
	if (patlen < 0) { puts("bad-op"); return; }
	pat = cstr_exact(pb, patlen);
	free(pb);
	slen = hc_unhex(w[5], &sb);
	subj = slen < 0 ? NULL : cstr_exact(sb, slen);
	if (slen >= 0) free(sb);
	if (!pat || !subj) { free(pat); free(subj); puts("bad-op"); return; }
	trk_live = 0;
	trk_on = 1;
	rc = usual_regcomp(&rx, pat, (int)cflags);
	trk_on = 0;
	if (rc != 0) {
		printf("err%s ## code=%d\n", trk_live ? "!LEAK" : "", rc);
		free(pat); free(subj);
		return;
	}
	printf("ok nsub=%d ", rx.re_nsub);
	if (run_exec(&rx, subj, nm, (int)ef, &pm, &erc) < 0) {
		printf("slow");
	} else if (erc == REG_NOMATCH) {
		printf("NOMATCH");
	} else if (erc != 0) {
		printf("rc%d!BADRC", erc);
	} else if (nm == 0 || (cflags & REG_NOSUB)) {
		printf("NULL");
	} else {
		long top = nm < rx.re_nsub + 1 ? nm : rx.re_nsub + 1;
		for (i = 0; i < top; i++) {
			if (pm[i].rm_so == -1) printf("(?,"); else printf("(%ld,", (long)pm[i].rm_so);
			if (pm[i].rm_eo == -1) printf("?)"); else printf("%ld)", (long)pm[i].rm_eo);
		}
		printf("%s", pmatch_ok(pm, nm, rx.re_nsub, slen, 0, 0));
	}
	free(pm);
	trk_on = 1;
	usual_regfree(&rx);
	trk_on = 0;
	if (trk_live != 0) printf(" !LEAK%ld", trk_live);
	printf("\n");
	free(pat); free(subj);
}

int main(int argc, char **argv)
{
	char *line;
	struct sigaction sa;
	static char *w[4096];

	if (argc > 1) alarm_ms = atol(argv[1]);
	memset(&sa, 0, sizeof sa);
	sa.sa_handler = on_alarm;
	sigemptyset(&sa.sa_mask);
	sigaction(SIGALRM, &sa, NULL);
	setvbuf(stdout, NULL, _IOLBF, 1 << 16);   /* a crash must not lose finished lines */

	while ((line = hc_line())) {
		int nw;
		if (strcmp(line, "#case") == 0) { puts("#case"); continue; }
		nw = hc_words(line, w, 4096);
		if (nw == 0) { puts("bad-op"); continue; }
		if (!strcmp(w[0], "x")) { want_full = 0; do_x(w, nw); }
		else if (!strcmp(w[0], "y")) { want_full = 1; do_x(w, nw); }
		else if (!strcmp(w[0], "p")) do_p(w, nw);
		else puts("bad-op");
	}
	fflush(stdout);
	return 0;
}
