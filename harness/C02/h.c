/* C02 correspondence harness: the real json_parse on exact-size heap copies (ASan sees any
 * over-read), each of the 4 option sets x 4 pool initial sizes, canonical dump of the result
 * tree through the public accessors only.
 *
 * op lines:
 *   d <hex>      parse the document with options 0..3 (json_set_options) and on a context that
 *                never saw json_set_options (documented default = strict, UTF-8 validated);
 *                output "r0 | r1 | r2 | r3 | rdefault" where
 *                r = "ok <dump>" or "err <class>" (or "pooldiff …" when the result depends
 *                on the pool's initial size)
 *   s <hex> ...  the documents parsed one after the other on ONE JsonContext per option set
 *                (json_parse resets the parser itself; a context is reused after successes and
 *                after failures); output "a0 ; b0 ; ... | a1 ; b1 ; ... | ..." (one group per
 *                option set, and a fifth group: default context -> parse -> json_set_options(i % 4)
 *                -> parse -> ...); every result is dumped before the next parse
 *   f <hex>      strtod on the NUL-terminated token: "<bits hex> <consumed>"
 *   #case        echo
 * `h --time` prints wall-clock parse times for the linear-time clause.
 */
#include <usual/json.h>
#include <usual/string.h>
#include <usual/mbuf.h>
#include <errno.h>
#include <time.h>
#include "hcommon.h"

/* ---- growable output buffer */
static char *ob;
static size_t ob_len, ob_cap;
static void ob_reset(void) { ob_len = 0; }
static void ob_put(const char *s, size_t n)
{
	if (ob_len + n + 1 > ob_cap) {
		ob_cap = (ob_len + n + 1) * 2;
		ob = realloc(ob, ob_cap);
	}
	memcpy(ob + ob_len, s, n);
	ob_len += n;
	ob[ob_len] = 0;
}
static void ob_puts(const char *s) { ob_put(s, strlen(s)); }
static void ob_hex(const void *p, size_t n)
{
	static const char hx[] = "0123456789abcdef";
	const uint8_t *b = p;
	char tmp[2];
	size_t i;
	if (n == 0) { ob_put("-", 1); return; }
	for (i = 0; i < n; i++) {
		tmp[0] = hx[b[i] >> 4]; tmp[1] = hx[b[i] & 15];
		ob_put(tmp, 2);
	}
}

/* ---- canonical dump: the tree is walked with an explicit stack of iterators?  No: the
 * public API only offers callback iteration, which recurses.  Depth is bounded by the
 * generator (<= 600), so plain recursion is fine. */
static bool dump_val(struct JsonValue *v);
struct It { int n; };
static bool list_cb(void *arg, struct JsonValue *elem)
{
	struct It *it = arg;
	if (it->n++) ob_put(",", 1);
	return dump_val(elem);
}
static bool dict_cb(void *arg, struct JsonValue *key, struct JsonValue *val)
{
	struct It *it = arg;
	const char *s; size_t n;
	if (it->n++) ob_put(",", 1);
	if (!json_value_as_string(key, &s, &n)) { ob_puts("?key"); return false; }
	ob_hex(s, n);
	ob_put(":", 1);
	if (!val) { ob_puts("?noval"); return false; }
	return dump_val(val);
}
static bool dump_val(struct JsonValue *v)
{
	char tmp[64];
	struct It it = {0};
	switch (json_value_type(v)) {
	case JSON_NULL: ob_put("n", 1); return true;
	case JSON_BOOL: { bool b; if (!json_value_as_bool(v, &b)) return false; ob_put(b ? "t" : "f", 1); return true; }
	case JSON_INT: { int64_t i; if (!json_value_as_int(v, &i)) return false;
		snprintf(tmp, sizeof tmp, "i%lld", (long long)i); ob_puts(tmp); return true; }
	case JSON_FLOAT: { double d; uint64_t u; if (!json_value_as_float(v, &d)) return false;
		memcpy(&u, &d, 8); snprintf(tmp, sizeof tmp, "d%llx", (unsigned long long)u); ob_puts(tmp); return true; }
	case JSON_STRING: { const char *s; size_t n; if (!json_value_as_string(v, &s, &n)) return false;
		if (s[n] != 0) { ob_puts("?unterminated"); return false; }
		if (json_value_size(v) != n) { ob_puts("?size"); return false; }
		ob_put("s", 1); ob_hex(s, n); return true; }
	case JSON_LIST: {
		bool ok;
		ob_put("[", 1);
		ok = json_list_iter(v, list_cb, &it);
		ob_put("]", 1);
		if (!ok && !strchr(ob, '?')) ob_puts("?list-iter-false");
		if (ok && json_value_size(v) != (size_t)it.n) { ob_puts("?size"); return false; }
		return ok; }
	case JSON_DICT: {
		bool ok;
		ob_put("{", 1);
		ok = json_dict_iter(v, dict_cb, &it);
		ob_put("}", 1);
		/* an iteration that gives up must not look like a smaller (or empty) object */
		if (!ok && !strchr(ob, '?')) ob_puts("?dict-iter-false");
		if (ok && json_value_size(v) != (size_t)it.n) { ob_puts("?size"); return false; }
		return ok; }
	default: ob_puts("?type"); return false;
	}
}

/* every accepted tree must also render (json_render walks all members through json_dict_iter) */
static void check_render(struct JsonValue *v)
{
	struct MBuf mb;
	mbuf_init_dynamic(&mb);
	if (!json_render(&mb, v)) ob_puts("?render-false");
	mbuf_free(&mb);
}

static const char *err_class(const char *msg)
{
	static const struct { const char *pfx, *cls; } map[] = {
		{"Unexpected end of token", "end-of-token"}, {"Invalid token", "invalid-token"},
		{"Number parse failed", "number"}, {"Invalid hex escape", "hex-escape"},
		{"Invalid UTF16 escape", "utf16-escape"}, {"Unexpected end of string", "end-of-string"},
		{"Invalid UTF8 sequence", "utf8"}, {"Invalid escape code", "escape-code"},
		{"Unexpected symbol", "unexpected-symbol"}, {"Invalid symbol", "invalid-symbol"},
		{"Container still open", "still-open"}, {"Key insertion failed", "key-insertion"},
		{"Too large key", "large-key"}, {"close_container bug", "close-bug"},
		{"invalid parent", "invalid-parent"}, {"Expect dict", "expect-dict"},
		{"Only one top element", "one-top"}, {"No memory", "no-memory"},
		{"Unaligned pointer", "unaligned"}, {NULL, NULL} };
	const char *p;
	int i;
	if (!msg) return "none";
	if (strncmp(msg, "Line #", 6) != 0) return "?format";
	p = strstr(msg, ": ");
	if (!p) return "?format";
	p += 2;
	for (i = 0; map[i].pfx; i++)
		if (strncmp(p, map[i].pfx, strlen(map[i].pfx)) == 0)
			return map[i].cls;
	return "?unknown";
}

/* fifth "option set": json_set_options is never called on the fresh context */
#define NOSET 4u

/* one parse; result text appended to ob */
static void parse_once(const uint8_t *doc, size_t len, unsigned opts, size_t pool)
{
	struct JsonContext *ctx = json_new_context(NULL, pool);
	struct JsonValue *v;
	uint8_t *copy;
	if (!ctx) { ob_puts("noctx"); return; }
	if (opts < NOSET)            /* NOSET: straight from json_new_context, the documented default */
		json_set_options(ctx, opts);
	copy = malloc(len ? len : 1);          /* exact size: any read at copy[len] is reported */
	memcpy(copy, doc, len);
	v = json_parse(ctx, (const char *)copy, len);
	if (v) {
		ob_puts("ok ");
		if (json_strerror(ctx)) ob_puts("?lasterr-set ");
		dump_val(v);
		check_render(v);
	} else {
		ob_puts("err ");
		ob_puts(err_class(json_strerror(ctx)));
	}
	free(copy);
	json_free_context(ctx);
}

static const size_t POOLS[4] = {0, 64, 1024, 65536};

static void op_d(const char *hex)
{
	uint8_t *doc;
	long len = hc_unhex(hex, &doc);
	unsigned opts;
	int p;
	char *first = NULL;
	if (len < 0) { puts("bad-op"); return; }
	for (opts = 0; opts <= NOSET; opts++) {
		bool diff = false;
		for (p = 0; p < 4; p++) {
			ob_reset();
			ob_put("", 0);
			parse_once(doc, len, opts, POOLS[p]);
			if (p == 0) {
				free(first);
				first = strdup(ob);
			} else if (strcmp(first, ob) != 0) {
				diff = true;
				break;
			}
		}
		if (opts) fputs(" | ", stdout);
		if (diff) printf("pooldiff pool0: %s pool%zu: %s", first, POOLS[p], ob);
		else fputs(first, stdout);
	}
	fputc('\n', stdout);
	free(first);
	free(doc);
}

/* one parse on an existing context; result text appended to ob */
static void parse_on(struct JsonContext *ctx, const uint8_t *doc, size_t len)
{
	struct JsonValue *v;
	uint8_t *copy = malloc(len ? len : 1);
	memcpy(copy, doc, len);
	v = json_parse(ctx, (const char *)copy, len);
	if (v) {
		ob_puts("ok ");
		if (json_strerror(ctx)) ob_puts("?lasterr-set ");
		dump_val(v);
		check_render(v);
	} else {
		ob_puts("err ");
		ob_puts(err_class(json_strerror(ctx)));
	}
	free(copy);
}

#define MAXSEQ 62
static void op_s(char **hex, int n)
{
	uint8_t *doc[MAXSEQ];
	long len[MAXSEQ];
	unsigned opts;
	int i, p;
	char *first = NULL;
	for (i = 0; i < n; i++) {
		len[i] = hc_unhex(hex[i], &doc[i]);
		if (len[i] < 0) { while (i--) free(doc[i]); puts("bad-op"); return; }
	}
	for (opts = 0; opts <= NOSET; opts++) {
		bool diff = false;
		for (p = 0; p < 4; p++) {
			struct JsonContext *ctx = json_new_context(NULL, POOLS[p]);
			ob_reset();
			ob_put("", 0);
			if (opts < NOSET)
				json_set_options(ctx, opts);
			for (i = 0; i < n; i++) {
				if (i) ob_puts(" ; ");
				/* fifth group: default context for the first document, then the
				 * options are changed before every further parse */
				if (opts == NOSET && i > 0)
					json_set_options(ctx, (unsigned)i % 4);
				parse_on(ctx, doc[i], len[i]);
			}
			json_free_context(ctx);
			if (p == 0) {
				free(first);
				first = strdup(ob);
			} else if (strcmp(first, ob) != 0) {
				diff = true;
				break;
			}
		}
		if (opts) fputs(" | ", stdout);
		if (diff) printf("pooldiff pool0: %s pool%zu: %s", first, POOLS[p], ob);
		else fputs(first, stdout);
	}
	fputc('\n', stdout);
	free(first);
	for (i = 0; i < n; i++) free(doc[i]);
}

static void op_f(const char *hex)
{
	uint8_t *tok;
	long len = hc_unhex(hex, &tok);
	char *z, *e = NULL;
	double d; uint64_t u;
	if (len < 0) { puts("bad-op"); return; }
	z = malloc(len + 1);
	memcpy(z, tok, len); z[len] = 0;
	errno = 0;
	d = strtod_dot(z, &e);
	memcpy(&u, &d, 8);
	printf("%llx %ld\n", (unsigned long long)u, (long)(e - z));
	free(z); free(tok);
}

/* ---- linear-time clause */
static double now(void)
{
	struct timespec ts;
	clock_gettime(CLOCK_MONOTONIC, &ts);
	return ts.tv_sec + ts.tv_nsec * 1e-9;
}
static size_t fill(char *b, size_t n, int kind)
{
	size_t i = 0;
	static const char *unit[] = {
		"[1,2.5e3,\"ab\\u00e9\\n\",null,true,false,{\"k\":[]}],",    /* mixed list items */
		"\"k%08zu\":{\"a\":[1,2,3],\"b\":\"\\ud83d\\ude00\"},",        /* dict members, distinct keys */
	};
	switch (kind) {
	case 0: b[i++] = '['; while (i + 64 < n) i += sprintf(b + i, "%s", unit[0]); i += sprintf(b + i, "0]"); break;
	case 1: { size_t k = 0; b[i++] = '{'; while (i + 80 < n) i += sprintf(b + i, unit[1], k++); i += sprintf(b + i, "\"z\":0}"); break; }
	case 2: while (i < n / 2) b[i++] = '['; while (i < n) b[i++] = ']'; break;            /* deep nesting */
	case 3: b[i++] = '"'; while (i + 8 < n) { memcpy(b + i, "\\u00e9\xc3\xa9", 8); i += 8; } b[i++] = '"'; break; /* one long string */
	case 4: b[i++] = '['; while (i + 2 < n) b[i++] = ' '; b[i++] = ']'; break;               /* white space */
	case 5: while (i + 1 < n) b[i++] = '['; b[i++] = 'x'; break;                            /* late error */
	case 6: b[i++] = '['; while (i + 12 < n) { memcpy(b + i, "1/*x*/ ,", 8); i += 8; } b[i++] = '1'; b[i++] = ']'; break; /* comments (relaxed) */
	}
	return i;
}
static int timing(void)
{
	size_t sizes[3] = {1u << 20, 1u << 21, 1u << 22};
	int kind, s, rep;
	for (kind = 0; kind <= 6; kind++) {
		printf("time kind=%d", kind);
		for (s = 0; s < 3; s++) {
			char *b = malloc(sizes[s] + 128);
			size_t n = fill(b, sizes[s], kind);
			double best = 1e9;
			for (rep = 0; rep < 3; rep++) {
				struct JsonContext *ctx = json_new_context(NULL, 0);
				double t0, t1;
				json_set_options(ctx, 1);
				t0 = now();
				json_parse(ctx, b, n);
				t1 = now();
				if (t1 - t0 < best) best = t1 - t0;
				json_free_context(ctx);
			}
			printf(" %zu:%.6f", n, best);
			free(b);
		}
		printf("\n");
	}
	return 0;
}

int main(int argc, char **argv)
{
	char *line;
	if (argc > 1 && strcmp(argv[1], "--time") == 0)
		return timing();
	while ((line = hc_line()) != NULL) {
		char *w[MAXSEQ + 2];
		int n;
		if (strcmp(line, "#case") == 0) { puts("#case"); continue; }
		n = hc_words(line, w, MAXSEQ + 2);
		if (n == 2 && strcmp(w[0], "d") == 0) op_d(w[1]);
		else if (n >= 2 && n <= MAXSEQ + 1 && strcmp(w[0], "s") == 0) op_s(w + 1, n - 1);
		else if (n == 2 && strcmp(w[0], "f") == 0) op_f(w[1]);
		else puts("bad-op");
	}
	return 0;
}
