/* C02 T-tie: prints the constants of usual/json.c that the Lean model takes as data.
 * Compiled on every run against the working tree (json.c is #included so that the static
 * tables and enums are visible); checks/C02.py turns the output into
 * lean/Usual/Gen/C02Tables.lean.  The compiler evaluates the designated initialisers and the
 * INTMAP256_CONST expansion, nothing is evaluated by hand. */
#include "usual/json.c"
#include <stdio.h>

#define P(name) printf("const " #name " %lld\n", (long long)(name))

int main(void)
{
	int s, t, i;
	uint32_t w;
	unsigned char b[4];

	P(S_INITIAL_VALUE); P(S_LIST_VALUE); P(S_LIST_VALUE_OR_CLOSE); P(S_LIST_COMMA_OR_CLOSE);
	P(S_DICT_KEY); P(S_DICT_KEY_OR_CLOSE); P(S_DICT_COLON); P(S_DICT_VALUE);
	P(S_DICT_COMMA_OR_CLOSE); P(S_PARENT); P(S_DONE); P(MAX_STATES);
	P(T_STRING); P(T_OTHER); P(T_COMMA); P(T_COLON); P(T_OPEN_DICT); P(T_OPEN_LIST);
	P(T_CLOSE_DICT); P(T_CLOSE_LIST); P(MAX_TOKENS);
	P(NUMBER_BUF); P(JSON_MAXINT); P(JSON_MININT); P(JSON_MAX_KEY);
	P(JSON_PARSE_RELAXED); P(JSON_PARSE_IGNORE_ENCODING);
	printf("dims %d %d %d\n", (int)(sizeof(STATE_STEPS) / sizeof(STATE_STEPS[0])),
	       (int)(sizeof(STATE_STEPS[0]) / sizeof(STATE_STEPS[0][0])),
	       (int)(sizeof(string_examine_chars) / sizeof(string_examine_chars[0])));
	for (s = 0; s < MAX_STATES; s++) {
		printf("steps %d", s);
		for (t = 0; t < MAX_TOKENS; t++)
			printf(" %d", STATE_STEPS[s][t]);
		printf("\n");
	}
	printf("examine");
	for (i = 0; i < 256; i++)
		printf(" %d", string_examine_chars[i]);
	printf("\n");
	w = C_NULL; memcpy(b, &w, 4); printf("fourcc C_NULL %d %d %d %d\n", b[0], b[1], b[2], b[3]);
	w = C_TRUE; memcpy(b, &w, 4); printf("fourcc C_TRUE %d %d %d %d\n", b[0], b[1], b[2], b[3]);
	w = C_ALSE; memcpy(b, &w, 4); printf("fourcc C_ALSE %d %d %d %d\n", b[0], b[1], b[2], b[3]);
	return 0;
}
