/* C05 harness: crypto primitives of libusual driven in-process through the line protocol.
 *
 * Built three times by checks/C05.py: default, -DKECCAK_SMALL, -DKECCAK_32BIT (keccak.c is
 * #included so that the macro selects the code path and the static keccak_f/xor_lane/extract
 * are reachable for the raw-permutation op).  Every input is an exact-size malloc copy and
 * every output buffer an exact-size malloc, so ASan sees any read or write outside the
 * buffers handed to the library.
 */
#include <usual/crypto/keccak.c>
#include <usual/crypto/sha3.h>
#include <usual/crypto/keccak_prng.h>
#include <usual/crypto/digest.h>
#include <usual/crypto/hmac.h>
#include <usual/crypto/chacha.h>
#include <usual/crypto/md5.h>
#include <usual/crypto/sha1.h>
#include <usual/crypto/sha256.h>
#include <usual/crypto/sha512.h>
#include "hcommon.h"
#include <unistd.h>

static struct DigestContext *dig;
static int dig_done;
static struct HMAC *hm;
static int hm_done;
static struct SHA3Context *sh;
static struct KeccakContext *kc;
static struct KeccakPRNG *prng;
static struct ChaCha *cc;
static int cc_key, cc_nonce;

static const struct DigestInfo *info_by_name(const char *n)
{
	if (!strcmp(n, "md5")) return digest_MD5();
	if (!strcmp(n, "sha1")) return digest_SHA1();
	if (!strcmp(n, "sha224")) return digest_SHA224();
	if (!strcmp(n, "sha256")) return digest_SHA256();
	if (!strcmp(n, "sha384")) return digest_SHA384();
	if (!strcmp(n, "sha512")) return digest_SHA512();
	if (!strcmp(n, "sha3_224")) return digest_SHA3_224();
	if (!strcmp(n, "sha3_256")) return digest_SHA3_256();
	if (!strcmp(n, "sha3_384")) return digest_SHA3_384();
	if (!strcmp(n, "sha3_512")) return digest_SHA3_512();
	if (!strcmp(n, "shake128")) return digest_SHAKE128();
	if (!strcmp(n, "shake256")) return digest_SHAKE256();
	return NULL;
}

typedef void (*sha3_reset_fn)(struct SHA3Context *);
static sha3_reset_fn sha3_by_name(const char *n)
{
	if (!strcmp(n, "sha3_224")) return sha3_224_reset;
	if (!strcmp(n, "sha3_256")) return sha3_256_reset;
	if (!strcmp(n, "sha3_384")) return sha3_384_reset;
	if (!strcmp(n, "sha3_512")) return sha3_512_reset;
	if (!strcmp(n, "shake128")) return shake128_reset;
	if (!strcmp(n, "shake256")) return shake256_reset;
	return NULL;
}

static void reset_all(void)
{
	if (dig) { digest_free(dig); dig = NULL; }
	if (hm) { hmac_free(hm); hm = NULL; }
	free(sh); sh = NULL;
	free(kc); kc = NULL;
	free(prng); prng = NULL;
	free(cc); cc = NULL;
	dig_done = hm_done = cc_key = cc_nonce = 0;
}

/* decimal number of at most 12 digits; -1 otherwise */
static long long parse_nat(const char *s)
{
	size_t n = strlen(s), i;
	long long v = 0;
	if (n == 0 || n > 12) return -1;
	for (i = 0; i < n; i++) {
		if (s[i] < '0' || s[i] > '9') return -1;
		v = v * 10 + (s[i] - '0');
	}
	return v;
}

/* byte counts: at most 1 MiB */
static long long parse_len(const char *s)
{
	long long v = parse_nat(s);
	return (v > 1048576) ? -1 : v;
}

static void bad(void) { puts("bad-op"); }

static uint8_t *outbuf(size_t n) { return malloc(n ? n : 1); }

static void put_k(const struct KeccakContext *k) { printf(" ## %u\n", (unsigned)k->pos); }
static void put_cc(void) { printf(" ## %u %u %u\n", cc->pos, (unsigned)cc->state[12], (unsigned)cc->state[13]); }

int main(void)
{
	char *line, *w[8];
	int nw;
	uint8_t *in = NULL, *out = NULL;
	long len;
	long long n;

	/* line-buffered: when an op crashes (ASan abort, alarm) every earlier result is already out,
	 * so the first missing line is the op that crashed */
	setvbuf(stdout, NULL, _IOLBF, 0);
	while ((line = hc_line()) != NULL) {
		alarm(20);	/* an op that does not return (e.g. a loop that stopped advancing) ends as a crash result */
		free(in); in = NULL;
		free(out); out = NULL;
		nw = hc_words(line, w, 8);
		if (nw == 1 && !strcmp(w[0], "#case")) {
			reset_all();
			puts("#case");
		/* ---------------- DigestInfo API */
		} else if (nw == 2 && !strcmp(w[0], "d.new")) {
			const struct DigestInfo *di = info_by_name(w[1]);
			if (!di) { bad(); continue; }
			if (dig) digest_free(dig);
			dig = digest_new(di, NULL);
			dig_done = 0;
			puts("ok");
		} else if (nw == 2 && !strcmp(w[0], "d.upd")) {
			if (!dig || dig_done || (len = hc_unhex(w[1], &in)) < 0) { bad(); continue; }
			digest_update(dig, in, len);
			puts("ok");
		} else if (nw == 1 && !strcmp(w[0], "d.fin")) {
			if (!dig || dig_done) { bad(); continue; }
			out = outbuf(digest_result_len(dig));
			digest_final(dig, out);
			dig_done = 1;
			hc_puthex(out, digest_result_len(dig)); putchar('\n');
		} else if (nw == 4 && !strcmp(w[0], "d.long")) {
			/* long-message family: <name> <nbytes> <seed>; message byte j = (j % 251 + seed) & 0xff,
			 * fed in 1 MiB updates out of one (1 MiB + 251)-byte pattern buffer (no big allocation) */
			const struct DigestInfo *di = info_by_name(w[1]);
			long long total = parse_nat(w[2]), seed = parse_nat(w[3]), off = 0;
			static uint8_t *pat;
			static long long pat_seed = -1;
			const long long CH = 1048576;
			struct DigestContext *d;
			if (!di || total < 0 || total > 8589934592LL || seed < 0 || seed > 255) { bad(); continue; }
			alarm(3600);
			if (!pat) pat = malloc(CH + 251);
			if (pat_seed != seed) {
				long long i;
				for (i = 0; i < CH + 251; i++) pat[i] = (uint8_t)(i % 251 + seed);
				pat_seed = seed;
			}
			d = digest_new(di, NULL);
			while (off < total) {
				long long n = total - off > CH ? CH : total - off;
				digest_update(d, pat + off % 251, n);
				off += n;
			}
			out = outbuf(digest_result_len(d));
			digest_final(d, out);
			hc_puthex(out, digest_result_len(d)); putchar('\n');
			digest_free(d);
		} else if (nw == 1 && !strcmp(w[0], "d.reset")) {
			if (!dig) { bad(); continue; }
			digest_reset(dig);
			dig_done = 0;
			puts("ok");
		/* ---------------- HMAC */
		} else if (nw == 3 && !strcmp(w[0], "h.new")) {
			const struct DigestInfo *di = info_by_name(w[1]);
			if (!di || (len = hc_unhex(w[2], &in)) < 0) { bad(); continue; }
			if (hm) hmac_free(hm);
			hm = hmac_new(di, in, len, NULL);
			hm_done = 0;
			puts("ok");
		} else if (nw == 2 && !strcmp(w[0], "h.upd")) {
			if (!hm || hm_done || (len = hc_unhex(w[1], &in)) < 0) { bad(); continue; }
			hmac_update(hm, in, len);
			puts("ok");
		} else if (nw == 1 && !strcmp(w[0], "h.fin")) {
			if (!hm || hm_done) { bad(); continue; }
			out = outbuf(hmac_result_len(hm));
			hmac_final(hm, out);
			hm_done = 1;
			hc_puthex(out, hmac_result_len(hm)); putchar('\n');
		} else if (nw == 1 && !strcmp(w[0], "h.reset")) {
			if (!hm) { bad(); continue; }
			hmac_reset(hm);
			hm_done = 0;
			puts("ok");
		/* ---------------- SHA3Context API */
		} else if (nw == 2 && !strcmp(w[0], "sh.new")) {
			sha3_reset_fn fn = sha3_by_name(w[1]);
			if (!fn) { bad(); continue; }
			free(sh);
			sh = malloc(sizeof(*sh));
			fn(sh);
			puts("ok");
		} else if (nw == 2 && !strcmp(w[0], "sh.upd")) {
			if (!sh || (len = hc_unhex(w[1], &in)) < 0) { bad(); continue; }
			shake_update(sh, in, len);
			fputs("ok", stdout); put_k(&sh->kctx);
		} else if (nw == 2 && !strcmp(w[0], "sh.ext")) {
			if (!sh || (n = parse_len(w[1])) < 0) { bad(); continue; }
			out = outbuf(n);
			shake_extract(sh, out, n);
			hc_puthex(out, n); put_k(&sh->kctx);
		} else if (nw == 1 && !strcmp(w[0], "sh.fin")) {
			if (!sh) { bad(); continue; }
			out = outbuf(sh->obytes);
			sha3_final(sh, out);
			hc_puthex(out, sh->obytes); put_k(&sh->kctx);
		/* ---------------- raw sponge */
		} else if (nw == 2 && !strcmp(w[0], "k.init")) {
			int ok;
			if ((n = parse_nat(w[1])) < 0) { bad(); continue; }
			free(kc);
			kc = malloc(sizeof(*kc));
			ok = keccak_init(kc, n);
			if (!ok) { free(kc); kc = NULL; }
			puts(ok ? "1" : "0");
		} else if (nw == 2 && !strcmp(w[0], "k.abs")) {
			if (!kc || (len = hc_unhex(w[1], &in)) < 0) { bad(); continue; }
			keccak_absorb(kc, in, len);
			fputs("ok", stdout); put_k(kc);
		} else if (nw == 2 && !strcmp(w[0], "k.sqz")) {
			if (!kc || (n = parse_len(w[1])) < 0) { bad(); continue; }
			out = outbuf(n);
			keccak_squeeze(kc, out, n);
			hc_puthex(out, n); put_k(kc);
		} else if (nw == 2 && (!strcmp(w[0], "k.sqx") || !strcmp(w[0], "k.enc") || !strcmp(w[0], "k.dec"))) {
			if (!kc || (len = hc_unhex(w[1], &in)) < 0) { bad(); continue; }
			out = outbuf(len);
			if (w[0][2] == 's') keccak_squeeze_xor(kc, out, in, len);
			else if (w[0][2] == 'e') keccak_encrypt(kc, out, in, len);
			else keccak_decrypt(kc, out, in, len);
			hc_puthex(out, len); put_k(kc);
		} else if (nw == 2 && !strcmp(w[0], "k.pad")) {
			if (!kc || (len = hc_unhex(w[1], &in)) < 0) { bad(); continue; }
			keccak_pad(kc, in, len);
			fputs("ok", stdout); put_k(kc);
		} else if (nw == 1 && !strcmp(w[0], "k.rew")) {
			if (!kc) { bad(); continue; }
			keccak_rewind(kc);
			fputs("ok", stdout); put_k(kc);
		} else if (nw == 1 && !strcmp(w[0], "k.fgt")) {
			if (!kc) { bad(); continue; }
			keccak_forget(kc);
			fputs("ok", stdout); put_k(kc);
		} else if (nw == 1 && !strcmp(w[0], "k.dump")) {
			if (!kc) { bad(); continue; }
			out = outbuf(200);
			extract(out, kc, 0, 25);
			fputs("dump ## ", stdout); hc_puthex(out, 200); putchar('\n');
		} else if (nw == 2 && !strcmp(w[0], "k.perm")) {
			struct KeccakContext *t;
			int i;
			if ((len = hc_unhex(w[1], &in)) != 200) { bad(); continue; }
			t = malloc(sizeof(*t));
			keccak_init(t, 8);
			for (i = 0; i < 25; i++)
				xor_lane(t, i, le64dec(in + 8 * i));
			keccak_f(t);
			out = outbuf(200);
			extract(out, t, 0, 25);
			free(t);
			hc_puthex(out, 200); putchar('\n');
		/* ---------------- keccak_prng */
		} else if (nw == 2 && !strcmp(w[0], "p.init")) {
			bool ok;
			if ((n = parse_nat(w[1])) < 0) { bad(); continue; }
			free(prng);
			prng = malloc(sizeof(*prng));
			ok = keccak_prng_init(prng, n);
			if (!ok) { free(prng); prng = NULL; }
			puts(ok ? "1" : "0");
		} else if (nw == 2 && !strcmp(w[0], "p.add")) {
			if (!prng || (len = hc_unhex(w[1], &in)) < 0) { bad(); continue; }
			keccak_prng_add_data(prng, in, len);
			fputs("ok", stdout); put_k(&prng->ctx);
		} else if (nw == 2 && !strcmp(w[0], "p.ext")) {
			bool ok;
			if (!prng || (n = parse_len(w[1])) < 0) { bad(); continue; }
			out = outbuf(n);
			ok = keccak_prng_extract(prng, out, n);
			if (ok) hc_puthex(out, n); else fputs("false", stdout);
			put_k(&prng->ctx);
		/* ---------------- ChaCha */
		} else if (nw == 2 && (!strcmp(w[0], "c.key256") || !strcmp(w[0], "c.key128"))) {
			int want = w[0][5] == '2' ? 32 : 16;
			if ((len = hc_unhex(w[1], &in)) != want) { bad(); continue; }
			if (!cc) cc = calloc(1, sizeof(*cc));
			if (want == 32) chacha_set_key_256(cc, in); else chacha_set_key_128(cc, in);
			cc_key = 1;
			puts("ok");
		} else if (nw == 4 && !strcmp(w[0], "c.nonce")) {
			long long lo = parse_nat(w[1]), hi = parse_nat(w[2]);
			if (lo < 0 || hi < 0 || lo > 0xffffffffLL || hi > 0xffffffffLL) { bad(); continue; }
			if (!strcmp(w[3], "null")) {
				if (!cc_nonce) { bad(); continue; }
				chacha_set_nonce(cc, lo, hi, NULL);
			} else {
				if ((len = hc_unhex(w[3], &in)) != 8) { bad(); continue; }
				if (!cc) cc = calloc(1, sizeof(*cc));
				chacha_set_nonce(cc, lo, hi, in);
				cc_nonce = 1;
			}
			puts("ok");
		} else if (nw == 2 && !strcmp(w[0], "c.ks")) {
			if ((n = parse_len(w[1])) < 0 || !cc_key || !cc_nonce) { bad(); continue; }
			out = outbuf(n);
			chacha_keystream(cc, out, n);
			hc_puthex(out, n); put_cc();
		} else if (nw == 2 && !strcmp(w[0], "c.xor")) {
			if ((len = hc_unhex(w[1], &in)) < 0 || !cc_key || !cc_nonce) { bad(); continue; }
			out = outbuf(len);
			chacha_keystream_xor(cc, in, out, len);
			hc_puthex(out, len); put_cc();
		} else {
			bad();
		}
	}
	fflush(stdout);
	return 0;
}
