/* C17 harness: TLS policy matrix, data transfer under seeded schedules, return-code mapping,
 * tls_config setters / tls_config_equal -- all on the real code of /repo's working tree.
 *
 * One output line per input line.  Ops:
 *
 *   #case                                     -> "#case"
 *
 *   cfg ca0:<hex> <setter>... | <setter>...   two fresh tls_config_new() objects A and B, the setter
 *                                             sequences applied ->
 *        "eq=<0|1> sym=<0|1> refl=<0|1> ## A{<dump>} B{<dump>} rv=<A rvs>|<B rvs>"
 *        <str> ::= ~ (NULL) | <hex> ;  <mem> ::= ~<len> (NULL pointer, that length) | <hex> ("-" = 0 bytes, non-NULL)
 *        setters: cafile:<str> capath:<str> camem:<mem> certfile:<str> certmem:<mem> keyfile:<str>
 *                 keymem:<mem> kpfile:<str>:<str> kpmem:<mem>:<mem> ciphers:<str>:<valid 0|1>
 *                 dhe:<str> ecdhe:<str>:<nid> ocspfile:<str> ocspmem:<mem> proto:<u32> depth:<int>
 *                 parseproto:<hex> prefc prefs nocert noname notime verify vclient vclientopt clear
 *        (ca0, <valid> and <nid> are hints for the model only: what tls_config_new / OpenSSL answer here)
 *
 *   inj <read|write|close|handshake|hswrite|hsread> role=<c|s> hc=<0|1> ab=<0|1> ef=<0|1> vn=<0|1> len=<n|big>
 *       sock=<none|ok|notconn|bad> <ret>:<sslerr>:<q>...
 *        the wrapper under test is called ONCE on a context whose state flags are as given, with the
 *        SSL_* entry points (SSL_connect/accept/read/write/shutdown, SSL_get_error, ERR_peek_error)
 *        replaced by the scripted results (consumed in call order) ->
 *        "rv=<n> ## st=<hc><ef><ab> used=<k> err=<class>"     (hswrite/hsread: tls_handshake, then tls_write/
 *        tls_read on the same context: "rv=<handshake>,<io> ## ...")
 *
 *   hs <k=v>...      one complete session over an AF_UNIX socketpair, see do_hs().
 *                    cam/sam: CA through 0 ca_file, 1 ca_mem, 2 ca_path (hashed directory).  kpm (0 memory, 1 file) is
 *                    the default source of every keypair half; optional scs sks ccs cks override it per item
 *                    (server cert, server key, client cert, client key), so a certificate can come from memory
 *                    and its key from a file.  The source never matters for the outcome.
 *                    Optional rc=<1|2> + a<field>=..: the SAME client and server contexts are first configured with
 *                    another configuration A (acca asca asvc avc avn avt asvt acp asp aciph adepth akp), rc=2
 *                    also attempts a session under A, closes it and calls tls_reset; then they are configured with
 *                    the configuration proper.  The outcome must be that of the last configuration alone.
 *                    Optional noise=<0..255>:
 *                    before each scheduler step, with probability noise/256, an UNRELATED library call that
 *                    is (correctly) rejected is made in the same thread on scratch objects -- bogus cipher
 *                    string, bogus curve, missing key file, missing CA file -- which leaves entries in
 *                    OpenSSL's per-thread error queue; for the session (and for the model) this is a no-op ->
 *        "est=<0|1> ver=<..> rvs=<ok|bad..> want=<ok|bad..> data=<ok|..> h=<c2s fnv>,<s2c fnv> eof=<..> close=<..>,<..> cut=<..> after=<ok|crossed(..)>"
 *        pt=<nb>,<na>/<nb>,<na>: tls_peer_cert_notbefore/notafter as the client sees the server certificate / as the
 *        server sees the client certificate, for certificates minted with an explicit window (validity field
 *        w<notBefore>_<notAfter> in epoch seconds, may be negative; then now=<epoch> must be on the line for the model)
 *        after: an endpoint whose tls_handshake returned -1 keeps calling tls_write("ping!\n")/tls_read four more
 *        times before it gives up; `crossed` = one of those calls returned > 0, or the peer received application data
 *        (with C17_DEBUG set: " ## chs= shs= cutread= cerr= serr= steps= wants=" for humans; not compared)
 *   usage: h <tmpdir> [<stats.json>]
 */
#include <usual/base.h>
#include <usual/socket.h>
#include <usual/string.h>
#include <usual/tls/tls.h>
#include <usual/tls/tls_internal.h>

#include <openssl/x509.h>
#include <openssl/x509v3.h>
#include <openssl/evp.h>
#include <openssl/pem.h>
#include <openssl/err.h>
#include <openssl/ec.h>
#include <fcntl.h>
#include <poll.h>
#include <signal.h>
#include <errno.h>
#include <limits.h>
#include <sys/socket.h>
#include <sys/stat.h>

#include "hcommon.h"

#ifndef USUAL_LIBSSL_FOR_TLS
#error "libusual was configured without TLS"
#endif
#ifndef C17_SSLDIR
#error "C17_SSLDIR must point at test/ssl of the tree under test"
#endif

/* ------------------------------------------------------------------ injection (--wrap) */

struct inj { int ret, err, q; };
static struct inj inj_s[16];
static int inj_n, inj_pos, inj_on, inj_over;
static int inj_last_err = 0, inj_last_q = 0;

static int inj_pop(void)
{
	if (inj_pos >= inj_n) {
		inj_over = 1;
		inj_last_err = SSL_ERROR_SSL;
		inj_last_q = 1;
		return -1;
	}
	inj_last_err = inj_s[inj_pos].err;
	inj_last_q = inj_s[inj_pos].q;
	errno = EPIPE;
	return inj_s[inj_pos++].ret;
}

int __real_SSL_get_error(const SSL *s, int ret);
unsigned long __real_ERR_peek_error(void);
int __real_SSL_read(SSL *s, void *b, int n);
int __real_SSL_write(SSL *s, const void *b, int n);
int __real_SSL_shutdown(SSL *s);
int __real_SSL_connect(SSL *s);
int __real_SSL_accept(SSL *s);

int __wrap_SSL_get_error(const SSL *s, int ret) { return inj_on ? inj_last_err : __real_SSL_get_error(s, ret); }
unsigned long __wrap_ERR_peek_error(void) { return inj_on ? (inj_last_q ? 0x0A000126UL : 0UL) : __real_ERR_peek_error(); }
int __wrap_SSL_read(SSL *s, void *b, int n) { return inj_on ? inj_pop() : __real_SSL_read(s, b, n); }
int __wrap_SSL_write(SSL *s, const void *b, int n) { return inj_on ? inj_pop() : __real_SSL_write(s, b, n); }
int __wrap_SSL_shutdown(SSL *s) { return inj_on ? inj_pop() : __real_SSL_shutdown(s); }
int __wrap_SSL_connect(SSL *s) { return inj_on ? inj_pop() : __real_SSL_connect(s); }
int __wrap_SSL_accept(SSL *s) { return inj_on ? inj_pop() : __real_SSL_accept(s); }

/* ------------------------------------------------------------------ small helpers */

static const char *err_class(const char *m)
{
	if (m == NULL) return "none";
	if (strstr(m, "EOF without close notify")) return "eof-no-notify";
	if (strstr(m, "unexpected EOF")) return "eof-unexpected";
	if (strstr(m, "unexpected handshake")) return "abort";
	if (strstr(m, "buflen too long")) return "buflen";
	if (strstr(m, "invalid operation")) return "invalid-op";
	if (strstr(m, "no server certificate")) return "no-cert";
	if (strstr(m, "not present in server certificate")) return "name";
	if (strstr(m, "NUL byte") || strstr(m, "must not be used")) return "name-malicious";
	if (strstr(m, "not a client context") || strstr(m, "not a server connection")) return "role";
	if (strstr(m, "failed (")) return "code";
	if (strstr(m, "failed: error:")) return "errq";
	if (strstr(m, "failed: unknown error")) return "unknown";
	if (strstr(m, "failed: ")) return "errno";
	if (strncmp(m, "shutdown", 8) == 0 || strncmp(m, "close", 5) == 0) return "sock";
	return "other";
}

/* reason text of an OpenSSL error as libusual reports it: last ':'-field */
static const char *reason_of(const char *m, char *buf, size_t n)
{
	const char *p;
	size_t i = 0;
	if (!m) return "-";
	p = strrchr(m, ':');
	p = p ? p + 1 : m;
	while (*p == ' ') p++;
	for (; *p && i + 1 < n; p++)
		buf[i++] = (*p == ' ' || *p == '#') ? '_' : *p;
	buf[i] = 0;
	return i ? buf : "-";
}

static int kv_get(char **w, int n, const char *key, const char **val)
{
	size_t kl = strlen(key);
	int i;
	for (i = 0; i < n; i++)
		if (strncmp(w[i], key, kl) == 0 && w[i][kl] == '=') { *val = w[i] + kl + 1; return 1; }
	return 0;
}

static int parse_u64(const char *s, uint64_t *out)
{
	char *e;
	if (!*s || *s == '-') return 0;
	errno = 0;
	*out = strtoull(s, &e, 10);
	return *e == 0 && errno == 0;
}

static int parse_int(const char *s, long *out)
{
	char *e;
	if (!*s) return 0;
	errno = 0;
	*out = strtol(s, &e, 10);
	return *e == 0 && errno == 0;
}

/* ------------------------------------------------------------------ cfg op */

/* <str>: "~" -> NULL; hex -> C string (no NUL allowed) */
static int parse_str(const char *s, char **out)
{
	uint8_t *b;
	long n;
	if (strcmp(s, "~") == 0) { *out = NULL; return 1; }
	n = hc_unhex(s, &b);
	if (n < 0) return 0;
	if (memchr(b, 0, n)) { free(b); return 0; }
	*out = malloc(n + 1);
	memcpy(*out, b, n);
	(*out)[n] = 0;
	free(b);
	return 1;
}

/* <mem>: "~<len>" -> NULL + len; hex -> exact-size buffer */
static int parse_mem(const char *s, uint8_t **out, size_t *len)
{
	long n;
	if (s[0] == '~') {
		uint64_t v;
		if (!parse_u64(s + 1, &v)) return 0;
		*out = NULL; *len = v; return 1;
	}
	n = hc_unhex(s, out);
	if (n < 0) return 0;
	*len = n;
	return 1;
}

static void dump_str(const char *s)
{
	if (!s) { fputc('~', stdout); return; }
	hc_puthex(s, strlen(s));
}

static void dump_mem(const char *m, size_t len)
{
	if (!m) { printf("~%zu", len); return; }
	hc_puthex(m, len);
}

static void dump_cfg(struct tls_config *c)
{
	struct tls_keypair *kp;
	printf("caf="); dump_str(c->ca_file);
	printf(" cap="); dump_str(c->ca_path);
	printf(" cam="); dump_mem(c->ca_mem, c->ca_len);
	printf(" ci="); dump_str(c->ciphers);
	printf(" cs=%d dh=%d ec=%d kp=[", c->ciphers_server, c->dheparams, c->ecdhecurve);
	for (kp = c->keypair; kp; kp = kp->next) {
		printf("cf="); dump_str(kp->cert_file);
		printf(" cm="); dump_mem(kp->cert_mem, kp->cert_len);
		printf(" kf="); dump_str(kp->key_file);
		printf(" km="); dump_mem(kp->key_mem, kp->key_len);
		if (kp->next) printf(";");
	}
	printf("] of="); dump_str(c->ocsp_file);
	printf(" om="); dump_mem(c->ocsp_mem, c->ocsp_len);
	printf(" pr=%u vc=%d vcl=%d vd=%d vn=%d vt=%d e=%s", (unsigned)c->protocols, c->verify_cert,
	       c->verify_client, c->verify_depth, c->verify_name, c->verify_time,
	       c->error.msg ? "set" : "none");
}

/* apply one setter word; returns rv (0/-1), 99 for void setters, -100 for a malformed word */
static int apply_setter(struct tls_config *c, char *word)
{
	char *f[4];
	int nf = 0, rv = -100;
	char *p = word;
	char *s1 = NULL, *s2 = NULL;
	uint8_t *m1 = NULL, *m2 = NULL;
	size_t l1 = 0, l2 = 0;
	long v;
	uint64_t u;

	while (nf < 4) {
		f[nf++] = p;
		p = strchr(p, ':');
		if (!p) break;
		*p++ = 0;
	}
#define IS(name, cnt) (strcmp(f[0], name) == 0 && nf == (cnt))
	if (IS("cafile", 2)) { if (parse_str(f[1], &s1)) rv = tls_config_set_ca_file(c, s1); }
	else if (IS("capath", 2)) { if (parse_str(f[1], &s1)) rv = tls_config_set_ca_path(c, s1); }
	else if (IS("camem", 2)) { if (parse_mem(f[1], &m1, &l1)) rv = tls_config_set_ca_mem(c, m1, l1); }
	else if (IS("certfile", 2)) { if (parse_str(f[1], &s1)) rv = tls_config_set_cert_file(c, s1); }
	else if (IS("certmem", 2)) { if (parse_mem(f[1], &m1, &l1)) rv = tls_config_set_cert_mem(c, m1, l1); }
	else if (IS("keyfile", 2)) { if (parse_str(f[1], &s1)) rv = tls_config_set_key_file(c, s1); }
	else if (IS("keymem", 2)) { if (parse_mem(f[1], &m1, &l1)) rv = tls_config_set_key_mem(c, m1, l1); }
	else if (IS("kpfile", 3)) { if (parse_str(f[1], &s1) && parse_str(f[2], &s2)) rv = tls_config_set_keypair_file(c, s1, s2); }
	else if (IS("kpmem", 3)) { if (parse_mem(f[1], &m1, &l1) && parse_mem(f[2], &m2, &l2)) rv = tls_config_set_keypair_mem(c, m1, l1, m2, l2); }
	else if (IS("ciphers", 3)) { if (parse_str(f[1], &s1) && parse_int(f[2], &v) && (v == 0 || v == 1)) rv = tls_config_set_ciphers(c, s1); }
	else if (IS("dhe", 2)) { if (parse_str(f[1], &s1)) rv = tls_config_set_dheparams(c, s1); }
	else if (IS("ecdhe", 3)) { if (parse_str(f[1], &s1) && parse_int(f[2], &v)) rv = tls_config_set_ecdhecurve(c, s1); }
	else if (IS("ocspfile", 2)) { if (parse_str(f[1], &s1)) rv = tls_config_set_ocsp_stapling_file(c, s1); }
	else if (IS("ocspmem", 2)) { if (parse_mem(f[1], &m1, &l1)) rv = tls_config_set_ocsp_stapling_mem(c, m1, l1); }
	else if (IS("proto", 2)) { if (parse_u64(f[1], &u) && u <= 0xffffffffULL) { tls_config_set_protocols(c, (uint32_t)u); rv = 99; } }
	else if (IS("depth", 2)) { if (parse_int(f[1], &v) && v >= INT_MIN && v <= INT_MAX) { tls_config_set_verify_depth(c, (int)v); rv = 99; } }
	else if (IS("parseproto", 2)) {
		if (parse_str(f[1], &s1) && s1) {
			uint32_t pr = 0;
			rv = tls_config_parse_protocols(&pr, s1);
			if (rv == 0) tls_config_set_protocols(c, pr);
		}
	}
	else if (IS("prefc", 1)) { tls_config_prefer_ciphers_client(c); rv = 99; }
	else if (IS("prefs", 1)) { tls_config_prefer_ciphers_server(c); rv = 99; }
	else if (IS("nocert", 1)) { tls_config_insecure_noverifycert(c); rv = 99; }
	else if (IS("noname", 1)) { tls_config_insecure_noverifyname(c); rv = 99; }
	else if (IS("notime", 1)) { tls_config_insecure_noverifytime(c); rv = 99; }
	else if (IS("verify", 1)) { tls_config_verify(c); rv = 99; }
	else if (IS("vclient", 1)) { tls_config_verify_client(c); rv = 99; }
	else if (IS("vclientopt", 1)) { tls_config_verify_client_optional(c); rv = 99; }
	else if (IS("clear", 1)) { tls_config_clear_keys(c); rv = 99; }
#undef IS
	free(s1); free(s2); free(m1); free(m2);
	return rv;
}

static void cfg_free(struct tls_config *c)
{
	if (!c) return;
	/* tls_config_free leaves the OCSP fields behind; release them here so that the harness stays
	 * quiet under LeakSanitizer if that is ever switched on (reported under C10, not here) */
	free((char *)c->ocsp_file); c->ocsp_file = NULL;
	free(c->ocsp_mem); c->ocsp_mem = NULL;
	tls_config_free(c);
}

static void do_cfg(char **w, int n)
{
	struct tls_config *cfg[2] = { tls_config_new(), tls_config_new() };
	int side = 0, i, bad = 0;
	char rvs[2][256];
	size_t rl[2] = { 0, 0 };

	rvs[0][0] = rvs[1][0] = 0;
	if (n < 2 || strncmp(w[1], "ca0:", 4) != 0 || !cfg[0] || !cfg[1])
		bad = 1;
	for (i = 2; i < n && !bad; i++) {
		int rv;
		if (strcmp(w[i], "|") == 0) {
			if (side == 1) bad = 1;
			side = 1;
			continue;
		}
		rv = apply_setter(cfg[side], w[i]);
		if (rv == -100) { bad = 1; break; }
		if (rl[side] + 4 < sizeof rvs[0])
			rl[side] += snprintf(rvs[side] + rl[side], sizeof rvs[0] - rl[side], "%s%d",
					     rl[side] ? "," : "", rv);
	}
	if (side != 1) bad = 1;
	if (bad) {
		printf("bad-op\n");
	} else {
		int eq = tls_config_equal(cfg[0], cfg[1]);
		int sym = tls_config_equal(cfg[1], cfg[0]) == eq;
		int refl = tls_config_equal(cfg[0], cfg[0]) && tls_config_equal(cfg[1], cfg[1]);
		printf("eq=%d sym=%d refl=%d ## A{", eq, sym, refl);
		dump_cfg(cfg[0]);
		printf("} B{");
		dump_cfg(cfg[1]);
		printf("} rv=%s|%s\n", rvs[0][0] ? rvs[0] : "-", rvs[1][0] ? rvs[1] : "-");
	}
	cfg_free(cfg[0]);
	cfg_free(cfg[1]);
}

/* ------------------------------------------------------------------ inj op */

static SSL_CTX *g_dummy_ctx;

static int ssl_err_code(const char *s)
{
	static const struct { const char *n; int v; } t[] = {
		{ "none", SSL_ERROR_NONE }, { "zero", SSL_ERROR_ZERO_RETURN },
		{ "wr", SSL_ERROR_WANT_READ }, { "ww", SSL_ERROR_WANT_WRITE },
		{ "sys", SSL_ERROR_SYSCALL }, { "ssl", SSL_ERROR_SSL },
		{ "wc", SSL_ERROR_WANT_CONNECT }, { "wa", SSL_ERROR_WANT_ACCEPT },
		{ "wx", SSL_ERROR_WANT_X509_LOOKUP }, { "other", 99 },
	};
	size_t i;
	for (i = 0; i < sizeof t / sizeof t[0]; i++)
		if (strcmp(s, t[i].n) == 0) return t[i].v;
	return -1;
}

static void do_inj(char **w, int n)
{
	const char *fn, *v;
	int role_s, hc, ab, ef, vn, i, fd_other = -1;
	size_t buflen;
	long lv;
	struct tls *ctx = NULL;
	struct tls_config *cfg = NULL;
	static char buf[64];
	long rv = 0;
	int sockmode;

	if (n < 9) goto bad;
	fn = w[1];
	if (strcmp(fn, "read") && strcmp(fn, "write") && strcmp(fn, "close") && strcmp(fn, "handshake") &&
	    strcmp(fn, "hswrite") && strcmp(fn, "hsread")) goto bad;
	if (!kv_get(w + 2, 7, "role", &v) || (strcmp(v, "c") && strcmp(v, "s"))) goto bad;
	role_s = v[0] == 's';
#define FLAG(k, dst) do { if (!kv_get(w + 2, 7, k, &v) || (strcmp(v, "0") && strcmp(v, "1"))) goto bad; dst = v[0] == '1'; } while (0)
	FLAG("hc", hc); FLAG("ab", ab); FLAG("ef", ef); FLAG("vn", vn);
#undef FLAG
	if (!kv_get(w + 2, 7, "len", &v)) goto bad;
	if (strcmp(v, "big") == 0) buflen = (size_t)INT_MAX + 1;
	else if (parse_int(v, &lv) && lv >= 0 && lv <= 64) buflen = lv;
	else goto bad;
	if (!kv_get(w + 2, 7, "sock", &v)) goto bad;
	if (!strcmp(v, "none")) sockmode = 0;
	else if (!strcmp(v, "ok")) sockmode = 1;
	else if (!strcmp(v, "notconn")) sockmode = 2;
	else if (!strcmp(v, "bad")) sockmode = 3;
	else goto bad;
	inj_n = 0;
	for (i = 9; i < n; i++) {
		char *a = w[i], *b, *c;
		long r, q;
		int e;
		if (inj_n >= 16) goto bad;
		b = strchr(a, ':'); if (!b) goto bad; *b++ = 0;
		c = strchr(b, ':'); if (!c) goto bad; *c++ = 0;
		if (!parse_int(a, &r) || r < -2 || r > 64) goto bad;
		if ((e = ssl_err_code(b)) < 0) goto bad;
		if (!parse_int(c, &q) || (q != 0 && q != 1)) goto bad;
		inj_s[inj_n].ret = r; inj_s[inj_n].err = e; inj_s[inj_n].q = q;
		inj_n++;
	}

	cfg = tls_config_new();
	ctx = role_s ? tls_server_conn(NULL) : tls_client();
	if (!cfg || !ctx) goto bad;
	if (!vn) tls_config_insecure_noverifyname(cfg);
	ctx->config = cfg;
	ctx->ssl_conn = SSL_new(g_dummy_ctx);
	SSL_set_app_data(ctx->ssl_conn, ctx);
	ctx->state = (hc ? TLS_HANDSHAKE_COMPLETE : 0) | (ef ? TLS_EOF_NO_CLOSE_NOTIFY : 0) | (ab ? TLS_DO_ABORT : 0);
	if (sockmode == 1) {
		int sp[2];
		if (socketpair(AF_UNIX, SOCK_STREAM, 0, sp) != 0) goto bad;
		ctx->socket = sp[0]; fd_other = sp[1];
	} else if (sockmode == 2) {
		ctx->socket = socket(AF_INET, SOCK_STREAM, 0);
	} else if (sockmode == 3) {
		ctx->socket = 1000000;
	}
	inj_pos = 0; inj_over = 0; inj_on = 1;
	if (!strcmp(fn, "read")) rv = tls_read(ctx, buf, buflen);
	else if (!strcmp(fn, "write")) rv = tls_write(ctx, buf, buflen);
	else if (!strcmp(fn, "close")) rv = tls_close(ctx);
	else if (!strcmp(fn, "handshake")) rv = tls_handshake(ctx);
	else {
		/* tls_handshake, then one I/O call on the same context whatever the handshake said */
		rv = tls_handshake(ctx);
		printf("rv=%ld,", rv);
		rv = fn[2] == 'w' ? tls_write(ctx, buf, buflen) : tls_read(ctx, buf, buflen);
		inj_on = 0;
		printf("%ld ## st=%d%d%d used=%d%s err=%s\n", rv,
		       !!(ctx->state & TLS_HANDSHAKE_COMPLETE), !!(ctx->state & TLS_EOF_NO_CLOSE_NOTIFY),
		       !!(ctx->state & TLS_DO_ABORT), inj_pos, inj_over ? "+over" : "",
		       err_class(tls_error(ctx)));
		goto done;
	}
	inj_on = 0;
	printf("rv=%ld ## st=%d%d%d used=%d%s err=%s\n", rv,
	       !!(ctx->state & TLS_HANDSHAKE_COMPLETE), !!(ctx->state & TLS_EOF_NO_CLOSE_NOTIFY),
	       !!(ctx->state & TLS_DO_ABORT), inj_pos, inj_over ? "+over" : "",
	       err_class(tls_error(ctx)));
done:
	if (ctx->socket >= 0 && ctx->socket != 1000000) close(ctx->socket);
	ctx->socket = -1;
	if (fd_other >= 0) close(fd_other);
	usual_tls_free(ctx);
	cfg_free(cfg);
	ERR_clear_error();
	return;
bad:
	printf("bad-op\n");
	if (ctx) { ctx->socket = -1; usual_tls_free(ctx); }
	cfg_free(cfg);
}

/* ------------------------------------------------------------------ certificates */

struct pem { char *p; size_t n; };

static EVP_PKEY *g_cakey[3];
static X509 *g_cacert[3];

static int load_cas(void)
{
	int i;
	for (i = 1; i <= 2; i++) {
		char path[1024];
		FILE *f;
		snprintf(path, sizeof path, "%s/ca%d_root.key", C17_SSLDIR, i);
		if (!(f = fopen(path, "r"))) return 0;
		g_cakey[i] = PEM_read_PrivateKey(f, NULL, NULL, NULL);
		fclose(f);
		snprintf(path, sizeof path, "%s/ca%d_root.crt", C17_SSLDIR, i);
		if (!(f = fopen(path, "r"))) return 0;
		g_cacert[i] = PEM_read_X509(f, NULL, NULL, NULL);
		fclose(f);
		if (!g_cakey[i] || !g_cacert[i]) return 0;
	}
	return 1;
}

static struct pem bio_to_pem(BIO *b)
{
	struct pem r;
	char *d;
	long n = BIO_get_mem_data(b, &d);
	r.p = malloc(n + 1);
	memcpy(r.p, d, n);
	r.p[n] = 0;
	r.n = n;
	BIO_free(b);
	return r;
}

/* certificate descriptor: <ca 1|2|0(self-signed)>:<v|e|f (valid|expired|not yet valid)>:<s|c (server|client EKU)>:<cn str>:<san,...>
 * san entries: d<hex> dNSName, i<hex> iPAddress.  Cached by descriptor text. */
struct certent { char *desc; struct pem cert, key; };
static struct certent g_certs[256];
static int g_ncerts;

static int add_ext(X509 *x, X509 *issuer, int nid, const char *val)
{
	X509V3_CTX c;
	X509_EXTENSION *e;
	X509V3_set_ctx(&c, issuer, x, NULL, NULL, 0);
	e = X509V3_EXT_conf_nid(NULL, &c, nid, val);
	if (!e) return 0;
	X509_add_ext(x, e, -1);
	X509_EXTENSION_free(e);
	return 1;
}

static struct certent *get_cert(const char *desc)
{
	int i, ca;
	char *d, *f[5], *p;
	int nf = 0;
	EVP_PKEY *key = NULL;
	X509 *x = NULL;
	X509_NAME *nm;
	GENERAL_NAMES *gens = NULL;
	static long serial = 1000;
	long long win_nb = 0, win_na = 0;
	BIO *b;
	struct certent *ce;
	char *cn = NULL;

	for (i = 0; i < g_ncerts; i++)
		if (strcmp(g_certs[i].desc, desc) == 0) return &g_certs[i];
	if (g_ncerts >= 256) return NULL;
	d = strdup(desc);
	p = d;
	while (nf < 5) { f[nf++] = p; p = strchr(p, ':'); if (!p) break; *p++ = 0; }
	if (nf != 5) goto fail;
	if (strlen(f[0]) != 1 || f[0][0] < '0' || f[0][0] > '2') goto fail;
	ca = f[0][0] - '0';
	if (f[1][0] == 'w') {
		/* explicit validity window: w<notBefore>_<notAfter>, signed seconds since the epoch */
		char *e1, *e2;
		errno = 0;
		win_nb = strtoll(f[1] + 1, &e1, 10);
		if (e1 == f[1] + 1 || *e1 != '_' || errno) goto fail;
		win_na = strtoll(e1 + 1, &e2, 10);
		if (e2 == e1 + 1 || *e2 != 0 || errno) goto fail;
		if (win_nb < -2000000000LL || win_nb > 253402300799LL || win_na < -2000000000LL || win_na > 253402300799LL) goto fail;
	} else if (strlen(f[1]) != 1 || !strchr("vef", f[1][0])) goto fail;
	if (strlen(f[2]) != 1 || !strchr("sc", f[2][0])) goto fail;
	if (!parse_str(f[3], &cn)) goto fail;

	key = EVP_EC_gen("P-256");
	x = X509_new();
	if (!key || !x) goto fail;
	X509_set_version(x, 2);
	ASN1_INTEGER_set(X509_get_serialNumber(x), serial++);
	if (f[1][0] == 'w') {
		/* UTCTime for 1950..2049, GeneralizedTime outside (RFC 5280), chosen by ASN1_TIME_set */
		if (!ASN1_TIME_set(X509_getm_notBefore(x), (time_t)win_nb)) goto fail;
		if (!ASN1_TIME_set(X509_getm_notAfter(x), (time_t)win_na)) goto fail;
	}
	else if (f[1][0] == 'v') { X509_gmtime_adj(X509_getm_notBefore(x), -86400L * 30); X509_gmtime_adj(X509_getm_notAfter(x), 86400L * 365); }
	else if (f[1][0] == 'e') { X509_gmtime_adj(X509_getm_notBefore(x), -86400L * 60); X509_gmtime_adj(X509_getm_notAfter(x), -86400L * 30); }
	else { X509_gmtime_adj(X509_getm_notBefore(x), 86400L * 30); X509_gmtime_adj(X509_getm_notAfter(x), 86400L * 60); }
	X509_set_pubkey(x, key);
	nm = X509_get_subject_name(x);
	if (cn) X509_NAME_add_entry_by_NID(nm, NID_commonName, V_ASN1_UTF8STRING, (unsigned char *)cn, strlen(cn), -1, 0);
	X509_NAME_add_entry_by_NID(nm, NID_organizationName, V_ASN1_UTF8STRING, (unsigned char *)"C17", 3, -1, 0);
	X509_set_issuer_name(x, ca ? X509_get_subject_name(g_cacert[ca]) : nm);
	if (!add_ext(x, ca ? g_cacert[ca] : x, NID_basic_constraints, "critical,CA:FALSE")) goto fail;
	if (!add_ext(x, ca ? g_cacert[ca] : x, NID_key_usage, "critical,digitalSignature,keyEncipherment")) goto fail;
	if (!add_ext(x, ca ? g_cacert[ca] : x, NID_ext_key_usage, f[2][0] == 's' ? "serverAuth" : "clientAuth")) goto fail;
	if (f[4][0] && strcmp(f[4], "-") != 0) {
		char *q = f[4];
		gens = sk_GENERAL_NAME_new_null();
		while (q && *q) {
			char *nx = strchr(q, ',');
			uint8_t *raw;
			long rn;
			GENERAL_NAME *g;
			ASN1_STRING *s;
			if (nx) *nx++ = 0;
			if (q[0] != 'd' && q[0] != 'i') goto fail;
			rn = hc_unhex(q + 1, &raw);
			if (rn < 0) goto fail;
			g = GENERAL_NAME_new();
			if (q[0] == 'd') {
				s = ASN1_IA5STRING_new();
				ASN1_STRING_set(s, raw, rn);
				GENERAL_NAME_set0_value(g, GEN_DNS, s);
			} else {
				s = ASN1_OCTET_STRING_new();
				ASN1_STRING_set(s, raw, rn);
				GENERAL_NAME_set0_value(g, GEN_IPADD, s);
			}
			free(raw);
			sk_GENERAL_NAME_push(gens, g);
			q = nx;
		}
		X509_add1_ext_i2d(x, NID_subject_alt_name, gens, 0, 0);
		sk_GENERAL_NAME_pop_free(gens, GENERAL_NAME_free);
		gens = NULL;
	}
	if (!X509_sign(x, ca ? g_cakey[ca] : key, EVP_sha256())) goto fail;

	ce = &g_certs[g_ncerts++];
	ce->desc = strdup(desc);
	b = BIO_new(BIO_s_mem());
	PEM_write_bio_X509(b, x);
	ce->cert = bio_to_pem(b);
	b = BIO_new(BIO_s_mem());
	PEM_write_bio_PrivateKey(b, key, NULL, NULL, 0, NULL, NULL);
	ce->key = bio_to_pem(b);
	X509_free(x);
	EVP_PKEY_free(key);
	free(cn);
	free(d);
	return ce;
fail:
	if (gens) sk_GENERAL_NAME_pop_free(gens, GENERAL_NAME_free);
	X509_free(x);
	EVP_PKEY_free(key);
	free(cn);
	free(d);
	return NULL;
}

/* ------------------------------------------------------------------ hs op */

static int g_debug;
static char g_tmpdir[256];
static long g_cutread = -99;
static long st_sessions, st_est, st_steps, st_wants, st_calls, st_bytes, st_cutread0, st_cutreaderr, st_partial;
static long st_noise, st_noise_dirty, st_refused, st_refused_calls, st_presessions, st_reconfigured, st_mixed_keypairs;

enum { PH_HS, PH_REFUSED, PH_PING1, PH_PING2, PH_DATA, PH_DRAIN, PH_CLOSE, PH_CUTREAD, PH_DONE, PH_FAILED };

struct ep {
	struct tls *ctx, *base;
	struct tls_config *cfg;
	int fd, is_server, phase;
	int hs_rv;			/* final tls_handshake result */
	uint64_t out_state, in_state;	/* stream generators */
	uint64_t out_word, in_word;
	int out_have, in_have;
	size_t nout, nin, total;	/* bytes written (accepted) / received */
	uint64_t hash;			/* fnv of received bytes */
	long corrupt_at;
	uint8_t *wbuf[2];		/* two write buffers (alternated: moving write buffer is legal) */
	size_t wpend, wpos;		/* current chunk */
	int wflip;
	int eof_rv, close_rv, cutread_rv, cutclose_rv;
	int closer, cutter, victim, victim_reads;
	int bad_rv;			/* first return value outside the permitted set (0 = none) */
	long bad_rv_val;
	int bad_want;			/* WANT_* contradicted by poll() */
	int reached_data;		/* handshake and the one-byte ping-pong went through */
	int refuse_left;		/* I/O attempts still to make on a context whose handshake failed */
	int crossed;			/* application data accepted/delivered although a handshake was refused */
	char first_err[160];		/* tls_error text at the first fatal result */
	long nwants, ncalls;
};

static uint64_t sm_next(uint64_t *st)
{
	uint64_t z = (*st += 0x9E3779B97F4A7C15ULL);
	z = (z ^ (z >> 30)) * 0xBF58476D1CE4E5B9ULL;
	z = (z ^ (z >> 27)) * 0x94D049BB133111EBULL;
	return z ^ (z >> 31);
}

static uint8_t gen_byte(uint64_t *st, uint64_t *word, int *have)
{
	uint8_t b;
	if (*have == 0) { *word = sm_next(st); *have = 8; }
	b = *word & 0xff;
	*word >>= 8;
	(*have)--;
	return b;
}

static uint64_t g_sched;
static unsigned rnd(unsigned n) { return n ? (unsigned)(sm_next(&g_sched) % n) : 0; }

static int fd_ready(int fd, short ev)
{
	struct pollfd p = { fd, ev, 0 };
	int r = poll(&p, 1, 0);
	return r > 0 && (p.revents & ev);
}

/* record one return value of a wrapper; kind: 'h' handshake/close (no positive), 'd' read/write */
static void note_rv(struct ep *e, long rv, int kind, size_t maxpos)
{
	int ok;
	e->ncalls++;
	if (kind == 'd')
		ok = (rv > 0 && (size_t)rv <= maxpos) || rv == 0 || rv == -1 || rv == TLS_WANT_POLLIN || rv == TLS_WANT_POLLOUT;
	else
		ok = rv == 0 || rv == -1 || rv == TLS_WANT_POLLIN || rv == TLS_WANT_POLLOUT;
	if (!ok && !e->bad_rv) { e->bad_rv = kind; e->bad_rv_val = rv; }
	if (rv == TLS_WANT_POLLIN) { e->nwants++; if (fd_ready(e->fd, POLLIN) && !e->bad_want) e->bad_want = 1; }
	if (rv == TLS_WANT_POLLOUT) { e->nwants++; if (fd_ready(e->fd, POLLOUT) && !e->bad_want) e->bad_want = 2; }
}

static const char *cls(long rv)
{
	static char b[4][24];
	static int k;
	if (rv > 0) return "pos";
	if (rv == 0) return "0";
	if (rv == -1) return "err";
	if (rv == TLS_WANT_POLLIN) return "in";
	if (rv == TLS_WANT_POLLOUT) return "out";
	if (rv == -99) return "-";
	k = (k + 1) & 3;
	snprintf(b[k], sizeof b[k], "bad(%ld)", rv);
	return b[k];
}

static void ep_fail(struct ep *e)
{
	/* what an application does on a fatal error: close the connection */
	if (e->ctx && !e->first_err[0] && tls_error(e->ctx))
		snprintf(e->first_err, sizeof e->first_err, "%s", tls_error(e->ctx));
	if (e->ctx) {
		long rv = tls_close(e->ctx);
		note_rv(e, rv, 'h', 0);
	}
	shutdown(e->fd, SHUT_RDWR);
	e->phase = PH_FAILED;
}

static size_t g_chunk_max, g_rbuf_max;
static uint8_t *g_rbuf;

static void consume(struct ep *e, const uint8_t *p, size_t n)
{
	size_t i;
	for (i = 0; i < n; i++) {
		uint8_t want = gen_byte(&e->in_state, &e->in_word, &e->in_have);
		if (p[i] != want && e->corrupt_at < 0) e->corrupt_at = (long)(e->nin + i);
		e->hash ^= p[i];
		e->hash *= 0x100000001b3ULL;
	}
	e->nin += n;
}

static void step_data_write(struct ep *e)
{
	long rv;
	uint8_t *src;
	if (e->wpend == 0) {
		size_t left = e->total - e->nout, c, i;
		c = 1 + rnd(g_chunk_max);
		if (rnd(4) == 0) c = 1 + rnd(64);
		if (c > left) c = left;
		/* fill both buffers with the same chunk: a retry may legally come from another address */
		for (i = 0; i < c; i++)
			e->wbuf[0][i] = e->wbuf[1][i] = gen_byte(&e->out_state, &e->out_word, &e->out_have);
		e->wpend = c; e->wpos = 0;
	}
	e->wflip ^= 1;
	src = e->wbuf[e->wflip] + e->wpos;
	rv = tls_write(e->ctx, src, e->wpend);
	note_rv(e, rv, 'd', e->wpend);
	if (rv > 0) { if ((size_t)rv < e->wpend) st_partial++; e->wpos += rv; e->wpend -= rv; e->nout += rv; }
	else if (rv == -1 || rv == 0) ep_fail(e);
}

static void step_data_read(struct ep *e, int expect_more)
{
	size_t want = 1 + rnd(g_rbuf_max);
	long rv;
	if (rnd(4) == 0) want = 1 + rnd(64);
	rv = tls_read(e->ctx, g_rbuf, want);
	note_rv(e, rv, 'd', want);
	if (rv > 0) consume(e, g_rbuf, rv);
	else if ((rv == -1 || rv == 0) && expect_more) ep_fail(e);
}

static void ep_step(struct ep *e, struct ep *peer)
{
	long rv;
	uint8_t b;
	switch (e->phase) {
	case PH_HS:
		rv = tls_handshake(e->ctx);
		note_rv(e, rv, 'h', 0);
		if (rv == 0) { e->hs_rv = 0; e->phase = PH_PING1; }
		else if (rv == -1) {
			/* refused: an I/O layer that retries keeps using the context for a while */
			e->hs_rv = rv;
			if (!e->first_err[0] && tls_error(e->ctx))
				snprintf(e->first_err, sizeof e->first_err, "%s", tls_error(e->ctx));
			e->phase = PH_REFUSED; e->refuse_left = 4; st_refused++;
		}
		else if (rv > 0 || rv < -3) { e->hs_rv = rv; ep_fail(e); }
		break;
	case PH_REFUSED:	/* nothing may be sent or delivered on a context whose handshake failed */
		if (e->refuse_left & 1) {
			rv = tls_read(e->ctx, g_rbuf, 16);
			note_rv(e, rv, 'd', 16);
		} else {
			rv = tls_write(e->ctx, "ping!\n", 6);
			note_rv(e, rv, 'd', 6);
		}
		st_refused_calls++;
		if (rv > 0) e->crossed = 1;
		if (--e->refuse_left <= 0) ep_fail(e);
		break;
	case PH_PING1:	/* client: send 'P'; server: receive it */
		if (!e->is_server) {
			b = 'P';
			rv = tls_write(e->ctx, &b, 1);
			note_rv(e, rv, 'd', 1);
			if (rv == 1) e->phase = PH_PING2;
			else if (rv == -1 || rv == 0) ep_fail(e);
		} else {
			rv = tls_read(e->ctx, &b, 1);
			note_rv(e, rv, 'd', 1);
			if (rv > 0 && peer->hs_rv != 0 && peer->hs_rv != -99) e->crossed = 1;
			if (rv == 1 && b == 'P') e->phase = PH_PING2;
			else if (rv == -1 || rv == 0 || rv == 1) ep_fail(e);
		}
		break;
	case PH_PING2:	/* server: send 'Q'; client: receive it */
		if (e->is_server) {
			b = 'Q';
			rv = tls_write(e->ctx, &b, 1);
			note_rv(e, rv, 'd', 1);
			if (rv == 1) { e->phase = PH_DATA; e->reached_data = 1; }
			else if (rv == -1 || rv == 0) ep_fail(e);
		} else {
			rv = tls_read(e->ctx, &b, 1);
			note_rv(e, rv, 'd', 1);
			if (rv > 0 && peer->hs_rv != 0 && peer->hs_rv != -99) e->crossed = 1;
			if (rv == 1 && b == 'Q') { e->phase = PH_DATA; e->reached_data = 1; }
			else if (rv == -1 || rv == 0 || rv == 1) ep_fail(e);
		}
		break;
	case PH_DATA:
		if (e->nout < e->total && (e->nin >= e->total || rnd(2)))
			step_data_write(e);
		else if (e->nin < e->total)
			step_data_read(e, 1);
		if (e->phase == PH_DATA && e->nout >= e->total && e->nin >= e->total) {
			if (e->cutter) { shutdown(e->fd, SHUT_RDWR); e->phase = PH_DONE; }
			else if (e->victim) e->phase = e->victim_reads ? PH_CUTREAD : PH_CLOSE;
			else e->phase = e->closer ? PH_CLOSE : PH_DRAIN;
		}
		break;
	case PH_DRAIN:	/* all data received: the next thing must be the orderly end (0) */
		rv = tls_read(e->ctx, g_rbuf, 1 + rnd(64));
		note_rv(e, rv, 'd', 64);
		if (rv == TLS_WANT_POLLIN || rv == TLS_WANT_POLLOUT) break;
		e->eof_rv = rv > 0 ? 1 : rv;
		e->phase = PH_CLOSE;
		break;
	case PH_CUTREAD:	/* the peer cut the transport: wait for it (peer is DONE), then read */
		if (peer->phase != PH_DONE) break;
		rv = tls_read(e->ctx, g_rbuf, 16);
		note_rv(e, rv, 'd', 16);
		if (rv == TLS_WANT_POLLIN || rv == TLS_WANT_POLLOUT) break;
		e->cutread_rv = rv > 0 ? 1 : rv;
		e->phase = PH_CLOSE;
		break;
	case PH_CLOSE:
		if (e->victim && peer->phase != PH_DONE) break;
		rv = tls_close(e->ctx);
		note_rv(e, rv, 'h', 0);
		if (rv == TLS_WANT_POLLIN || rv == TLS_WANT_POLLOUT) break;
		if (e->victim) e->cutclose_rv = rv; else e->close_rv = rv;
		e->phase = PH_DONE;
		break;
	default:
		break;
	}
}

/* An unrelated, correctly rejected library call on scratch objects; leaves OpenSSL's error queue
 * dirty (counted).  Nothing here touches the session under test. */
static void do_noise(unsigned kind)
{
	struct tls_config *cfg = tls_config_new();
	struct tls *t = NULL;
	int sp[2] = { -1, -1 };
	char path[512];

	if (!cfg) return;
	st_noise++;
	switch (kind % 5) {
	case 0:		/* config reload with a typo in the cipher list */
		(void)tls_config_set_ciphers(cfg, "NO-SUCH-CIPHER-SUITE");
		break;
	case 1:		/* unknown curve name */
		(void)tls_config_set_ecdhecurve(cfg, "no-such-curve");
		break;
	case 2:		/* server context whose certificate/key files do not exist */
		snprintf(path, sizeof path, "%s/does-not-exist.pem", g_tmpdir);
		tls_config_set_keypair_file(cfg, path, path);
		if ((t = tls_server()) != NULL)
			(void)tls_configure(t, cfg);
		break;
	case 3:		/* client whose CA file does not exist */
		snprintf(path, sizeof path, "%s/does-not-exist-ca.pem", g_tmpdir);
		tls_config_set_ca_file(cfg, path);
		if ((t = tls_client()) != NULL && tls_configure(t, cfg) == 0 &&
		    socketpair(AF_UNIX, SOCK_STREAM, 0, sp) == 0)
			(void)tls_connect_fds(t, sp[0], sp[0], "server.com");
		break;
	default:	/* garbage where a PEM key is expected */
		tls_config_set_keypair_mem(cfg, (const uint8_t *)"junk", 4, (const uint8_t *)"junk", 4);
		if ((t = tls_server()) != NULL)
			(void)tls_configure(t, cfg);
		break;
	}
	if (__real_ERR_peek_error() != 0) st_noise_dirty++;
	usual_tls_free(t);
	if (sp[0] >= 0) { close(sp[0]); close(sp[1]); }
	cfg_free(cfg);
}

struct hs_par {
	int ciph, cp, sp, vc, vn, vt, svc, svt, cca, sca, cam, sam, kpm, first, cut, bias, burst, noise;
	int src[4], asrc[4];		/* server cert, server key, client cert, client key: 0 memory, 1 file */
	/* reconfigure family: rc=1 the same contexts are configured with A, then with B (= the fields above);
	 * rc=2 configured with A, a session attempt is made and closed, tls_reset, configured with B */
	int rc, aciph, acp, asp, avc, avn, avt, asvc, asvt, acca, asca, adepth, akp, depth;
	const char *scert, *ccert, *host;
	uint64_t seed;
	long buf, n, chunk;
};

static int set_ca(struct tls_config *cfg, int ca, int mem)
{
	char path[1024];
	snprintf(path, sizeof path, "%s/ca%d_root.crt", C17_SSLDIR, ca);
	if (mem) {
		BIO *b = BIO_new(BIO_s_mem());
		struct pem p;
		int rv;
		PEM_write_bio_X509(b, g_cacert[ca]);
		p = bio_to_pem(b);
		rv = tls_config_set_ca_mem(cfg, (uint8_t *)p.p, p.n);
		free(p.p);
		/* ca_mem has priority in tls_configure_ssl_verify; ca_file is still what
		 * tls_configure_server reads the client-CA name list from -- keep that off the
		 * system bundle (parsing ~150 certificates per session dominates the run time) */
		if (rv == 0)
			rv = tls_config_set_ca_file(cfg, path);
		return rv;
	}
	if (mem == 2) {
		/* hashed directory (<subject hash>.0) holding just this CA; no ca_file at all */
		char dir[512], fn[600];
		FILE *f;
		snprintf(dir, sizeof dir, "%s/capath%d", g_tmpdir, ca);
		mkdir(dir, 0700);
		snprintf(fn, sizeof fn, "%s/%08lx.0", dir, X509_subject_name_hash(g_cacert[ca]));
		if (!(f = fopen(fn, "w"))) return -1;
		PEM_write_X509(f, g_cacert[ca]);
		fclose(f);
		if (tls_config_set_ca_file(cfg, NULL) != 0) return -1;
		return tls_config_set_ca_path(cfg, dir);
	}
	return tls_config_set_ca_file(cfg, path);
}

/* each half of a keypair either in memory (0) or through a temporary file (1), independently */
static int set_keypair(struct tls_config *cfg, struct certent *ce, int cert_file, int key_file, int slot)
{
	char path[512];
	FILE *f;
	if (cert_file) {
		snprintf(path, sizeof path, "%s/c%d.crt", g_tmpdir, slot);
		if (!(f = fopen(path, "w"))) return -1;
		fwrite(ce->cert.p, 1, ce->cert.n, f); fclose(f);
		if (tls_config_set_cert_file(cfg, path) != 0) return -1;
	} else if (tls_config_set_cert_mem(cfg, (uint8_t *)ce->cert.p, ce->cert.n) != 0)
		return -1;
	if (key_file) {
		snprintf(path, sizeof path, "%s/c%d.key", g_tmpdir, slot);
		if (!(f = fopen(path, "w"))) return -1;
		fwrite(ce->key.p, 1, ce->key.n, f); fclose(f);
		if (tls_config_set_key_file(cfg, path) != 0) return -1;
	} else if (tls_config_set_key_mem(cfg, (uint8_t *)ce->key.p, ce->key.n) != 0)
		return -1;
	if (cert_file != key_file) st_mixed_keypairs++;
	return 0;
}

static const char *ciph_str(int k)
{
	return k == 1 ? "DEFAULT:@SECLEVEL=0" : k == 2 ? "AES128-SHA" : NULL;
}

/* one client and one server tls_config from the given settings; returns 0 when every setter succeeded */
static int build_cfgs(struct tls_config **cc, struct tls_config **sc, int ciph, int cp, int sp, int vc, int vn,
		      int vt, int svc, int svt, int cca, int sca, int cam, int sam, const int *src, int depth,
		      struct certent *sce, struct certent *cce, int slot)
{
	*cc = tls_config_new(); *sc = tls_config_new();
	if (!*cc || !*sc) return -1;
	tls_config_set_protocols(*cc, cp);
	tls_config_set_protocols(*sc, sp);
	if (ciph_str(ciph)) {
		if (tls_config_set_ciphers(*cc, ciph_str(ciph)) != 0) return -1;
		if (tls_config_set_ciphers(*sc, ciph_str(ciph)) != 0) return -1;
	}
	if (set_ca(*cc, cca, cam) != 0 || set_ca(*sc, sca, sam) != 0) return -1;
	if (!vc) tls_config_insecure_noverifycert(*cc);
	if (!vn) tls_config_insecure_noverifyname(*cc);
	if (!vt) tls_config_insecure_noverifytime(*cc);
	if (!svt) tls_config_insecure_noverifytime(*sc);
	if (svc == 1) tls_config_verify_client(*sc);
	if (svc == 2) tls_config_verify_client_optional(*sc);
	if (depth >= 0) { tls_config_set_verify_depth(*cc, depth); tls_config_set_verify_depth(*sc, depth); }
	if (set_keypair(*sc, sce, src[0], src[1], slot) != 0) return -1;
	if (cce && set_keypair(*cc, cce, src[2], src[3], slot + 1) != 0) return -1;
	return 0;
}

/* a session attempt under the first configuration: handshake both ends in lock step, close, forget.
 * Whatever it does is irrelevant for the outcome of the session that follows the reconfiguration. */
static void pre_session(struct tls *cli, struct tls *srv, const char *host)
{
	int sp[2], i, cd = 0, sd = 0;
	struct tls *conn = NULL;
	if (socketpair(AF_UNIX, SOCK_STREAM, 0, sp) != 0) return;
	for (i = 0; i < 2; i++) fcntl(sp[i], F_SETFL, fcntl(sp[i], F_GETFL) | O_NONBLOCK);
	if (tls_connect_fds(cli, sp[0], sp[0], host) == 0 && tls_accept_fds(srv, &conn, sp[1], sp[1]) == 0) {
		for (i = 0; i < 200 && !(cd && sd); i++) {
			int rv;
			if (!cd) { rv = tls_handshake(cli); if (rv == 0 || rv == -1) cd = 1; }
			if (!sd) { rv = tls_handshake(conn); if (rv == 0 || rv == -1) sd = 1; }
		}
		(void)tls_close(cli);
		(void)tls_close(conn);
	}
	usual_tls_free(conn);
	close(sp[0]); close(sp[1]);
	st_presessions++;
}

static void do_hs(char **w, int n)
{
	struct hs_par P;
	struct ep C, S;
	struct tls_config *cfgA_c = NULL, *cfgA_s = NULL;
	int swin = 0, cwin = 0;
	const char *v;
	long lv;
	int sp[2] = { -1, -1 };
	char *host = NULL;
	struct certent *sce, *cce = NULL;
	const char *stage = "args";
	long steps = 0, maxsteps;
	int est, i;
	char r1[64], r2[64];
	const char *cver, *sver;
	int sz;

	memset(&C, 0, sizeof C); memset(&S, 0, sizeof S);
	memset(&P, 0, sizeof P);
#define GETI(k, dst, lo, hi) do { if (!kv_get(w + 1, n - 1, k, &v) || !parse_int(v, &lv) || lv < (lo) || lv > (hi)) goto bad; dst = lv; } while (0)
	GETI("ciph", P.ciph, 0, 1); GETI("cp", P.cp, 0, 30); GETI("sp", P.sp, 0, 30);
	GETI("vc", P.vc, 0, 1); GETI("vn", P.vn, 0, 1); GETI("vt", P.vt, 0, 1);
	GETI("svc", P.svc, 0, 2); GETI("svt", P.svt, 0, 1);
	GETI("cca", P.cca, 1, 2); GETI("sca", P.sca, 1, 2);
	GETI("cam", P.cam, 0, 2); GETI("sam", P.sam, 0, 2); GETI("kpm", P.kpm, 0, 1);
	GETI("first", P.first, 0, 1); GETI("cut", P.cut, 0, 4);
	GETI("bias", P.bias, 1, 255); GETI("burst", P.burst, 1, 64);
	GETI("buf", P.buf, 0, 1 << 20); GETI("n", P.n, 0, 1 << 26); GETI("chunk", P.chunk, 1, 65536);
#undef GETI
#define OPTI(k, dst, lo, hi, dflt) do { dst = dflt; if (kv_get(w + 1, n - 1, k, &v)) { if (!parse_int(v, &lv) || lv < (lo) || lv > (hi)) goto bad; dst = lv; } } while (0)
	OPTI("scs", P.src[0], 0, 1, P.kpm); OPTI("sks", P.src[1], 0, 1, P.kpm);
	OPTI("ccs", P.src[2], 0, 1, P.kpm); OPTI("cks", P.src[3], 0, 1, P.kpm);
	for (i = 0; i < 4; i++) P.asrc[i] = (i & 1) ? P.src[i] : !P.src[i];	/* A: other certificate source, same key source */
	OPTI("rc", P.rc, 0, 2, 0); OPTI("depth", P.depth, -1, 100, -1);
	OPTI("aciph", P.aciph, 0, 2, 0); OPTI("acp", P.acp, 0, 30, 24); OPTI("asp", P.asp, 0, 30, 24);
	OPTI("avc", P.avc, 0, 1, 1); OPTI("avn", P.avn, 0, 1, 1); OPTI("avt", P.avt, 0, 1, 1);
	OPTI("asvc", P.asvc, 0, 2, 0); OPTI("asvt", P.asvt, 0, 1, 1);
	OPTI("acca", P.acca, 1, 2, 1); OPTI("asca", P.asca, 1, 2, 1);
	OPTI("adepth", P.adepth, -1, 100, -1); OPTI("akp", P.akp, 0, 1, 0);
#undef OPTI
	if ((P.acp & 1) || (P.asp & 1)) goto bad;
	if (kv_get(w + 1, n - 1, "noise", &v)) {
		if (!parse_int(v, &lv) || lv < 0 || lv > 255) goto bad;
		P.noise = lv;
	}
	if ((P.cp & 1) || (P.sp & 1)) goto bad;
	if (!kv_get(w + 1, n - 1, "seed", &v) || !parse_u64(v, &P.seed)) goto bad;
	if (!kv_get(w + 1, n - 1, "scert", &P.scert)) goto bad;
	if (!kv_get(w + 1, n - 1, "ccert", &P.ccert)) goto bad;
	if (!kv_get(w + 1, n - 1, "host", &P.host) || !parse_str(P.host, &host)) goto bad;
	if (!kv_get(w + 1, n - 1, "perm", &v)) goto bad;	/* model input only */
	if (!kv_get(w + 1, n - 1, "pton", &v) || (strcmp(v, "g") && strcmp(v, "c"))) goto bad;	/* model input only */
	g_cutread = -99;
	{
		/* certificates with explicit windows need the model's idea of "now" on the line (model input only) */
		int sw = strchr(P.scert, ':') && strchr(P.scert, ':')[1] == 'w';
		int cw = strcmp(P.ccert, "none") != 0 && strchr(P.ccert, ':') && strchr(P.ccert, ':')[1] == 'w';
		if ((sw || cw) && !kv_get(w + 1, n - 1, "now", &v)) goto bad;
		swin = sw; cwin = cw;
	}
	if (!(sce = get_cert(P.scert))) goto bad;
	if (strcmp(P.ccert, "none") != 0 && !(cce = get_cert(P.ccert))) goto bad;

	/* ---- configs */
	stage = "config";
	if (build_cfgs(&C.cfg, &S.cfg, P.ciph, P.cp, P.sp, P.vc, P.vn, P.vt, P.svc, P.svt, P.cca, P.sca,
		       P.cam, P.sam, P.src, P.depth, sce, cce, 0) != 0) goto setup_fail;

	stage = "ctx";
	C.ctx = tls_client(); S.base = tls_server();
	if (!C.ctx || !S.base) goto setup_fail;
	if (P.rc) {
		/* the first configuration A: other CA sets, verify modes, protocols, cipher list, depth, keypair */
		struct certent *asce = sce, *acce = cce;
		stage = "config-A";
		if (P.akp) {
			asce = get_cert("0:v:s:6f6c642e6578616d706c65:d6f6c642e6578616d706c65");
			acce = get_cert("0:v:c:6f6c64636c69656e74:-");
			if (!asce || !acce) goto setup_fail;
		}
		if (build_cfgs(&cfgA_c, &cfgA_s, P.aciph, P.acp, P.asp, P.avc, P.avn, P.avt, P.asvc, P.asvt,
			       P.acca, P.asca, (P.cam + 1) % 3, (P.sam + 2) % 3, P.asrc, P.adepth, asce, acce, 2) != 0) goto setup_fail;
		stage = "configure-A";
		if (tls_configure(C.ctx, cfgA_c) != 0) goto setup_fail;
		if (tls_configure(S.base, cfgA_s) != 0) goto setup_fail;
		if (P.rc == 2) {
			pre_session(C.ctx, S.base, host);
			tls_reset(C.ctx);
			tls_reset(S.base);
		}
		st_reconfigured++;
	}
	stage = "configure-client";
	if (tls_configure(C.ctx, C.cfg) != 0) goto setup_fail;
	stage = "configure-server";
	if (tls_configure(S.base, S.cfg) != 0) goto setup_fail;

	stage = "socketpair";
	if (socketpair(AF_UNIX, SOCK_STREAM, 0, sp) != 0) goto setup_fail;
	for (i = 0; i < 2; i++) {
		int fl = fcntl(sp[i], F_GETFL);
		fcntl(sp[i], F_SETFL, fl | O_NONBLOCK);
		if (P.buf > 0) {
			sz = P.buf;
			setsockopt(sp[i], SOL_SOCKET, SO_SNDBUF, &sz, sizeof sz);
			setsockopt(sp[i], SOL_SOCKET, SO_RCVBUF, &sz, sizeof sz);
		}
	}
	C.fd = sp[0]; S.fd = sp[1]; S.is_server = 1;
	stage = "connect";
	if (tls_connect_fds(C.ctx, C.fd, C.fd, host) != 0) {
		/* a policy outcome (verify_name on without a server name) rather than a harness fault */
		printf("est=0 ver=- rvs=ok want=ok data=- h=-,- eof=- close=-,- cut=- pt=- after=ok");
		if (g_debug) printf(" ## chs=connect-fail cerr=%s", err_class(tls_error(C.ctx)));
		printf("\n");
		goto cleanup;
	}
	stage = "accept";
	if (tls_accept_fds(S.base, &S.ctx, S.fd, S.fd) != 0) goto setup_fail;

	/* ---- streams and roles */
	C.out_state = S.in_state = P.seed ^ 0xC2500000C2500000ULL;
	S.out_state = C.in_state = P.seed ^ 0x52C0000052C00000ULL;
	C.total = S.total = P.n;
	C.hash = S.hash = HC_FNV_INIT;
	C.corrupt_at = S.corrupt_at = -1;
	C.eof_rv = S.eof_rv = C.close_rv = S.close_rv = -99;
	C.cutread_rv = S.cutread_rv = C.cutclose_rv = S.cutclose_rv = -99;
	C.hs_rv = S.hs_rv = -99;
	g_chunk_max = P.chunk; g_rbuf_max = 65536;
	for (i = 0; i < 2; i++) { C.wbuf[i] = malloc(P.chunk < 64 ? 64 : P.chunk); S.wbuf[i] = malloc(P.chunk < 64 ? 64 : P.chunk); }
	if (P.cut == 0) { if (P.first == 0) C.closer = 1; else S.closer = 1; }
	else {
		/* cut 1/3: client cuts, 2/4: server cuts; 1/2: the victim reads first, 3/4: closes at once */
		struct ep *cutter = (P.cut & 1) ? &C : &S, *victim = (P.cut & 1) ? &S : &C;
		cutter->cutter = 1; victim->victim = 1; victim->victim_reads = P.cut <= 2;
	}
	g_sched = P.seed;

	/* ---- the schedule: pick an endpoint (bias/256 for the client), let it make `run` calls.
	 * An endpoint whose last call said WANT_* is mostly left alone until its peer has done
	 * something (as an event loop would), but is woken spuriously one time in eight.
	 * STALL = no byte moved and no phase changed during 200000 consecutive calls. */
	maxsteps = 200000;
	{
		long idle = 0;
		int blocked[2] = { 0, 0 };	/* last call returned WANT_* and the peer has not moved since */
		while (idle < maxsteps) {
			struct ep *e, *o;
			int run, active_c = C.phase < PH_DONE, active_s = S.phase < PH_DONE, ei;
			if (!active_c && !active_s) break;
			e = (rnd(256) < (unsigned)P.bias) ? &C : &S;
			if (e == &C && !active_c) e = &S;
			if (e == &S && !active_s) e = &C;
			o = (e == &C) ? &S : &C;
			ei = e == &S;
			if (blocked[ei] && o->phase < PH_DONE && !blocked[!ei] && rnd(8) != 0)
				continue;
			run = 1 + rnd(P.burst);
			while (run-- > 0 && e->phase < PH_DONE) {
				int ph = e->phase;
				if (P.noise && rnd(256) < (unsigned)P.noise)
					do_noise(rnd(5));
				size_t moved = e->nin + e->nout;
				long wants = e->nwants;
				ep_step(e, o);
				steps++;
				if (e->phase != ph || e->nin + e->nout != moved) { idle = 0; blocked[!ei] = 0; }
				else idle++;
				blocked[ei] = e->nwants != wants;
				if (blocked[ei]) break;
			}
		}
		if (idle < maxsteps) maxsteps = steps + 1;	/* no stall */
		else maxsteps = steps;
	}

	/* established = both handshakes returned 0 and one byte went each way */
	est = C.reached_data && S.reached_data;
	cver = C.ctx ? tls_conn_version(C.ctx) : NULL;
	sver = S.ctx ? tls_conn_version(S.ctx) : NULL;
	printf("est=%d", est);
	if (steps >= maxsteps) printf(" STALL");
	if (est) {
		if (cver && sver && strcmp(cver, sver) == 0) printf(" ver=%s", cver);
		else printf(" ver=mismatch(%s/%s)", cver ? cver : "null", sver ? sver : "null");
	} else printf(" ver=-");
	if (C.bad_rv || S.bad_rv) printf(" rvs=bad(%c%c:%ld)", C.bad_rv ? 'c' : 's', C.bad_rv ? C.bad_rv : S.bad_rv, C.bad_rv ? C.bad_rv_val : S.bad_rv_val);
	else printf(" rvs=ok");
	if (C.bad_want || S.bad_want) printf(" want=bad(%c%s)", C.bad_want ? 'c' : 's', (C.bad_want ? C.bad_want : S.bad_want) == 1 ? "in" : "out");
	else printf(" want=ok");
	if (est) {
		if (C.corrupt_at >= 0 || S.corrupt_at >= 0) printf(" data=corrupt(%s@%ld)", C.corrupt_at >= 0 ? "s2c" : "c2s", C.corrupt_at >= 0 ? C.corrupt_at : S.corrupt_at);
		else if (C.nin != (size_t)P.n || S.nin != (size_t)P.n || C.nout != (size_t)P.n || S.nout != (size_t)P.n)
			printf(" data=short(c:%zu/%zu,s:%zu/%zu)", C.nout, C.nin, S.nout, S.nin);
		else printf(" data=ok");
		printf(" h=%016llx,%016llx", (unsigned long long)S.hash, (unsigned long long)C.hash);
		if (P.cut == 0) {
			struct ep *second = C.closer ? &S : &C;
			printf(" eof=%s close=%s,%s cut=-", cls(second->eof_rv), cls(C.close_rv), cls(S.close_rv));
		} else {
			struct ep *victim = C.victim ? &C : &S;
			printf(" eof=- close=-,- cut=%s", cls(victim->cutclose_rv));
			g_cutread = victim->cutread_rv;
		}
	} else {
		printf(" data=- h=-,- eof=- close=-,- cut=-");
	}
	/* the validity dates the library reports for the peer certificate (exact, also before 1970) */
	if (est) {
		printf(" pt=");
		if (swin) printf("%lld,%lld", (long long)tls_peer_cert_notbefore(C.ctx), (long long)tls_peer_cert_notafter(C.ctx));
		else printf("-");
		if (cwin && P.svc != 0) printf("/%lld,%lld", (long long)tls_peer_cert_notbefore(S.ctx), (long long)tls_peer_cert_notafter(S.ctx));
		else printf("/-");
	} else printf(" pt=-");
	printf(" after=%s", (C.crossed || S.crossed) ? (C.crossed ? "crossed(client)" : "crossed(server)") : "ok");
	st_sessions++; st_est += est; st_steps += steps; st_wants += C.nwants + S.nwants;
	st_calls += C.ncalls + S.ncalls; st_bytes += C.nin + S.nin;
	if (est && P.cut) { if (g_cutread == 0) st_cutread0++; else if (g_cutread == -1) st_cutreaderr++; }
	if (g_debug) {
		const char *ce = C.first_err[0] ? C.first_err : tls_error(C.ctx);
		const char *se = S.first_err[0] ? S.first_err : (S.ctx ? tls_error(S.ctx) : NULL);
		printf(" ## chs=%s shs=%s", cls(C.hs_rv), cls(S.hs_rv));
		printf(" cutread=%s", cls(g_cutread));
		printf(" cerr=%s/%s", err_class(ce), reason_of(ce, r1, sizeof r1));
		printf(" serr=%s/%s", err_class(se), reason_of(se, r2, sizeof r2));
		printf(" steps=%ld wants=%ld", steps, C.nwants + S.nwants);
	}
	printf("\n");
	goto cleanup;

setup_fail:
	printf("setup-fail stage=%s cerr=%s serr=%s\n", stage,
	       C.ctx && tls_error(C.ctx) ? tls_error(C.ctx) : "-",
	       S.base && tls_error(S.base) ? tls_error(S.base) : "-");
cleanup:
	for (i = 0; i < 2; i++) { free(C.wbuf[i]); free(S.wbuf[i]); }
	usual_tls_free(C.ctx); usual_tls_free(S.ctx); usual_tls_free(S.base);
	cfg_free(C.cfg); cfg_free(S.cfg);
	cfg_free(cfgA_c); cfg_free(cfgA_s);
	if (sp[0] >= 0) close(sp[0]);
	if (sp[1] >= 0) close(sp[1]);
	free(host);
	ERR_clear_error();
	return;
bad:
	free(host);
	printf("bad-op\n");
}

/* ------------------------------------------------------------------ main */

int main(int argc, char **argv)
{
	char *line;
	static char *w[256];

	signal(SIGPIPE, SIG_IGN);
	g_debug = getenv("C17_DEBUG") != NULL;
	setvbuf(stdout, NULL, _IOFBF, 1 << 16);
	if (tls_init() != 0) { fprintf(stderr, "tls_init failed\n"); return 2; }
	if (!load_cas()) { fprintf(stderr, "cannot load CA keys from %s\n", C17_SSLDIR); return 2; }
	g_dummy_ctx = SSL_CTX_new(TLS_method());
	g_rbuf = malloc(65536);
	snprintf(g_tmpdir, sizeof g_tmpdir, "%s", argc > 1 ? argv[1] : "/tmp");

	while ((line = hc_line()) != NULL) {
		int n;
		if (strcmp(line, "#case") == 0) { printf("#case\n"); continue; }
		n = hc_words(line, w, 256);
		if (n >= 1 && strcmp(w[0], "cfg") == 0) do_cfg(w, n);
		else if (n >= 1 && strcmp(w[0], "inj") == 0) do_inj(w, n);
		else if (n >= 1 && strcmp(w[0], "hs") == 0) do_hs(w, n);
		else printf("bad-op\n");
	}
	fflush(stdout);
	if (argc > 2) {
		FILE *f = fopen(argv[2], "w");
		if (f) {
			fprintf(f, "{\"sessions\": %ld, \"established\": %ld, \"steps\": %ld, \"want_events\": %ld, "
				"\"tls_calls\": %ld, \"bytes_received\": %ld, \"partial_writes\": %ld, "
				"\"cut_read_0\": %ld, \"cut_read_err\": %ld, \"certs_generated\": %d, "
				"\"noise_calls\": %ld, \"noise_calls_leaving_error_queue_dirty\": %ld, "
				"\"refused_endpoints\": %ld, \"io_calls_after_refusal\": %ld, "
				"\"sessions_after_reconfigure\": %ld, \"pre_sessions_then_reset\": %ld, "
				"\"keypairs_cert_and_key_from_different_sources\": %ld}\n",
				st_sessions, st_est, st_steps, st_wants, st_calls, st_bytes, st_partial,
				st_cutread0, st_cutreaderr, g_ncerts, st_noise, st_noise_dirty, st_refused, st_refused_calls, st_reconfigured, st_presessions, st_mixed_keypairs);
			fclose(f);
		}
	}
	return 0;
}
