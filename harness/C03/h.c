/* C03 harness: drives the JSON builder API, json_render and json_parse of usual/json.c through
 * the line protocol (see lean/Driver/C03.lean for the op lines).
 *
 * Slots: every constructor line takes the next slot; a slot holds a JsonValue* or NULL.
 * Everything observable is obtained through the public API only (json_value_*, json_*_iter,
 * json_render, json_parse).  Before any recursive observation (render / dump / rt) the value
 * is checked for cycles with the iterators (the API lets a container be appended to its own
 * descendant; json_render would then recurse forever) and `cyclic` is printed instead. */
#include "hcommon.h"
#include <usual/json.h>
#include <usual/mbuf.h>
#include <errno.h>
#include <math.h>
#include <inttypes.h>

#define MAXSLOT 100000
static struct JsonContext *ctx, *ctx2;
static struct JsonValue *slot[MAXSLOT];
static int nslot;

static void reset(void)
{
	if (ctx) json_free_context(ctx);
	if (ctx2) json_free_context(ctx2);
	ctx = json_new_context(NULL, 0);
	ctx2 = json_new_context(NULL, 0);
	nslot = 0;
}

/* ---- argument parsing */
static bool slot_arg(const char *w, struct JsonValue **out)
{
	char *e;
	long n;
	if (strcmp(w, "N") == 0) { *out = NULL; return true; }
	if (!*w) return false;
	for (const char *p = w; *p; p++) if (*p < '0' || *p > '9') return false;
	n = strtol(w, &e, 10);
	if (*e || n < 0 || n >= nslot) return false;
	*out = slot[n];
	return true;
}

static bool bits_arg(const char *w, double *out, uint64_t *bits)
{
	uint64_t x = 0;
	if (strlen(w) != 16) return false;
	for (int i = 0; i < 16; i++) {
		int v = hc_hexval(w[i]);
		if (v < 0) return false;
		x = (x << 4) | v;
	}
	memcpy(out, &x, 8);
	*bits = x;
	return true;
}

static bool int_arg(const char *w, int64_t *out)
{
	char *e;
	const char *p = w;
	if (*p == '-') p++;
	if (!*p) return false;
	for (; *p; p++) if (*p < '0' || *p > '9') return false;
	errno = 0;
	*out = strtoll(w, &e, 10);
	if (*e || errno) return false;
	return true;
}

/* hex → NUL-terminated exact-size C string; refuses embedded NUL */
static char *cstr_arg(const char *w)
{
	uint8_t *b;
	long n = hc_unhex(w, &b);
	char *s;
	if (n < 0) return NULL;
	if (memchr(b, 0, n)) { free(b); return NULL; }
	s = malloc(n + 1);
	memcpy(s, b, n);
	s[n] = 0;
	free(b);
	return s;
}

/* checks on the libc the round-trip theorem takes as hypotheses: the op line carries the
 * correctly rounded %.17g text; snprintf must print it and strtod must read the rendered
 * token back to the same bits.  Returns a marker (normally empty). */
static const char *float_check(double d, uint64_t bits, const char *hex)
{
	static char mark[200];
	char buf[64], tok[64];
	uint8_t *t;
	long n = hc_unhex(hex, &t);
	int len;
	mark[0] = 0;
	if (n < 0) return NULL;
	len = snprintf(buf, sizeof buf, "%.17g", d);
	if (!isfinite(d))
		;	/* inf/nan spellings are not pinned (such values cannot be built) */
	else if (len != n || memcmp(buf, t, n) != 0)
		snprintf(mark, sizeof mark, " FMT17-MISMATCH libc=%s", buf);
	else {
		double back;
		uint64_t bb;
		strcpy(tok, buf);
		if (!strchr(tok, '.') && !strchr(tok, 'e')) strcat(tok, ".0");
		back = strtod(tok, NULL);
		memcpy(&bb, &back, 8);
		if (bb != bits)
			snprintf(mark, sizeof mark, " STRTOD-MISMATCH %016" PRIx64, bb);
	}
	free(t);
	return mark;
}

/* ---- observers through the public API */
/* an iteration that visits more than this many elements is reported as endless (a sibling
 * chain that loops can only come from a broken attach discipline) instead of hanging */
#define ITER_CAP 2000000
static bool cnt_list_cb(void *arg, struct JsonValue *e) { return ++(*(long *)arg) <= ITER_CAP; }
static bool cnt_dict_cb(void *arg, struct JsonValue *k, struct JsonValue *v) { return ++(*(long *)arg) <= ITER_CAP; }

static void print_size_iter(struct JsonValue *v)
{
	long n = 0;
	bool ok;
	printf("sz=%zu it=", json_value_size(v));
	if (v && json_value_is_list(v)) ok = json_list_iter(v, cnt_list_cb, &n);
	else if (v && json_value_is_dict(v)) ok = json_dict_iter(v, cnt_dict_cb, &n);
	else { printf("-"); return; }
	if (n > ITER_CAP) printf("endless");
	else if (!ok) printf("-");
	else printf("%ld", n);
}

/* cycle check: depth-first over the iterators with the current path */
#define MAXDEPTH 4096
static struct JsonValue *path[MAXDEPTH];
static int pathlen;
static long visited;
static bool acyclic(struct JsonValue *v);
static bool acy_list_cb(void *arg, struct JsonValue *e) { return acyclic(e); }
static bool acy_dict_cb(void *arg, struct JsonValue *k, struct JsonValue *e) { return acyclic(e); }
static bool acyclic(struct JsonValue *v)
{
	bool ok = true;
	if (++visited > ITER_CAP) return false;
	if (!json_value_is_list(v) && !json_value_is_dict(v)) return true;
	for (int i = 0; i < pathlen; i++) if (path[i] == v) return false;
	if (pathlen >= MAXDEPTH) return false;
	path[pathlen++] = v;
	if (json_value_is_list(v)) ok = json_list_iter(v, acy_list_cb, NULL);
	else ok = json_dict_iter(v, acy_dict_cb, NULL);
	pathlen--;
	return ok;
}

struct DumpSt { int first; };
static void dump(struct JsonValue *v);
static bool dump_list_cb(void *arg, struct JsonValue *e)
{
	struct DumpSt *st = arg;
	if (!st->first) putchar(',');
	st->first = 0;
	dump(e);
	return true;
}
static bool dump_dict_cb(void *arg, struct JsonValue *k, struct JsonValue *e)
{
	struct DumpSt *st = arg;
	const char *s; size_t n;
	if (!st->first) putchar(',');
	st->first = 0;
	if (json_value_as_string(k, &s, &n)) hc_puthex(s, n); else printf("?");
	putchar(':');
	dump(e);
	return true;
}
static void dump(struct JsonValue *v)
{
	struct DumpSt st = { 1 };
	bool b; int64_t i; double d; uint64_t bits; const char *s; size_t n;
	switch (json_value_type(v)) {
	case JSON_NULL: putchar('n'); break;
	case JSON_BOOL: json_value_as_bool(v, &b); putchar(b ? 't' : 'f'); break;
	case JSON_INT: json_value_as_int(v, &i); printf("i%" PRId64, i); break;
	case JSON_FLOAT: json_value_as_float(v, &d); memcpy(&bits, &d, 8); printf("d%016" PRIx64, bits); break;
	case JSON_STRING: json_value_as_string(v, &s, &n); putchar('s'); hc_puthex(s, n); break;
	case JSON_LIST: putchar('['); if (!json_list_iter(v, dump_list_cb, &st)) printf("!iter"); putchar(']'); break;
	case JSON_DICT: putchar('{'); if (!json_dict_iter(v, dump_dict_cb, &st)) printf("!iter"); putchar('}'); break;
	default: printf("?type"); break;
	}
}

/* scalar given inline: kind + args → calls fn variants. returns 0 ok, -1 bad-op */
enum { K_NULL, K_BOOL, K_INT, K_FLOAT, K_STR };
struct Sc { int kind; bool b; int64_t i; double d; char *s; const char *mark; };

static int scalar_arg(const char *kind, char **w, int n, struct Sc *sc)
{
	uint64_t bits;
	sc->mark = "";
	sc->s = NULL;
	if (!strcmp(kind, "null") && n == 0) { sc->kind = K_NULL; return 0; }
	if (!strcmp(kind, "bool") && n == 1 && (!strcmp(w[0], "0") || !strcmp(w[0], "1"))) {
		sc->kind = K_BOOL; sc->b = w[0][0] == '1'; return 0;
	}
	if (!strcmp(kind, "int") && n == 1 && int_arg(w[0], &sc->i)) { sc->kind = K_INT; return 0; }
	if (!strcmp(kind, "float") && n == 2 && bits_arg(w[0], &sc->d, &bits)) {
		sc->mark = float_check(sc->d, bits, w[1]);
		if (!sc->mark) return -1;
		sc->kind = K_FLOAT; return 0;
	}
	if (!strcmp(kind, "str") && n == 1 && (sc->s = cstr_arg(w[0]))) { sc->kind = K_STR; return 0; }
	return -1;
}

int main(void)
{
	char *line, *w[8];
	reset();
	while ((line = hc_line())) {
		int n;
		struct JsonValue *a, *b;
		struct Sc sc;
		if (strcmp(line, "#case") == 0) { reset(); puts("#case"); fflush(stdout); continue; }
		n = hc_words(line, w, 8);
		if (n == 0) { puts("bad-op"); continue; }
		if (nslot >= MAXSLOT - 1) { puts("bad-op"); continue; }

		if (!strcmp(w[0], "list") && n == 1) {
			slot[nslot] = json_new_list(ctx);
			printf("ptr %d\n", slot[nslot++] != NULL);
		} else if (!strcmp(w[0], "dict") && n == 1) {
			slot[nslot] = json_new_dict(ctx);
			printf("ptr %d\n", slot[nslot++] != NULL);
		} else if (!strcmp(w[0], "append") && n == 3 && slot_arg(w[1], &a) && slot_arg(w[2], &b)) {
			printf("ret %d ", json_list_append(a, b));
			print_size_iter(a); putchar('\n');
		} else if (!strcmp(w[0], "put") && n == 4 && slot_arg(w[1], &a) && slot_arg(w[3], &b)) {
			char *k = cstr_arg(w[2]);
			if (!k) { puts("bad-op"); continue; }
			printf("ret %d ", json_dict_put(a, k, b));
			print_size_iter(a); putchar('\n');
			free(k);
		} else if (!strcmp(w[0], "size") && n == 2 && slot_arg(w[1], &a)) {
			print_size_iter(a); putchar('\n');
		} else if (!strcmp(w[0], "render") && n == 2 && slot_arg(w[1], &a) && a) {
			struct MBuf mb;
			pathlen = 0; visited = 0;
			if (!acyclic(a)) { puts("cyclic"); continue; }
			mbuf_init_dynamic(&mb);
			if (json_render(&mb, a)) { printf("r "); hc_puthex(mbuf_data(&mb), mbuf_written(&mb)); putchar('\n'); }
			else puts("fail");
			mbuf_free(&mb);
		} else if (!strcmp(w[0], "dump") && n == 2 && slot_arg(w[1], &a) && a) {
			pathlen = 0; visited = 0;
			if (!acyclic(a)) { puts("cyclic"); continue; }
			printf("v "); dump(a); putchar('\n');
		} else if (!strcmp(w[0], "poison") && n == 3 && (!strcmp(w[1], "0") || !strcmp(w[1], "2"))) {
			/* a document parsed in the builder's context (0) or in the re-parse context (2);
			 * the result is dropped: only what it leaves behind in the context matters */
			uint8_t *doc;
			long len = hc_unhex(w[2], &doc);
			if (len < 0) { puts("bad-op"); continue; }
			printf("p %d\n", json_parse(w[1][0] == '0' ? ctx : ctx2, (char *)doc, len) != NULL);
			free(doc);
		} else if ((!strcmp(w[0], "rt") || !strcmp(w[0], "rtf") || !strcmp(w[0], "rts")) && n == 2 &&
			   slot_arg(w[1], &a) && a) {
			/* render, then json_parse the document: rt = in the re-parse context of this case
			 * (which has seen every earlier rt and poison 2), rtf = in a fresh context,
			 * rts = in the very context the value lives in */
			struct MBuf mb;
			struct JsonContext *pctx = ctx2, *fresh = NULL;
			struct JsonValue *v2;
			char *doc;
			size_t len;
			pathlen = 0; visited = 0;
			if (!acyclic(a)) { puts("cyclic"); continue; }
			mbuf_init_dynamic(&mb);
			if (!json_render(&mb, a)) { puts("rt-fail"); mbuf_free(&mb); continue; }
			/* exact-size copy so that ASan sees any over-read of the parser */
			len = mbuf_written(&mb);
			doc = malloc(len ? len : 1);
			memcpy(doc, mbuf_data(&mb), len);
			mbuf_free(&mb);
			if (w[0][2] == 'f') pctx = fresh = json_new_context(NULL, 0);
			else if (w[0][2] == 's') pctx = ctx;
			v2 = json_parse(pctx, doc, len);
			if (!v2) puts("rt-fail");
			else { printf("rt "); dump(v2); putchar('\n'); }
			free(doc);
			if (fresh) json_free_context(fresh);
		} else if (!strcmp(w[0], "parse") && n == 3) {
			uint8_t *doc;
			long len = hc_unhex(w[1], &doc);
			if (len < 0) { puts("bad-op"); continue; }
			slot[nslot] = json_parse(ctx, (char *)doc, len);
			printf("ptr %d\n", slot[nslot++] != NULL);
			free(doc);
		} else if (!strncmp(w[0], "append_", 7) && n >= 2 && slot_arg(w[1], &a) && a &&
			   scalar_arg(w[0] + 7, w + 2, n - 2, &sc) == 0) {
			bool r = false;
			switch (sc.kind) {
			case K_NULL: r = json_list_append_null(a); break;
			case K_BOOL: r = json_list_append_bool(a, sc.b); break;
			case K_INT: r = json_list_append_int(a, sc.i); break;
			case K_FLOAT: r = json_list_append_float(a, sc.d); break;
			case K_STR: r = json_list_append_string(a, sc.s); break;
			}
			printf("ret %d ", r); print_size_iter(a); printf("%s\n", sc.mark);
			free(sc.s);
		} else if (!strncmp(w[0], "put_", 4) && n >= 3 && slot_arg(w[1], &a) && a) {
			char *k = cstr_arg(w[2]);
			bool r = false;
			if (!k || scalar_arg(w[0] + 4, w + 3, n - 3, &sc) != 0) { free(k); puts("bad-op"); continue; }
			switch (sc.kind) {
			case K_NULL: r = json_dict_put_null(a, k); break;
			case K_BOOL: r = json_dict_put_bool(a, k, sc.b); break;
			case K_INT: r = json_dict_put_int(a, k, sc.i); break;
			case K_FLOAT: r = json_dict_put_float(a, k, sc.d); break;
			case K_STR: r = json_dict_put_string(a, k, sc.s); break;
			}
			printf("ret %d ", r); print_size_iter(a); printf("%s\n", sc.mark);
			free(sc.s); free(k);
		} else if (scalar_arg(w[0], w + 1, n - 1, &sc) == 0) {
			struct JsonValue *v = NULL;
			switch (sc.kind) {
			case K_NULL: v = json_new_null(ctx); break;
			case K_BOOL: v = json_new_bool(ctx, sc.b); break;
			case K_INT: v = json_new_int(ctx, sc.i); break;
			case K_FLOAT: v = json_new_float(ctx, sc.d); break;
			case K_STR: v = json_new_string(ctx, sc.s); break;
			}
			slot[nslot++] = v;
			printf("ptr %d%s\n", v != NULL, sc.mark);
			free(sc.s);
		} else {
			puts("bad-op");
		}
	}
	return 0;
}
