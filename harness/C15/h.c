/* C15 harness: drives the real hashtab-impl.h / heap.c / list.c / list.h / statlist.h /
 * shlist.h code in-process with the op lines of the line protocol (see lean/Driver/C15.lean
 * for the model side; the two print the same `observable ## internal` lines). */
#include <usual/hashtab-impl.h>
#include <usual/heap.h>
#include <usual/list.h>
#include <usual/statlist.h>
#include <usual/shlist.h>
#include "hcommon.h"
#include "trkcx.h"
#include <inttypes.h>
#include <sys/time.h>
#include <signal.h>
#include <unistd.h>

typedef unsigned long long ull;

static uint64_t fnvi(uint64_t h, int64_t v) { return hc_fnv(h, (uint64_t)v); }

static int parse_u(const char *s, ull *out)
{
	char *e;
	if (!*s || *s < '0' || *s > '9') return 0;
	errno = 0;
	*out = strtoull(s, &e, 10);
	return *e == 0 && errno == 0;
}

/* ------------------------------------------------------------------ hashtab */
static int ht_mode;
static struct HashTab *ht;

static bool ht_cmp(const htab_val_t cur, const void *arg)
{
	uintptr_t c = (uintptr_t)cur, a = (uintptr_t)arg;
	return ht_mode == 0 ? c == a : (c / 16) == (a / 16);
}
static ull ht_shift(ull v) { return ht_mode == 0 ? v : v / 16; }

struct Pair { ull k, v; };
static int pair_cmp(const void *a, const void *b)
{
	const struct Pair *x = a, *y = b;
	if (x->k != y->k) return x->k < y->k ? -1 : 1;
	if (x->v != y->v) return x->v < y->v ? -1 : 1;
	return 0;
}
static struct Pair *ht_pairs(size_t *n_p, int shifted)
{
	struct HashTab *t;
	size_t n = 0, cap = 16;
	struct Pair *ps = malloc(cap * sizeof(*ps));
	unsigned i;
	for (t = ht; t; t = t->next)
		for (i = 0; i < t->size; i++)
			if (t->tab[i].value) {
				if (n == cap) { cap *= 2; ps = realloc(ps, cap * sizeof(*ps)); }
				ps[n].k = t->tab[i].key;
				ps[n].v = shifted ? ht_shift((uintptr_t)t->tab[i].value) : (uintptr_t)t->tab[i].value;
				n++;
			}
	*n_p = n;
	return ps;
}
static void ht_tail(void)
{
	unsigned nitem, ntab, i;
	size_t n, j;
	struct Pair *ps = ht_pairs(&n, 1);
	uint64_t c = HC_FNV_INIT, ih = HC_FNV_INIT;
	struct HashTab *t;
	qsort(ps, n, sizeof(*ps), pair_cmp);
	for (j = 0; j < n; j++) c = hc_fnv(hc_fnv(c, ps[j].k), ps[j].v);
	free(ps);
	for (t = ht; t; t = t->next) {
		ih = hc_fnv(hc_fnv(ih, t->size), t->used);
		for (i = 0; i < t->size; i++)
			ih = hc_fnv(hc_fnv(ih, t->tab[i].key), (uintptr_t)t->tab[i].value);
	}
	hashtab_stats(ht, &nitem, &ntab);
	printf(" n=%u c=%" PRIx64 " ## nt=%u h=%" PRIx64, nitem, c, ntab, ih);
}
static int is_pow2(ull n) { return n >= 2 && n <= 1024 && (n & (n - 1)) == 0; }
static int parse_arg(const char *s, void **arg)
{
	ull a;
	if (strcmp(s, "-") == 0) { *arg = NULL; return 1; }
	if (!parse_u(s, &a) || a < 1) return 0;
	*arg = (void *)(uintptr_t)a;
	return 1;
}
static void ht_reset(void)
{
	if (ht) hashtab_destroy(ht);
	ht_mode = 0;
	ht = hashtab_create(8, ht_cmp, NULL);
}
static void ht_step(char **w, int n)
{
	ull a, b;
	void *arg;
	if (n == 3 && !strcmp(w[0], "new") && parse_u(w[1], &a) && parse_u(w[2], &b) && is_pow2(a) && b <= 1) {
		hashtab_destroy(ht);
		ht_mode = (int)b;
		ht = hashtab_create((unsigned)a, ht_cmp, NULL);
		printf("ok"); ht_tail();
	} else if (n == 4 && !strcmp(w[0], "ins") && parse_u(w[1], &a) && parse_u(w[2], &b) && b != 0 && parse_arg(w[3], &arg)) {
		void **p = hashtab_lookup(ht, (htab_key_t)a, true, arg);
		if (!p) { printf("alloc-fail"); return; }
		if (*p) printf("exists %llu", ht_shift((uintptr_t)*p));
		else { *p = (void *)(uintptr_t)b; printf("new"); }
		ht_tail();
	} else if (n == 3 && !strcmp(w[0], "get") && parse_u(w[1], &a) && parse_arg(w[2], &arg)) {
		void **p = hashtab_lookup(ht, (htab_key_t)a, false, arg);
		if (!p) { printf("none"); ht_tail(); }
		else {
			struct HashItem *hd = container_of(p, struct HashItem, value);
			struct HashTab *t = ht;
			unsigned ti = 0;
			printf("found %llu", ht_shift((uintptr_t)*p)); ht_tail();
			while (t && (hd < t->tab || hd >= t->tab + t->size)) { t = t->next; ti++; }
			printf(" at=%u:%u:%llu", ti, (unsigned)(hd - t->tab), (ull)(uintptr_t)*p);
		}
	} else if (n == 3 && !strcmp(w[0], "del") && parse_u(w[1], &a) && parse_arg(w[2], &arg)) {
		hashtab_delete(ht, (htab_key_t)a, arg);
		printf("ok"); ht_tail();
	} else if (n == 2 && !strcmp(w[0], "copy") && parse_u(w[1], &a) && is_pow2(a)) {
		struct HashTab *h2 = hashtab_copy(ht, (unsigned)a);
		if (!h2) { printf("alloc-fail"); return; }
		hashtab_destroy(ht);
		ht = h2;
		printf("ok"); ht_tail();
	} else if (n == 1 && !strcmp(w[0], "all")) {
		size_t np, j, ok = 0;
		struct Pair *ps = ht_pairs(&np, 0);
		for (j = 0; j < np; j++) {
			void **p = hashtab_lookup(ht, (htab_key_t)ps[j].k, false, (void *)(uintptr_t)ps[j].v);
			if (p) {
				struct HashItem *hd = container_of(p, struct HashItem, value);
				if (hd->key == ps[j].k && ht_cmp(*p, (void *)(uintptr_t)ps[j].v)) ok++;
			}
		}
		free(ps);
		printf("all %zu/%zu", ok, np); ht_tail();
	} else if (n == 1 && !strcmp(w[0], "dump")) {
		unsigned nitem, ntab, i;
		size_t np, j;
		struct Pair *ps = ht_pairs(&np, 1);
		struct HashTab *t;
		qsort(ps, np, sizeof(*ps), pair_cmp);
		hashtab_stats(ht, &nitem, &ntab);
		printf("dump n=%u c=", nitem);
		for (j = 0; j < np; j++) printf("%s%llu:%llu", j ? "," : "", ps[j].k, ps[j].v);
		free(ps);
		printf(" ## nt=%u", ntab);
		for (t = ht; t; t = t->next) {
			printf(" T%u:%u:[", t->size, t->used);
			for (i = 0; i < t->size; i++)
				printf("%s%llu:%llu", i ? "," : "", (ull)t->tab[i].key, (ull)(uintptr_t)t->tab[i].value);
			printf("]");
		}
	} else
		printf("bad-op");
}

/* --------------------------------------------------------------------- heap */
#define HP_MAXID 4096
struct HE { ull pri; unsigned pos; int in_heap; };
static struct HE he[HP_MAXID];
static struct Heap *hp;

static bool hp_better(const void *a, const void *b) { return ((const struct HE *)a)->pri < ((const struct HE *)b)->pri; }
static void hp_savepos(void *p, unsigned i) { ((struct HE *)p)->pos = i; }
static ull hp_id(const void *p) { return (ull)((const struct HE *)p - he); }
static int ull_cmp(const void *a, const void *b) { ull x = *(const ull *)a, y = *(const ull *)b; return x < y ? -1 : x > y; }

/* `allocated` is private to heap.c: mirror struct Heap's layout prefix to read it */
struct HeapPeek { void **data; unsigned allocated; unsigned used; };

static void hp_reset(void)
{
	if (hp) heap_destroy(hp);
	memset(he, 0, sizeof(he));
	trk_reset();
	/* the heap lives on the tracking allocator so that `hp fail` can make its next request fail */
	hp = heap_create(hp_better, hp_savepos, (CxMem *)&trk_cx);
}
static void hp_tail(void)
{
	unsigned n = heap_size(hp), i;
	ull *ps = malloc((n + 1) * sizeof(*ps));
	uint64_t m = HC_FNV_INIT, ih = HC_FNV_INIT;
	int sp = 1;
	for (i = 0; i < n; i++) {
		struct HE *e = heap_get_obj(hp, i);
		ps[i] = e->pri;
		ih = hc_fnv(ih, hp_id(e));
		if (e->pos != i) sp = 0;
	}
	qsort(ps, n, sizeof(*ps), ull_cmp);
	for (i = 0; i < n; i++) m = hc_fnv(m, ps[i]);
	free(ps);
	printf(" n=%u sp=%d m=%" PRIx64 " ## a=%u h=%" PRIx64, n, sp, m, ((struct HeapPeek *)hp)->allocated, ih);
}
static void hp_step(char **w, int n)
{
	ull a, b;
	if (n == 3 && !strcmp(w[0], "push") && parse_u(w[1], &a) && parse_u(w[2], &b)) {
		if (a == 0 || a >= HP_MAXID || he[a].in_heap) { printf("bad-op"); return; }
		he[a].pri = b;
		he[a].in_heap = heap_push(hp, &he[a]) ? 1 : 0;
		printf("%d", he[a].in_heap); hp_tail();
	} else if (n == 1 && !strcmp(w[0], "fail")) {
		/* the next request the heap makes to its allocator (if any) returns NULL */
		trk_fail_at = trk_requests + 1;
		printf("ok"); hp_tail();
	} else if (n == 1 && !strcmp(w[0], "pop")) {
		struct HE *e = heap_pop(hp);
		if (!e) { printf("null"); hp_tail(); return; }
		e->in_heap = 0;
		printf("pri=%llu", e->pri); hp_tail(); printf(" id=%llu", hp_id(e));
	} else if (n == 2 && !strcmp(w[0], "rm") && parse_u(w[1], &a)) {
		struct HE *at = a <= 0xffffffffULL ? heap_get_obj(hp, (unsigned)a) : NULL;
		struct HE *e = a <= 0xffffffffULL ? heap_remove(hp, (unsigned)a) : NULL;
		if (!e) { printf("null"); hp_tail(); return; }
		e->in_heap = 0;
		printf("same=%d", at == e); hp_tail(); printf(" id=%llu", hp_id(e));
	} else if (n == 1 && !strcmp(w[0], "top")) {
		struct HE *e = heap_top(hp);
		if (!e) { printf("null"); hp_tail(); return; }
		printf("pri=%llu", e->pri); hp_tail(); printf(" id=%llu", hp_id(e));
	} else if (n == 2 && !strcmp(w[0], "get") && parse_u(w[1], &a)) {
		struct HE *e = a <= 0xffffffffULL ? heap_get_obj(hp, (unsigned)a) : NULL;
		if (!e) { printf("null"); hp_tail(); return; }
		printf("obj"); hp_tail(); printf(" id=%llu", hp_id(e));
	} else if (n == 2 && !strcmp(w[0], "reserve") && parse_u(w[1], &a)) {
		if (a > 100000) { printf("bad-op"); return; }
		printf("%d", heap_reserve(hp, (unsigned)a) ? 1 : 0); hp_tail();
	} else if (n == 1 && !strcmp(w[0], "dump")) {
		unsigned sz = heap_size(hp), i;
		printf("dump ");
		for (i = 0; i < sz; i++) printf("%s%llu", i ? "," : "", ((struct HE *)heap_get_obj(hp, i))->pri);
		printf(" n=%u ## a=%u ", sz, ((struct HeapPeek *)hp)->allocated);
		for (i = 0; i < sz; i++) {
			struct HE *e = heap_get_obj(hp, i);
			printf("%s%llu@%u", i ? "," : "", hp_id(e), e->pos);
		}
	} else
		printf("bad-op");
}

/* ------------------------------------------------ List / StatList / list_sort */
#define DL_MAXNODE 10100
/* the element type has its link member at a NON-ZERO offset (container_of really subtracts) */
struct DN { long pad[3]; struct List l; ull key; unsigned st; unsigned rank; };
#define DN_OF(p) container_of(p, struct DN, l)
/* and a view with the link member first, for the typed helpers with offset 0 */
struct DN0 { struct List node; };
static struct DN *dn;                 /* dn[1], dn[2]: plain heads; items 5.. */
static struct StatList dsl[5];        /* dsl[3], dsl[4] */
static unsigned dmax;

static struct List *dl_ptr(unsigned id)
{
	if (id == 3 || id == 4) return &dsl[id].head;
	return &dn[id].l;
}
static ull dl_id(const struct List *p)
{
	if (!p) return 0;
	if (p == &dsl[3].head) return 3;
	if (p == &dsl[4].head) return 4;
	return (ull)(DN_OF(p) - dn);
}
static void dl_reset(void)
{
	if (!dn) dn = calloc(DL_MAXNODE + 1, sizeof(*dn));
	else memset(dn, 0, (dmax + 1) * sizeof(*dn));
	dmax = 4;
	list_init(&dn[1].l);
	list_init(&dn[2].l);
	statlist_init(&dsl[3], "s3");
	statlist_init(&dsl[4], "s4");
}
static void dl_head(unsigned h)
{
	struct List *head = dl_ptr(h), *el;
	uint64_t fh = HC_FNV_INIT, bh = HC_FNV_INIT;
	unsigned fl = 0, bl = 0;
	/* bounded walks: a broken ring must not hang the harness */
	for (el = head->next; el != head && fl < dmax + 1; el = el->next) { fh = hc_fnv(fh, dl_id(el)); fl++; }
	for (el = head->prev; el != head && bl < dmax + 1; el = el->prev) { bh = hc_fnv(bh, dl_id(el)); bl++; }
	printf(" L%u=%u:%" PRIx64 ":%u:%" PRIx64, h, fl, fh, bl, bh);
	if (h >= 3) printf(":%d", statlist_count(&dsl[h]));
}
static void dl_tail(void)
{
	uint64_t ih = HC_FNV_INIT;
	unsigned i;
	dl_head(1); dl_head(2); dl_head(3); dl_head(4);
	for (i = 0; i <= dmax; i++) {
		struct List *p = (i == 0) ? NULL : dl_ptr(i);
		ih = hc_fnv(hc_fnv(ih, p ? dl_id(p->next) : 0), p ? dl_id(p->prev) : 0);
	}
	printf(" ## r=%" PRIx64, ih);
}
static int dl_cmp(const struct List *a, const struct List *b)
{
	ull x = DN_OF(a)->key, y = DN_OF(b)->key;
	return x < y ? -1 : x > y;
}
static int is_head(ull h) { return h >= 1 && h <= 4; }
static int is_item(ull x) { return x >= 5 && x <= DL_MAXNODE; }
static void dl_insert(unsigned h, unsigned x, int front)
{
	dn[x].st = 1 + h;
	if (h <= 2) {
		if (front) list_prepend(&dn[h].l, &dn[x].l); else list_append(&dn[h].l, &dn[x].l);
	} else {
		if (front) statlist_prepend(&dsl[h], &dn[x].l); else statlist_append(&dsl[h], &dn[x].l);
	}
}
static void put_ptr(const struct List *p) { if (p) printf("%llu", dl_id(p)); else printf("null"); }
static uint64_t splitmix_at(ull seed, ull i)
{
	uint64_t s = seed * 0x9E3779B97F4A7C15ULL + 0x1234567ULL + (i + 1) * 0x9E3779B97F4A7C15ULL;
	uint64_t z = (s ^ (s >> 30)) * 0xBF58476D1CE4E5B9ULL;
	z = (z ^ (z >> 27)) * 0x94D049BB133111EBULL;
	return z ^ (z >> 31);
}
static void dl_step(char **w, int n)
{
	ull a, b, c, d;
	if (n == 2 && !strcmp(w[0], "node") && parse_u(w[1], &a)) {
		if (!(is_item(a) && dn[a].st <= 1)) { printf("bad-op"); return; }
		list_init(&dn[a].l); dn[a].st = 1; if (a > dmax) dmax = a;
		printf("ok"); dl_tail();
	} else if (n == 3 && !strcmp(w[0], "key") && parse_u(w[1], &a) && parse_u(w[2], &b)) {
		if (!(is_item(a) && b < 1000000)) { printf("bad-op"); return; }
		dn[a].key = b;
		printf("ok"); dl_tail();
	} else if (n == 3 && (!strcmp(w[0], "pre") || !strcmp(w[0], "app")) && parse_u(w[1], &a) && parse_u(w[2], &b)) {
		if (!(is_head(a) && is_item(b) && dn[b].st == 1)) { printf("bad-op"); return; }
		dl_insert(a, b, !strcmp(w[0], "pre"));
		printf("ok"); dl_tail();
	} else if (n == 2 && !strcmp(w[0], "del") && parse_u(w[1], &a)) {
		unsigned h;
		if (!(is_item(a) && dn[a].st >= 1)) { printf("bad-op"); return; }
		h = dn[a].st - 1;
		dn[a].st = 1;
		if (h >= 3) statlist_remove(&dsl[h], &dn[a].l); else list_del(&dn[a].l);
		printf("ok"); dl_tail();
	} else if (n == 3 && !strcmp(w[0], "popt") && parse_u(w[1], &a) && parse_u(w[2], &b)) {
		/* list_pop_type over an element type with the link at offset b ? 24 : 0; NULL on empty */
		if (!((a == 1 || a == 2) && b <= 1)) { printf("bad-op"); return; }
		if (b) {
			struct DN *e = list_pop_type(&dn[a].l, struct DN, l);
			if (!e) printf("null");
			else if (e < dn + 5 || e > dn + dmax) printf("garbage");
			else { e->st = 1; printf("%llu", (ull)(e - dn)); }
		} else {
			struct DN0 *e = list_pop_type(&dn[a].l, struct DN0, node);
			if (!e) printf("null");
			else { DN_OF(&e->node)->st = 1; printf("%llu", dl_id(&e->node)); }
		}
		dl_tail();
	} else if (n == 2 && parse_u(w[1], &a) && (!strcmp(w[0], "pop") || !strcmp(w[0], "first") || !strcmp(w[0], "last")
			|| !strcmp(w[0], "empty") || !strcmp(w[0], "sort") || !strcmp(w[0], "dump"))) {
		struct List *head, *el;
		if (!is_head(a)) { printf("bad-op"); return; }
		head = dl_ptr(a);
		if (!strcmp(w[0], "pop")) {
			el = (a <= 2) ? list_pop(head) : statlist_pop(&dsl[a]);
			if (el) DN_OF(el)->st = 1;
			put_ptr(el); dl_tail();
		} else if (!strcmp(w[0], "first")) {
			put_ptr((a <= 2) ? list_first(head) : statlist_first(&dsl[a])); dl_tail();
		} else if (!strcmp(w[0], "last")) {
			put_ptr((a <= 2) ? list_last(head) : statlist_last(&dsl[a])); dl_tail();
		} else if (!strcmp(w[0], "empty")) {
			printf("%d", (a <= 2) ? list_empty(head) : (int)statlist_empty(&dsl[a])); dl_tail();
		} else if (!strcmp(w[0], "sort")) {
			unsigned r = 0, cnt = 0;
			int sorted = 1, stable = 1;
			struct DN *pe = NULL;
			for (el = head->next; el != head && cnt < dmax + 1; el = el->next, cnt++) DN_OF(el)->rank = ++r;
			list_sort(head, dl_cmp);
			cnt = 0;
			for (el = head->next; el != head && cnt < dmax + 1; el = el->next, cnt++) {
				struct DN *e = DN_OF(el);
				if (pe) {
					if (pe->key > e->key) sorted = 0;
					if (pe->key == e->key && !(pe->rank < e->rank)) stable = 0;
				}
				pe = e;
			}
			printf("sort ok=%d%d", sorted, stable); dl_tail();
		} else {
			unsigned cnt = 0;
			printf("dump ");
			for (el = head->next; el != head && cnt < dmax + 1; el = el->next, cnt++)
				printf("%s%llu/%llu", cnt ? "," : "", dl_id(el), DN_OF(el)->key);
			printf(" | ");
			cnt = 0;
			for (el = head->prev; el != head && cnt < dmax + 1; el = el->prev, cnt++)
				printf("%s%llu", cnt ? "," : "", dl_id(el));
		}
	} else if (n == 4 && (!strcmp(w[0], "before") || !strcmp(w[0], "after")) && parse_u(w[1], &a) && parse_u(w[2], &b) && parse_u(w[3], &c)) {
		if (!((a == 3 || a == 4) && is_item(b) && dn[b].st == 1 && (c == a || (is_item(c) && dn[c].st == 1 + a)))) { printf("bad-op"); return; }
		if (!strcmp(w[0], "before")) statlist_put_before(&dsl[a], &dn[b].l, dl_ptr(c));
		else statlist_put_after(&dsl[a], &dn[b].l, dl_ptr(c));
		dn[b].st = 1 + a;
		printf("ok"); dl_tail();
	} else if (n == 5 && !strcmp(w[0], "fill") && parse_u(w[1], &a) && parse_u(w[2], &b) && parse_u(w[3], &c) && parse_u(w[4], &d)) {
		ull i;
		int ok = is_head(a) && b <= DL_MAXNODE - 4 && c >= 1 && c <= 1000000;
		for (i = 0; ok && i < b; i++) if (dn[5 + i].st > 1) ok = 0;
		if (!ok) { printf("bad-op"); return; }
		for (i = 0; i < b; i++) {
			unsigned x = 5 + i;
			list_init(&dn[x].l);
			dn[x].key = splitmix_at(d, i) % c;
			if (x > dmax) dmax = x;
			dn[x].st = 1;
			dl_insert(a, x, 0);
		}
		printf("ok"); dl_tail();
	} else
		printf("bad-op");
}

/* ------------------------------------------------------------------- SHList */
#define SH_SLOTS 64
#define SH_ARENA_LEN 8192
static char *sh_arena;      /* exact-size malloc: ASan sees any escape */
static unsigned sh_off;
/* layout of the region: slot k lives at byte offset sh_h + sh_stride * k (the node embedded in
 * records of sh_stride bytes), sh_n slots */
static unsigned sh_h, sh_stride = 16, sh_n = SH_SLOTS;
#define SH_LEN (sh_h + sh_stride * sh_n)
static unsigned char sh_st[SH_SLOTS];

static struct SHList *sh_at(unsigned slot) { return (struct SHList *)(sh_arena + sh_off + sh_h + sh_stride * slot); }
static ull sh_slot(const struct SHList *p) { return (ull)(((const char *)p - (sh_arena + sh_off + sh_h)) / sh_stride); }
/* is p the address of a slot of the region (inside it and on the record grid)? */
static int sh_on_grid(const struct SHList *p)
{
	const char *lo = sh_arena + sh_off + sh_h, *c = (const char *)p;
	return c >= lo && c < sh_arena + sh_off + SH_LEN && (size_t)(c - lo) % sh_stride == 0;
}
static void sh_setup(unsigned h, unsigned stride, unsigned n)
{
	free(sh_arena);
	sh_arena = malloc(SH_ARENA_LEN);
	memset(sh_arena, 0xA5, SH_ARENA_LEN);
	sh_off = 0; sh_h = h; sh_stride = stride; sh_n = n;
	memset(sh_arena, 0, SH_LEN);
	memset(sh_st, 0, sizeof(sh_st));
	shlist_init(sh_at(0));
	shlist_init(sh_at(1));
}
static void sh_reset(void) { sh_setup(0, 16, SH_SLOTS); }
static void sh_head(unsigned h)
{
	struct SHList *head = sh_at(h), *el;
	uint64_t fh = HC_FNV_INIT, bh = HC_FNV_INIT;
	unsigned fl = 0, bl = 0;
	for (el = shlist_get_next(head); el != head && fl < SH_SLOTS + 1; el = shlist_get_next(el)) {
		if (!sh_on_grid(el)) { fh = hc_fnv(fh, 999999); fl++; break; }
		fh = hc_fnv(fh, sh_slot(el)); fl++;
	}
	for (el = shlist_get_prev(head); el != head && bl < SH_SLOTS + 1; el = shlist_get_prev(el)) {
		if (!sh_on_grid(el)) { bh = hc_fnv(bh, 999999); bl++; break; }
		bh = hc_fnv(bh, sh_slot(el)); bl++;
	}
	printf(" H%u=%u:%" PRIx64 ":%u:%" PRIx64, h, fl, fh, bl, bh);
}
static void sh_tail(void)
{
	uint64_t ih = HC_FNV_INIT;
	unsigned i;
	sh_head(0); sh_head(1);
	for (i = 0; i < sh_n; i++)
		ih = fnvi(fnvi(ih, sh_at(i)->next), sh_at(i)->prev);
	printf(" ## r=%" PRIx64, ih);
}
/* element views for the typed helper: link member at offset 24 / at offset 0 */
struct SHE24 { long pad[3]; struct SHList node; };
struct SHE0 { struct SHList node; };
static void sh_put(const struct SHList *p)
{
	if (!p) printf("null");
	else if (!sh_on_grid(p)) printf("garbage");
	else printf("%llu", sh_slot(p));
}
static void sh_step(char **w, int n)
{
	ull a, b, c;
	if (n == 4 && !strcmp(w[0], "layout") && parse_u(w[1], &a) && parse_u(w[2], &b) && parse_u(w[3], &c)) {
		/* fresh region: slot k at byte offset a + b * k (node embedded in b-byte records) */
		if (!(a % 8 == 0 && a <= 64 && b % 8 == 0 && b >= 16 && b <= 120 && c >= 3 && c <= 64)) { printf("bad-op"); return; }
		sh_setup((unsigned)a, (unsigned)b, (unsigned)c);
		printf("ok"); sh_tail();
	} else if (n == 3 && !strcmp(w[0], "popt") && parse_u(w[1], &a) && parse_u(w[2], &b)) {
		/* shlist_pop_type over an element type with the link at offset b ? 24 : 0; NULL on empty */
		struct SHList *el;
		if (!(a <= 1 && b <= 1)) { printf("bad-op"); return; }
		if (b) {
			struct SHE24 *e = shlist_pop_type(sh_at(a), struct SHE24, node);
			if (!e) { printf("null"); sh_tail(); return; }
			el = (struct SHList *)((char *)e + offsetof(struct SHE24, node));
		} else {
			struct SHE0 *e = shlist_pop_type(sh_at(a), struct SHE0, node);
			if (!e) { printf("null"); sh_tail(); return; }
			el = &e->node;
		}
		if (sh_on_grid(el)) sh_st[sh_slot(el)] = 1;
		sh_put(el); sh_tail();
	} else if (n == 2 && !strcmp(w[0], "node") && parse_u(w[1], &a)) {
		if (!(a >= 2 && a < sh_n && sh_st[a] <= 1)) { printf("bad-op"); return; }
		shlist_init(sh_at(a)); sh_st[a] = 1;
		printf("ok"); sh_tail();
	} else if (n == 3 && (!strcmp(w[0], "app") || !strcmp(w[0], "pre")) && parse_u(w[1], &a) && parse_u(w[2], &b)) {
		if (!(a <= 1 && b >= 2 && b < sh_n && sh_st[b] == 1)) { printf("bad-op"); return; }
		if (!strcmp(w[0], "app")) shlist_append(sh_at(a), sh_at(b)); else shlist_prepend(sh_at(a), sh_at(b));
		sh_st[b] = 2 + a;
		printf("ok"); sh_tail();
	} else if (n == 2 && !strcmp(w[0], "rm") && parse_u(w[1], &a)) {
		if (!(a >= 2 && a < sh_n && sh_st[a] >= 1)) { printf("bad-op"); return; }
		shlist_remove(sh_at(a)); sh_st[a] = 1;
		printf("ok"); sh_tail();
	} else if (n == 2 && !strcmp(w[0], "move") && parse_u(w[1], &a)) {
		char *tmp;
		if (!(a % 8 == 0 && a + SH_LEN <= SH_ARENA_LEN)) { printf("bad-op"); return; }
		/* memmove the whole region, then poison everything outside the new place */
		tmp = malloc(SH_LEN);
		memmove(sh_arena + a, sh_arena + sh_off, SH_LEN);
		memcpy(tmp, sh_arena + a, SH_LEN);
		memset(sh_arena, 0xA5, SH_ARENA_LEN);
		memcpy(sh_arena + a, tmp, SH_LEN);
		free(tmp);
		sh_off = (unsigned)a;
		printf("ok"); sh_tail();
	} else if (n == 3 && !strcmp(w[0], "popt") && parse_u(w[1], &a) && parse_u(w[2], &b)) {
		/* list_pop_type over an element type with the link at offset b ? 24 : 0; NULL on empty */
		if (!((a == 1 || a == 2) && b <= 1)) { printf("bad-op"); return; }
		if (b) {
			struct DN *e = list_pop_type(&dn[a].l, struct DN, l);
			if (!e) printf("null");
			else if (e < dn + 5 || e > dn + dmax) printf("garbage");
			else { e->st = 1; printf("%llu", (ull)(e - dn)); }
		} else {
			struct DN0 *e = list_pop_type(&dn[a].l, struct DN0, node);
			if (!e) printf("null");
			else { DN_OF(&e->node)->st = 1; printf("%llu", dl_id(&e->node)); }
		}
		dl_tail();
	} else if (n == 2 && parse_u(w[1], &a) && (!strcmp(w[0], "pop") || !strcmp(w[0], "first") || !strcmp(w[0], "last")
			|| !strcmp(w[0], "empty") || !strcmp(w[0], "dump"))) {
		struct SHList *head, *el;
		if (a > 1) { printf("bad-op"); return; }
		head = sh_at(a);
		if (!strcmp(w[0], "pop")) {
			el = shlist_pop(head);
			if (el && sh_on_grid(el)) sh_st[sh_slot(el)] = 1;
			sh_put(el); sh_tail();
		} else if (!strcmp(w[0], "first")) { sh_put(shlist_first(head)); sh_tail(); }
		else if (!strcmp(w[0], "last")) { sh_put(shlist_last(head)); sh_tail(); }
		else if (!strcmp(w[0], "empty")) { printf("%d", (int)shlist_empty(head)); sh_tail(); }
		else {
			unsigned cnt = 0;
			printf("dump ");
			shlist_for_each(el, head) {
				if (!sh_on_grid(el)) { printf("%sgarbage", cnt ? "," : ""); break; }
				printf("%s%llu", cnt ? "," : "", sh_slot(el));
				if (++cnt > SH_SLOTS) break;
			}
			printf(" | ");
			cnt = 0;
			for (el = shlist_get_prev(head); el != head && cnt <= SH_SLOTS; el = shlist_get_prev(el), cnt++) {
				if (!sh_on_grid(el)) { printf("%sgarbage", cnt ? "," : ""); break; }
				printf("%s%llu", cnt ? "," : "", sh_slot(el));
			}
		}
	} else
		printf("bad-op");
}

/* a probe loop on a full table / a walk on a broken ring never ends: bound the CPU time of the
 * whole process (a normal batch needs well under a second); dying by SIGPROF is a result */
static void cpu_limit(void)
{
	struct itimerval it;
	const char *e = getenv("C15_CPU_LIMIT");
	memset(&it, 0, sizeof(it));
	it.it_value.tv_sec = e ? atoi(e) : 4;
	signal(SIGPROF, SIG_DFL);
	setitimer(ITIMER_PROF, &it, NULL);
}

int main(void)
{
	char *line, *w[8];
	int n;
	cpu_limit();
	ht_reset(); hp_reset(); dl_reset(); sh_reset();
	while ((line = hc_line()) != NULL) {
		if (!strcmp(line, "#case")) {
			ht_reset(); hp_reset(); dl_reset(); sh_reset();
			printf("#case\n");
			continue;
		}
		n = hc_words(line, w, 8);
		if (n >= 1 && !strcmp(w[0], "ht")) ht_step(w + 1, n - 1);
		else if (n >= 1 && !strcmp(w[0], "hp")) hp_step(w + 1, n - 1);
		else if (n >= 1 && !strcmp(w[0], "dl")) dl_step(w + 1, n - 1);
		else if (n >= 1 && !strcmp(w[0], "sh")) sh_step(w + 1, n - 1);
		else printf("bad-op");
		printf("\n");
	}
	fflush(stdout);
	return 0;
}
