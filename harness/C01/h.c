/* C01 / C19 harness: drives the real usual/talloc.c (compiled from the working tree by
 * #include, so that the static header layout and the TLimit chunk can be read for the internal
 * projection) with a tracking allocator installed both as USUAL_ALLOC and as an explicit CxMem,
 * and prints, after EVERY op, what the model driver (lean/Driver/C01.lean) prints. */
#include <stdio.h>
#include <stdlib.h>
#include <string.h>
#include <signal.h>
#include <unistd.h>
#include <sys/wait.h>
struct CxMem;
extern const struct CxMem hx_def;
#define USUAL_ALLOC (&hx_def)
#include "usual/cxalloc.c"
#include "usual/talloc.c"
#include "hcommon.h"
#include "trkcx.h"

/* watchdog: a history that does not finish (a cycle built by a broken library makes talloc loop for
 * ever) is a result, not a reason to wait */
#define CASE_SECONDS 20
static void on_alarm(int sig)
{
	static const char msg[] = "HANG\n";
	fflush(stdout);
	if (write(1, msg, sizeof(msg) - 1) < 0) _exit(4);
	_exit(3);
}

/* ------------------------------------------------------------------ tracking allocator */
#define MAXREG 4096
struct Reg { void *p; size_t len; int cx; };
static struct Reg regs[MAXREG];
static int nregs;
static int cx_mismatch;
static char evlog[8192];		/* destructor / release sequence of the current op */
static size_t evlen;

#define MAXSLOT 256
struct Slot {
	void *ptr; int used, alive; int dkind; long refuse; size_t size; unsigned char pat;
};
enum { D_NONE, D_ACCEPT, D_REFUSE, D_REENTER };
static struct Slot slots[MAXSLOT];
static int oks[1024], nos[1024], n_ok, n_no;
static int reenter_bad;

static void ev(const char *fmt, int n)
{
	if (evlen + 16 < sizeof(evlog))
		evlen += snprintf(evlog + evlen, sizeof(evlog) - evlen, fmt, n);
}

static int reg_find(void *p)
{
	int i;
	for (i = 0; i < nregs; i++) if (regs[i].p == p) return i;
	return -1;
}

/* like trk_alloc/trk_free/trk_realloc of trkcx.h (same failure injection counters) but
 * poisons at most POISON bytes, so that TALLOC_MAXLEN-sized requests stay cheap */
#define POISON 8192
static void *raw_alloc(size_t len)
{
	struct TrkHdr *h;
	if (trk_should_fail()) return NULL;
	h = malloc(sizeof(*h) + len);
	if (!h) return NULL;
	h->len = len; h->magic = TRK_MAGIC;
	trk_live++; trk_live_bytes += len;
	return h + 1;
}

static void raw_free(void *ptr)
{
	struct TrkHdr *h = (struct TrkHdr *)ptr - 1;
	if (h->magic != TRK_MAGIC) { printf("harness: bad region magic\n"); fflush(stdout); abort(); }
	h->magic = 0;
	trk_live--; trk_live_bytes -= h->len;
	memset(ptr, 0xDD, h->len < POISON ? h->len : POISON);
	free(h);
}

static void *raw_realloc(void *ptr, size_t len)
{
	struct TrkHdr *h = (struct TrkHdr *)ptr - 1, *n;
	size_t keep;
	if (trk_should_fail()) return NULL;
	if (h->magic != TRK_MAGIC) { printf("harness: bad region magic\n"); fflush(stdout); abort(); }
	/* always move, so stale pointers are caught by ASan */
	n = malloc(sizeof(*n) + len);
	if (!n) return NULL;
	n->len = len; n->magic = TRK_MAGIC;
	keep = len < h->len ? len : h->len;
	memcpy(n + 1, ptr, keep < 2 * POISON ? keep : 2 * POISON);
	trk_live_bytes += (long)len - (long)h->len;
	h->magic = 0;
	memset(ptr, 0xDD, h->len < POISON ? h->len : POISON);
	free(h);
	return n + 1;
}

static void *hx_alloc(void *ctx, size_t len)
{
	void *p = raw_alloc(len);
	if (p) {
		if (nregs >= MAXREG) { printf("harness: region table full\n"); exit(2); }
		regs[nregs].p = p; regs[nregs].len = len; regs[nregs].cx = (int)(intptr_t)ctx; nregs++;
	}
	return p;
}

static void hx_free(void *ctx, void *p)
{
	int i = reg_find(p), s;
	if (i < 0) { printf("harness: free of unknown region\n"); fflush(stdout); abort(); }
	if (regs[i].cx != (int)(intptr_t)ctx) cx_mismatch++;
	regs[i] = regs[--nregs];
	for (s = 0; s < MAXSLOT; s++)
		if (slots[s].alive && (char *)slots[s].ptr - THSIZE == (char *)p) {
			slots[s].alive = 0;
			ev("f%d", s);
		}
	raw_free(p);
}

static void *hx_realloc(void *ctx, void *p, size_t len)
{
	int i = reg_find(p);
	void *n;
	if (i < 0) { printf("harness: realloc of unknown region\n"); fflush(stdout); abort(); }
	if (regs[i].cx != (int)(intptr_t)ctx) cx_mismatch++;
	n = raw_realloc(p, len);
	if (n) { regs[i].p = n; regs[i].len = len; }
	return n;
}

static const struct CxOps hx_ops = { hx_alloc, hx_realloc, hx_free, NULL };
const struct CxMem hx_def = { &hx_ops, (void *)0 };
static const struct CxMem hx_exp = { &hx_ops, (void *)1 };

/* ------------------------------------------------------------------------- destructor */
static int slot_of(const void *p)
{
	int s;
	for (s = 0; s < MAXSLOT; s++) if (slots[s].alive && slots[s].ptr == p) return s;
	return -1;
}

static int h_dtor(void *p)
{
	int s = slot_of(p);
	if (s < 0) { printf("harness: destructor on unknown pointer\n"); fflush(stdout); abort(); }
	if (slots[s].dkind == D_REFUSE && slots[s].refuse > 0) {
		slots[s].refuse--;
		ev("-%d", s);
		if (n_no < 1024) nos[n_no++] = s;
		return -1;
	}
	if (slots[s].dkind == D_REENTER) {
		if (talloc_free(p) != 0) reenter_bad++;
	}
	ev("+%d", s);
	if (n_ok < 1024) oks[n_ok++] = s;
	return 0;
}

/* ----------------------------------------------------------------------------- dumping */
/* per-object fill pattern over the first CHECKLEN bytes ("contents intact") */
#define CHECKLEN 4096
static void fill(struct Slot *sl, size_t from, size_t to)
{
	unsigned char *b = sl->ptr;
	size_t i;
	for (i = from; i < to && i < CHECKLEN; i++) b[i] = sl->pat;
}

static int intact(struct Slot *sl)
{
	unsigned char *b = sl->ptr;
	size_t i;
	for (i = 0; i < sl->size && i < CHECKLEN; i++) if (b[i] != sl->pat) return 0;
	return 1;
}

static void name_of(const void *p, char *out)
{
	int s;
	if (!p) { strcpy(out, "-"); return; }
	if (p == null_context) { strcpy(out, "N"); return; }
	s = slot_of(p);
	if (s < 0) strcpy(out, "?"); else sprintf(out, "%d", s);
}

static int cmp_int(const void *a, const void *b) { return *(const int *)a - *(const int *)b; }

static void put_sorted(const char *key, int *v, int n)
{
	int i;
	qsort(v, n, sizeof(int), cmp_int);
	printf("%s=", key);
	if (n == 0) printf("-");
	for (i = 0; i < n; i++) printf("%s%d", i ? "," : "", v[i]);
}

static void obj_entry(const char *nm, const void *p)
{
	char par[16];
	int q, first = 1;
	name_of(talloc_parent(p), par);
	printf("%s:%s:%zu:%zu:%zu:%zu:", nm, par, talloc_reference_count(p), talloc_get_size(p),
	       talloc_total_size(p), talloc_total_blocks(p));
	for (q = 0; q < MAXSLOT; q++)
		if (slots[q].alive && talloc_is_parent(slots[q].ptr, p)) {
			printf("%s%d", first ? "" : ".", q);
			first = 0;
		}
	if (first) printf("-");
}

struct ChildCb { const void *self; int first; };
static void child_cb(const void *ptr, int depth, int max_depth, int is_ref, void *arg)
{
	struct ChildCb *st = arg;
	char nm[16];
	if (depth == 0) return;
	if (!st->first) printf(".");
	st->first = 0;
	if (is_ref) { name_of(ptr, nm); printf(">%s", nm); return; }
	if (talloc_get_name(ptr) == MEMLIMIT_NAME) { printf("L"); return; }
	name_of(ptr, nm);
	printf("%s", nm);
}

static void int_entry(const char *nm, const void *p)
{
	struct ChildCb st = { p, 1 };
	struct THeader *t = ptr2hdr(p), *c;
	struct List *el;
	printf("%s[", nm);
	talloc_report_depth_cb(p, 0, 1, child_cb, &st);
	printf("]%s%s", has_flags(t, FLAG_USE_MEMLIMIT) ? "U" : "", has_flags(t, FLAG_HAS_MEMLIMIT) ? "H" : "");
	list_for_each(el, &t->child_list) {
		c = container_of(el, struct THeader, node);
		if (c->name == MEMLIMIT_NAME) {
			struct TLimit *lim = hdr2ptr(c);
			printf("(%zd/%zd)", lim->cur_size, lim->max_size);
			break;
		}
	}
}

static void dump(long rc)
{
	int s, i, b0 = 0, b1 = 0, first = 1;
	char nm[16];
	printf("rc=%ld ", rc);
	put_sorted("ok", oks, n_ok);
	printf(" ");
	put_sorted("no", nos, n_no);
	printf(" | ");
	if (null_context) { obj_entry("N", null_context); first = 0; }
	for (s = 0; s < MAXSLOT; s++) if (slots[s].alive) {
		sprintf(nm, "%d", s);
		if (!first) printf(" ");
		first = 0;
		obj_entry(nm, slots[s].ptr);
	}
	for (i = 0; i < nregs; i++) if (regs[i].cx) b1++; else b0++;
	printf(" | bal=%d,%d", b0, b1);
	for (s = 0; s < MAXSLOT; s++) if (slots[s].alive && !intact(&slots[s])) printf(" CORRUPT%d", s);
	if (cx_mismatch) printf(" CXMISMATCH%d", cx_mismatch);
	if (reenter_bad) printf(" REENTER-BAD%d", reenter_bad);
	printf(" ## ord=%s ", evlog);
	first = 1;
	if (null_context) { int_entry("N", null_context); first = 0; }
	for (s = 0; s < MAXSLOT; s++) if (slots[s].alive) {
		sprintf(nm, "%d", s);
		if (!first) printf(" ");
		first = 0;
		int_entry(nm, slots[s].ptr);
	}
	printf(" inv=1111 oof=00\n");
}

/* -------------------------------------------------------------------------------- ops */
static void reset_case(void)
{
	while (nregs > 0) { nregs--; raw_free(regs[nregs].p); }
	memset(slots, 0, sizeof(slots));
	null_context = NULL;
	autofree_ctx = NULL;
	cx_mismatch = 0; reenter_bad = 0;
	trk_reset();
}

/* word -> pointer: "-" NULL; live slot -> ptr. returns 0 when dead / garbage */
static int opt_ptr(const char *w, void **out)
{
	char *e;
	long n;
	if (strcmp(w, "-") == 0) { *out = NULL; return 1; }
	n = strtol(w, &e, 10);
	if (*e || e == w || n < 0) return -1;
	if (n >= MAXSLOT || !slots[n].alive) return 0;
	*out = slots[n].ptr;
	return 1;
}

static int get_slot(const char *w, int *out)
{
	char *e;
	long n = strtol(w, &e, 10);
	if (*e || e == w || n < 0) return -1;
	if (n >= MAXSLOT || !slots[n].alive) return 0;
	*out = n;
	return 1;
}

static int get_num(const char *w, size_t *out)
{
	char *e;
	unsigned long long n;
	if (!*w || *w == '-') return 0;
	n = strtoull(w, &e, 10);
	if (*e) return 0;
	*out = n;
	return 1;
}

/* optional trailing "F": fail the next allocator request.  returns -1 on garbage */
static int fail_flag(char **w, int n, int from)
{
	if (n == from) return 0;
	if (n == from + 1 && strcmp(w[from], "F") == 0) return 1;
	return -1;
}

static void arm(int fl) { trk_fail_at = fl ? trk_requests + 1 : 0; }

#define BAD do { printf("bad-op\n"); return; } while (0)
#define DEAD do { printf("dead\n"); return; } while (0)

#define PROBE_HI ((size_t)1 << 17)
/* largest n <= PROBE_HI for which talloc_size(ctx, n) succeeds now; (size_t)-1 when none */
static size_t probe(void *ctx)
{
	size_t lo = 0, hi = PROBE_HI;
	void *p = talloc_size(ctx, 0);
	if (!p) return (size_t)-1;
	talloc_free(p);
	p = talloc_size(ctx, hi);
	if (p) { talloc_free(p); return hi; }
	hi--;
	while (lo < hi) {
		size_t mid = (lo + hi + 1) / 2;
		p = talloc_size(ctx, mid);
		if (p) { talloc_free(p); lo = mid; } else hi = mid - 1;
	}
	return lo;
}

static void do_line(char *line)
{
	char *w[12];
	int n = hc_words(line, w, 12), fl, s, r, r2, r3;
	void *p, *par, *a, *b;
	size_t sz, mx;

	evlen = 0; evlog[0] = 0; n_ok = n_no = 0;
	if (n == 0) BAD;
	if (strcmp(w[0], "#case") == 0 && n == 1) {
		reset_case(); printf("#case\n"); fflush(stdout);
		alarm(CASE_SECONDS);
		return;
	}
	if (strcmp(w[0], "alloc") == 0 && n >= 5) {
		char *e; long sl = strtol(w[1], &e, 10); size_t cx;
		if (*e || e == w[1] || sl < 0 || sl >= MAXSLOT) BAD;
		r = opt_ptr(w[2], &par);
		fl = fail_flag(w, n, 5);
		if (r < 0 || !get_num(w[3], &sz) || !get_num(w[4], &cx) || fl < 0) BAD;
		if (r == 0) DEAD;
		if (slots[sl].used) BAD;
		arm(fl);
		if (par) p = talloc_named_const(par, sz, "o");
		else if (cx == 1) p = talloc_from_cx(&hx_exp, sz, "o");
		else p = talloc_named_const(NULL, sz, "o");
		arm(0);
		if (p) {
			struct Slot *x = &slots[sl];
			x->ptr = p; x->used = x->alive = 1; x->dkind = D_NONE; x->refuse = 0; x->size = sz;
			x->pat = (unsigned char)(0xA0 + sl);
			fill(x, 0, sz);
		}
		dump(p ? 0 : -1);
		return;
	}
	if (strcmp(w[0], "free") == 0 && n == 2) {
		r = get_slot(w[1], &s);
		if (r < 0) BAD; if (!r) DEAD;
		dump(talloc_free(slots[s].ptr));
		return;
	}
	if (strcmp(w[0], "fchildren") == 0 && n == 2) {
		r = get_slot(w[1], &s);
		if (r < 0) BAD; if (!r) DEAD;
		talloc_free_children(slots[s].ptr);
		dump(0);
		return;
	}
	if (strcmp(w[0], "ref") == 0 && n >= 3) {
		r = opt_ptr(w[1], &a); r2 = get_slot(w[2], &s); fl = fail_flag(w, n, 3);
		if (r2 < 0 || fl < 0) BAD;
		if (r < 0) DEAD;	/* model: garbage context word counts as dead */
		if (!r || !r2) DEAD;
		arm(fl);
		p = talloc_reference(a, slots[s].ptr);
		arm(0);
		if (p && p != slots[s].ptr) { printf("REFERENCE-RETURNED-OTHER\n"); return; }
		dump(p ? 0 : -1);
		return;
	}
	if (strcmp(w[0], "unlink") == 0 && n == 3) {
		r = opt_ptr(w[1], &a); r2 = get_slot(w[2], &s);
		if (r2 < 0) BAD;
		if (r <= 0 || !r2) DEAD;
		dump(talloc_unlink(a, slots[s].ptr));
		return;
	}
	if (strcmp(w[0], "steal") == 0 && n == 3) {
		r = opt_ptr(w[1], &a); r2 = get_slot(w[2], &s);
		if (r2 < 0) BAD;
		if (r <= 0 || !r2) DEAD;
		p = talloc_steal(a, slots[s].ptr);
		if (p && p != slots[s].ptr) { printf("STEAL-RETURNED-OTHER\n"); return; }
		dump(p ? 0 : -1);
		return;
	}
	if (strcmp(w[0], "move") == 0 && n == 3) {
		/* talloc_move(new_parent, &var): the caller's variable must be cleared iff the move worked */
		void *var;
		r = opt_ptr(w[1], &a); r2 = get_slot(w[2], &s);
		if (r2 < 0) BAD;
		if (r <= 0 || !r2) DEAD;
		var = slots[s].ptr;
		p = talloc_move(a, &var);
		if (p && p != slots[s].ptr) { printf("MOVE-RETURNED-OTHER\n"); return; }
		if (var && var != slots[s].ptr) { printf("MOVE-VARIABLE-GARBLED\n"); return; }
		printf("mv=%s,%s ", p ? "ptr" : "null", var ? "ptr" : "null");
		dump(p ? 0 : -1);
		return;
	}
	if (strcmp(w[0], "reparent") == 0 && n == 4) {
		r = opt_ptr(w[1], &a); r2 = opt_ptr(w[2], &b); r3 = get_slot(w[3], &s);
		if (r3 < 0) BAD;
		if (r <= 0 || r2 <= 0 || !r3) DEAD;
		p = talloc_reparent(a, b, slots[s].ptr);
		if (p && p != slots[s].ptr) { printf("REPARENT-RETURNED-OTHER\n"); return; }
		dump(p ? 0 : -1);
		return;
	}
	if (strcmp(w[0], "realloc") == 0 && n >= 4) {
		r = opt_ptr(w[1], &par); r2 = get_slot(w[2], &s); fl = fail_flag(w, n, 4);
		if (r2 < 0 || !get_num(w[3], &sz) || fl < 0) BAD;
		if (r <= 0 || !r2) DEAD;
		arm(fl);
		p = talloc_realloc_size(par, slots[s].ptr, sz);
		arm(0);
		if (sz == 0) {
			dump(p ? 0 : 1);
			return;
		}
		if (p) {
			size_t old = slots[s].size;
			slots[s].ptr = p;
			slots[s].size = sz;
			if (sz > old)
				fill(&slots[s], old, sz);
		}
		dump(p ? 0 : -1);
		return;
	}
	if (strcmp(w[0], "dtor") == 0 && n >= 3) {
		r = get_slot(w[1], &s);
		if (r < 0) BAD;
		if (strcmp(w[2], "none") == 0 && n == 3) {
			if (!r) DEAD;
			slots[s].dkind = D_NONE;
			talloc_set_destructor(slots[s].ptr, NULL);
		} else if (strcmp(w[2], "accept") == 0 && n == 3) {
			if (!r) DEAD;
			slots[s].dkind = D_ACCEPT;
			talloc_set_destructor(slots[s].ptr, h_dtor);
		} else if (strcmp(w[2], "reenter") == 0 && n == 3) {
			if (!r) DEAD;
			slots[s].dkind = D_REENTER;
			talloc_set_destructor(slots[s].ptr, h_dtor);
		} else if (strcmp(w[2], "refuse") == 0 && n == 4) {
			if (!get_num(w[3], &mx)) BAD;
			if (!r) DEAD;
			slots[s].dkind = D_REFUSE; slots[s].refuse = mx;
			talloc_set_destructor(slots[s].ptr, h_dtor);
		} else BAD;
		dump(0);
		return;
	}
	if (strcmp(w[0], "limit") == 0 && n >= 3) {
		r = get_slot(w[1], &s); fl = fail_flag(w, n, 3);
		if (r < 0 || !get_num(w[2], &mx) || fl < 0) BAD;
		if (!r) DEAD;
		arm(fl);
		r = talloc_set_memlimit(slots[s].ptr, mx);
		arm(0);
		dump(r);
		return;
	}
	if (strcmp(w[0], "autofree") == 0 && n == 2) {
		/* talloc_autofree_context(): the live context again, or a FRESH one after it was freed */
		char *e; long sl = strtol(w[1], &e, 10);
		if (*e || e == w[1] || sl < 0 || sl >= MAXSLOT) BAD;
		p = talloc_autofree_context();
		if (!p) { dump(-1); return; }
		if (reg_find((char *)p - THSIZE) < 0) { printf("AUTOFREE-STALE-POINTER\n"); return; }
		s = slot_of(p);
		if (s >= 0) {
			printf("af=same:%d ", s);
		} else {
			struct Slot *x = &slots[sl];
			if (x->used) BAD;
			x->ptr = p; x->used = x->alive = 1; x->dkind = D_NONE; x->refuse = 0; x->size = 0;
			x->pat = (unsigned char)(0xA0 + sl);
			printf("af=new ");
		}
		dump(0);
		return;
	}
	if (strcmp(w[0], "exit") == 0 && n == 1) {
		/* process exit in a forked child: the atexit handler releases the autofree context once */
		pid_t pid; int st = 0;
		fflush(stdout);
		pid = fork();
		if (pid == 0) {
			if (!freopen("/dev/null", "w", stdout) || !freopen("/dev/null", "w", stderr)) _exit(99);
			exit(0);
		}
		if (pid < 0 || waitpid(pid, &st, 0) < 0) { printf("exit=fork-failed\n"); return; }
		printf("exit=%d,%d\n", WIFEXITED(st) ? WEXITSTATUS(st) : -1, WIFSIGNALED(st) ? WTERMSIG(st) : 0);
		return;
	}
	if (strcmp(w[0], "nullon") == 0) {
		fl = fail_flag(w, n, 1);
		if (fl < 0) BAD;
		arm(fl);
		talloc_enable_null_tracking_no_autofree();
		arm(0);
		dump(0);
		return;
	}
	if (strcmp(w[0], "nulloff") == 0 && n == 1) {
		talloc_disable_null_tracking();
		dump(0);
		return;
	}
	if (strcmp(w[0], "probe") == 0 && n == 2) {
		r = opt_ptr(w[1], &a);
		if (r <= 0) DEAD;
		sz = probe(a);
		if (sz == (size_t)-1) printf("adm=none\n");
		else if (sz >= PROBE_HI) printf("adm=inf\n");
		else printf("adm=%zu\n", sz);
		return;
	}
	BAD;
}

static void on_abort(const char *reason)
{
	printf("ABORT %s\n", reason);
	fflush(stdout);
}

int main(void)
{
	char *line;
	static char obuf[1 << 16];
	setvbuf(stdout, obuf, _IOFBF, sizeof(obuf));
	talloc_set_log_fn(NULL);
	talloc_set_abort_fn(on_abort);
	signal(SIGALRM, on_alarm);
	while ((line = hc_line()) != NULL) {
		do_line(line);
	}
	fflush(stdout);
	return 0;
}
