/*
 * C20 harness: runs the forced-compat getaddrinfo_a of usual/netdb.c (built against a derived
 * config.h without HAVE_GETADDRINFO_A and with HAVE_PTHREAD) under perturbed schedules and
 * prints an EVENT TRACE per scenario, which the Lean driver drv_c20 validates against the
 * model (lean/Usual/C20).
 *
 * Linked with -Wl,--wrap= on pthread_mutex_lock/unlock, pthread_cond_wait/signal,
 * pthread_create, pthread_kill, getaddrinfo, malloc, free: the wrappers log what the code in
 * netdb.c does (thread, action, item ids) and inject randomised yields/delays before and after
 * every such call.
 *
 * stdin : one scenario per line
 *           scn <seed> <pert 0..3> <batch> <batch> ...
 *           batch = <t 1..4><W|N><n|0|S|T><0|1>:<hex digits, one host index per item>[+<n|0|T><hex digits>]
 *                   (thread, GAI_WAIT/GAI_NOWAIT, sevp NULL / SIGEV_NONE / SIGNAL / THREAD;
 *                    B = SIGEV_SIGNAL consumed synchronously: the signal is BLOCKED in the
 *                    submitting thread and collected with sigtimedwait,
 *                    wait for completion before the thread's next call;
 *                    "~k" after the hosts: initialisation of the caller's struct gaicb outside the
 *                    API fields ar_name/ar_service/ar_request: g = harness default (stale marker),
 *                    z = zeroed, f = 0xff bytes, a = 0xa5 bytes, c = value copy of an in-flight
 *                    request (_state == EAI_INPROGRESS), d = value copy of a completed request,
 *                    e = the very objects of an earlier, completed batch of the thread resubmitted;
 *                    "+…" (GAI_NOWAIT + SIGEV_THREAD only): the callback itself submits a
 *                    follow-up GAI_NOWAIT batch — chained look-ups, the thread running the
 *                    callback is a submitting thread like any other; logged as thread 5)
 * stdout: "trace <the scenario line>", event lines, "end"   (or "crash ..." before "end")
 * Every scenario runs in a forked child (the context of netdb.c is a process-wide static, so
 * lazy creation is exercised every time; a crash or hang is a result, not the end of the run).
 */
#define _GNU_SOURCE
#include <usual/netdb.h>
#include <usual/socket.h>

#include <pthread.h>
#include <semaphore.h>
#include <signal.h>
#include <stdio.h>
#include <string.h>
#include <stdlib.h>
#include <stdint.h>
#include <unistd.h>
#include <errno.h>
#include <time.h>
#include <sched.h>
#include <sys/wait.h>
#include <arpa/inet.h>

#ifndef HAVE_PTHREAD
#error "C20 harness must be built against the derived config.h (HAVE_PTHREAD)"
#endif
#ifdef HAVE_GETADDRINFO_A
#error "C20 harness must be built against the derived config.h (no HAVE_GETADDRINFO_A)"
#endif

#define LD(x) __atomic_load_n(&(x), __ATOMIC_SEQ_CST)
#define ST(x, v) __atomic_store_n(&(x), (v), __ATOMIC_SEQ_CST)

#ifdef C20_TSAN
#define NOTSAN __attribute__((no_sanitize("thread"), noinline))
#else
#define NOTSAN __attribute__((noinline))
#endif

int __real_pthread_mutex_lock(pthread_mutex_t *m);
int __real_pthread_mutex_unlock(pthread_mutex_t *m);
int __real_pthread_cond_wait(pthread_cond_t *c, pthread_mutex_t *m);
int __real_pthread_cond_signal(pthread_cond_t *c);
int __real_pthread_create(pthread_t *t, const pthread_attr_t *a, void *(*fn)(void *), void *arg);
int __real_pthread_kill(pthread_t t, int sig);
int __real_getaddrinfo(const char *node, const char *service, const struct addrinfo *hints, struct addrinfo **res);
void *__real_malloc(size_t n);
void __real_free(void *p);

/* ------------------------------------------------------------------ hosts (numeric only) */
#define NHOST 34
#define NOHINTS (-1)    /* family marker: ar_request = NULL */
struct Host { const char *name; const char *service; int flags; int family; int socktype; int protocol; };
static const struct Host hosts[NHOST] = {
	{ "127.0.0.1", NULL, AI_NUMERICHOST, AF_UNSPEC, SOCK_STREAM, 0 },
	{ "::1", NULL, AI_NUMERICHOST, AF_UNSPEC, SOCK_STREAM, 0 },
	{ "10.1.2.3", "80", AI_NUMERICHOST | AI_NUMERICSERV, AF_UNSPEC, SOCK_STREAM, 0 },
	{ "256.1.1.1", NULL, AI_NUMERICHOST, AF_UNSPEC, SOCK_STREAM, 0 },
	{ "not-an-ip", NULL, AI_NUMERICHOST, AF_UNSPEC, SOCK_STREAM, 0 },
	{ "fe80::1", "53", AI_NUMERICHOST | AI_NUMERICSERV, AF_UNSPEC, SOCK_DGRAM, 0 },
	{ "::ffff:1.2.3.4", NULL, AI_NUMERICHOST, AF_INET6, SOCK_STREAM, 0 },
	{ "1.2.3", NULL, AI_NUMERICHOST, AF_INET, SOCK_STREAM, 0 },
	{ "", NULL, AI_NUMERICHOST, AF_UNSPEC, SOCK_STREAM, 0 },
	{ NULL, "8080", AI_NUMERICHOST | AI_NUMERICSERV | AI_PASSIVE, AF_INET, SOCK_STREAM, 0 },
	{ "::1", NULL, AI_NUMERICHOST, AF_INET, SOCK_STREAM, 0 },
	{ "192.168.0.1", "notaport", AI_NUMERICHOST | AI_NUMERICSERV, AF_UNSPEC, SOCK_STREAM, 0 },
	{ "127.0.0.1", NULL, AI_NUMERICHOST, AF_UNSPEC, 9999, 0 },
	{ "0.0.0.0", "0", AI_NUMERICHOST | AI_NUMERICSERV, AF_UNSPEC, 0, 0 },
	/* 14.. : ai_protocol carries information */
	{ "127.0.0.1", "53", AI_NUMERICHOST | AI_NUMERICSERV, AF_INET, 0, IPPROTO_UDP },
	{ "::1", "80", AI_NUMERICHOST | AI_NUMERICSERV, AF_UNSPEC, 0, IPPROTO_TCP },
	{ "127.0.0.1", NULL, AI_NUMERICHOST, AF_INET, SOCK_RAW, IPPROTO_ICMP },
	{ "::1", NULL, AI_NUMERICHOST, AF_INET6, SOCK_RAW, IPPROTO_ICMPV6 },
	{ "10.0.0.1", "7", AI_NUMERICHOST | AI_NUMERICSERV, AF_INET, SOCK_STREAM, IPPROTO_UDP },   /* contradictory */
	{ "10.0.0.1", "7", AI_NUMERICHOST | AI_NUMERICSERV, AF_INET, SOCK_DGRAM, IPPROTO_TCP },    /* contradictory */
	{ "10.0.0.2", "9", AI_NUMERICHOST | AI_NUMERICSERV, AF_INET, 0, IPPROTO_SCTP },
	{ "10.0.0.2", "9", AI_NUMERICHOST | AI_NUMERICSERV, AF_INET, SOCK_DGRAM, IPPROTO_UDP },
	/* 22.. : service names (local /etc/services), results differ by protocol */
	{ "127.0.0.1", "domain", AI_NUMERICHOST, AF_INET, 0, IPPROTO_UDP },
	{ "127.0.0.1", "domain", AI_NUMERICHOST, AF_INET, 0, 0 },
	{ "::1", "http", AI_NUMERICHOST, AF_INET6, 0, IPPROTO_TCP },
	{ "127.0.0.1", "tftp", AI_NUMERICHOST, AF_INET, 0, 0 },
	{ "127.0.0.1", "tftp", AI_NUMERICHOST, AF_INET, SOCK_STREAM, IPPROTO_TCP },
	{ "127.0.0.1", "no-such-service", AI_NUMERICHOST, AF_INET, 0, IPPROTO_UDP },
	/* 28.. : NULL hints */
	{ "127.0.0.1", "80", 0, NOHINTS, 0, 0 },
	{ "::1", NULL, 0, NOHINTS, 0, 0 },
	{ "10.9.8.7", NULL, 0, NOHINTS, 0, 0 },
	/* 31.. : more flags */
	{ "127.0.0.1", NULL, AI_NUMERICHOST | AI_CANONNAME, AF_INET, SOCK_STREAM, IPPROTO_TCP },
	{ "1.2.3.4", "22", AI_NUMERICHOST | AI_NUMERICSERV | AI_V4MAPPED | AI_ALL, AF_INET6, SOCK_STREAM, 0 },
	{ NULL, "53", AI_NUMERICSERV | AI_PASSIVE, AF_UNSPEC, 0, IPPROTO_UDP },
};
static const char HOSTCH[] = "0123456789abcdefghijklmnopqrstuvwxyz";
static int host_of_char(int c)
{
	const char *p = c ? strchr(HOSTCH, c) : NULL;
	return p && (p - HOSTCH) < NHOST ? (int)(p - HOSTCH) : -1;
}
static struct addrinfo hints_tab[NHOST];
static int oracle_rc[NHOST];
static char oracle_str[NHOST][1024];

/* canonical text of an addrinfo chain */
static void ai_str(const struct addrinfo *ai, char *out, size_t cap)
{
	size_t o = 0;
	out[0] = 0;
	for (; ai && o + 100 < cap; ai = ai->ai_next) {
		char buf[80] = "?";
		int port = 0;
		if (ai->ai_family == AF_INET) {
			struct sockaddr_in *sa = (void *)ai->ai_addr;
			inet_ntop(AF_INET, &sa->sin_addr, buf, sizeof buf);
			port = ntohs(sa->sin_port);
		} else if (ai->ai_family == AF_INET6) {
			struct sockaddr_in6 *sa = (void *)ai->ai_addr;
			inet_ntop(AF_INET6, &sa->sin6_addr, buf, sizeof buf);
			port = ntohs(sa->sin6_port);
		}
		o += snprintf(out + o, cap - o, "%d/%d/%d/%s/%d/%x/%d/%s;", ai->ai_family, ai->ai_socktype, ai->ai_protocol, buf, port,
			      ai->ai_flags, (int)ai->ai_addrlen, ai->ai_canonname ? ai->ai_canonname : "-");
	}
}

/* ------------------------------------------------------------------ scenario */
#define MAXT 6
#define NSUB 4          /* real submitter threads 1..4 */
#define CHAIN_T 5       /* pseudo submitter: the resolver thread calling getaddrinfo_a from a callback */
#define MAXSEQ 400
#define BIDMUL 1000      /* batch id = thread * BIDMUL + sequence number */
#define MAXN 16
#define STALE 7777
#define FENCE_SEQ 999

struct Batch;
static void submit(struct Batch *b);
struct Batch {
	int t, seq, bid, n, mode, sev, waitnow;
	int host[MAXN];
	struct gaicb cb[MAXN];
	struct gaicb *cbp;           /* the request objects in use: cb[], or an earlier batch's (resubmission) */
	struct Batch *aliased_by;    /* a later batch resubmits this batch's request objects */
	int init;                    /* how the caller's struct gaicb is initialised (see prep) */
	int init_state[MAXN];
	struct addrinfo *init_res[MAXN];
	struct gaicb *list[MAXN];
	struct sigevent sevs;
	sem_t sem;
	int signo;
	volatile int done_seen;
	int finals_done;
	struct Batch *chain;       /* follow-up batch submitted by this batch's callback */
};
static struct Batch batches[MAXT][MAXSEQ + 1];   /* [t][MAXSEQ] = the TSan fence batch */
static int nbatch[MAXT];
static int window[MAXT];      /* > 0: streaming, at most that many batches of the thread in flight */
static int nthreads;
static uint64_t scn_seed;
static int pert;
static pthread_t thr[MAXT];
static pthread_barrier_t start_bar;

static struct Batch *bid_batch(int bid)
{
	int t = bid / BIDMUL, q = bid % BIDMUL;
	if (t < 1 || t >= MAXT) return NULL;
	if (q == FENCE_SEQ) return &batches[t][MAXSEQ];
	if (q >= nbatch[t]) return NULL;
	return &batches[t][q];
}

/* ------------------------------------------------------------------ event log (lock-free) */
enum { E_BEGIN, E_LOCK, E_UNLOCK, E_CREATE, E_MALLOC, E_SIGNAL, E_RET, E_GACALL, E_GARET, E_NOTIFY,
       E_KILL, E_SIGRECV, E_FREE, E_CWAIT, E_CWRET, E_POLL, E_FINAL, E_TIMEOUT, E_NOTE, E_MASK };
struct Ev { int ready; int kind, who, a, b, c, d; char snap[MAXN + 2]; };
#define MAXEV 250000
static struct Ev evs[MAXEV];
static int nev;
static int overflow_;
#define overflow LD(overflow_)

static __thread int my_idx;       /* 0 = not a harness thread, 1..4 submitter, -1 resolver */
static __thread int in_gaia;      /* inside usual_getaddrinfo_a on this thread */
static __thread int in_cb;        /* inside a harness callback / handler */
static __thread uint64_t prng;

static struct Ev *claim_at(int n0)
{
	if (n0 >= MAXEV) { ST(overflow_, 1); return NULL; }
	if (__sync_bool_compare_and_swap(&nev, n0, n0 + 1))
		return &evs[n0];
	return NULL;
}
static struct Ev *claim(void)
{
	int n0 = __sync_fetch_and_add(&nev, 1);
	if (n0 >= MAXEV) { ST(overflow_, 1); return &evs[MAXEV - 1]; }
	return &evs[n0];
}
static void logev(int kind, int a, int b, int c, int d)
{
	struct Ev *e = claim();
	e->kind = kind; e->who = my_idx; e->a = a; e->b = b; e->c = c; e->d = d; e->snap[0] = 0;
	ST(e->ready, 1);
}

/* racy-by-design read of gai_error (the API is a plain load, as in glibc) */
NOTSAN static int peek_state(struct gaicb *g) { return *(volatile int *)&g->_state; }

NOTSAN static void snap_of(struct Batch *b, char *out)
{
	int k;
	for (k = 0; k < b->n; k++) {
		struct gaicb *g = &b->cbp[k];
		int st = peek_state(g), in = b->init_state[k];
		/* N = still what the caller put there, P = EAI_INPROGRESS, D = getaddrinfo's answer,
		 * U = EAI_INPROGRESS but the caller's initial value was EAI_INPROGRESS too */
		if (st == EAI_INPROGRESS) out[k] = in == EAI_INPROGRESS ? 'U' : 'P';
		else if (st == oracle_rc[b->host[k]])
			out[k] = (st == in && *(struct addrinfo *volatile *)&g->ar_result == b->init_res[k]) ? 'N' : 'D';
		else if (st == in) out[k] = 'N';
		else out[k] = 'X';
	}
	out[b->n] = 0;
}

/* event with a snapshot of the batch's statuses; snapshot and log position are taken
 * atomically with respect to all other logged events (retry when somebody logged meanwhile) */
static void logsnap(int kind, struct Batch *b, int c, int d)
{
	char s[MAXN + 2];
	struct Ev *e = NULL;
	int tries;
	for (tries = 0; tries < 1000 && !e; tries++) {
		int n0 = LD(nev);
		__sync_synchronize();
		snap_of(b, s);
		__sync_synchronize();
		e = claim_at(n0);
		if (overflow) return;
	}
	if (!e) { e = claim(); strcpy(s, "?"); }
	e->kind = kind; e->who = my_idx; e->a = b->bid; e->b = 0; e->c = c; e->d = d;
	strcpy(e->snap, s);
	ST(e->ready, 1);
}

/* ------------------------------------------------------------------ perturbation */
static uint64_t rnd(void)
{
	uint64_t z = (prng += 0x9E3779B97F4A7C15ULL);
	z = (z ^ (z >> 30)) * 0xBF58476D1CE4E5B9ULL;
	z = (z ^ (z >> 27)) * 0x94D049BB133111EBULL;
	return z ^ (z >> 31);
}
static void perturb(void)
{
	unsigned r;
	if (!pert || in_cb) return;
	r = rnd() % 100;
	if (r < 50) return;
	if (r < 80) { sched_yield(); return; }
	if (r < 95) { usleep(rnd() % (50 * pert)); return; }
	usleep(rnd() % (400 * pert));
}

/* ------------------------------------------------------------------ mutex identities */
static pthread_mutex_t *mtx[4];
static pthread_mutex_t *qmutex_;       /* the one used with cond_wait / by the resolver */
static int mtx_id(pthread_mutex_t *m)
{
	int i;
	for (i = 0; i < 4; i++) {
		if (LD(mtx[i]) == m) return i;
		if (!LD(mtx[i]) && __sync_bool_compare_and_swap(&mtx[i], NULL, m)) return i;
		if (LD(mtx[i]) == m) return i;
	}
	return 9;
}
static const char *mclass(int c)
{
	if (c < 0 || c >= 4) return "X";
	return LD(mtx[c]) == LD(qmutex_) ? "Q" : "I";
}

static int tracing(void) { return my_idx == -1 || (my_idx > 0 && in_gaia); }

int __wrap_pthread_mutex_lock(pthread_mutex_t *m)
{
	int rc;
	if (!tracing() || in_cb) return __real_pthread_mutex_lock(m);
	perturb();
	rc = __real_pthread_mutex_lock(m);
	if (my_idx == -1) ST(qmutex_, m);
	if (my_idx > 0 && in_gaia > 1) {
		struct Batch *b = bid_batch(in_gaia - 2);
		/* status of the batch being submitted, seen by the submitter itself */
		logsnap(E_LOCK, b, mtx_id(m), 0);
	} else
		logev(E_LOCK, 0, 0, mtx_id(m), 0);
	perturb();
	return rc;
}
int __wrap_pthread_mutex_unlock(pthread_mutex_t *m)
{
	int rc;
	if (!tracing() || in_cb) return __real_pthread_mutex_unlock(m);
	perturb();
	logev(E_UNLOCK, 0, 0, mtx_id(m), 0);
	rc = __real_pthread_mutex_unlock(m);
	perturb();
	return rc;
}
int __wrap_pthread_cond_wait(pthread_cond_t *c, pthread_mutex_t *m)
{
	int rc;
	if (!tracing() || in_cb) return __real_pthread_cond_wait(c, m);
	ST(qmutex_, m);
	perturb();
	logev(E_CWAIT, 0, 0, mtx_id(m), 0);
	rc = __real_pthread_cond_wait(c, m);
	logev(E_CWRET, 0, 0, mtx_id(m), 0);
	perturb();
	return rc;
}
int __wrap_pthread_cond_signal(pthread_cond_t *c)
{
	int rc;
	if (!tracing() || in_cb) return __real_pthread_cond_signal(c);
	perturb();
	logev(E_SIGNAL, 0, 0, 0, 0);
	rc = __real_pthread_cond_signal(c);
	perturb();
	return rc;
}

static volatile int sig_bid[MAXT][16];   /* which batch a (thread, signal slot) currently stands for */
struct Tramp { void *(*fn)(void *); void *arg; int idx; };
static void *tramp(void *p)
{
	struct Tramp t = *(struct Tramp *)p;
	__real_free(p);
	my_idx = t.idx;
	prng = scn_seed * 77 + 5;
	return t.fn(t.arg);
}
int __wrap_pthread_create(pthread_t *t, const pthread_attr_t *a, void *(*fn)(void *), void *arg)
{
	struct Tramp *tp;
	if (!tracing() || in_cb) return __real_pthread_create(t, a, fn, arg);
	tp = __real_malloc(sizeof *tp);
	tp->fn = fn; tp->arg = arg;
	if (my_idx == -1) {
		/* the resolver starts a helper (an implementation may run the SIGEV_THREAD callback in
		 * a thread of its own): not traced, its callback is logged as thread "N" */
		tp->idx = -2;
		return __real_pthread_create(t, a, tramp, tp);
	}
	perturb();
	logev(E_CREATE, 0, 0, 0, 0);
	tp->idx = -1;
	return __real_pthread_create(t, a, tramp, tp);
}
int __wrap_pthread_kill(pthread_t t, int sig)
{
	int i, target = 0, rc;
	if (!tracing() || in_cb) return __real_pthread_kill(t, sig);
	for (i = 1; i < MAXT; i++)
		if (i <= nthreads && pthread_equal(thr[i], t)) target = i;
	perturb();
	logev(E_KILL, target, sig - SIGRTMIN,
	      (target > 0 && sig - SIGRTMIN >= 0 && sig - SIGRTMIN < 16) ? sig_bid[target][sig - SIGRTMIN] : 0, 0);
	rc = __real_pthread_kill(t, sig);
	perturb();
	return rc;
}
void *__wrap_malloc(size_t n)
{
	if (my_idx > 0 && in_gaia && !in_cb) {
		perturb();
		logev(E_MALLOC, (int)n, 0, 0, 0);
	}
	return __real_malloc(n);
}
void __wrap_free(void *p)
{
	if (my_idx == -1 && !in_cb) {
		perturb();
		logev(E_FREE, 0, 0, 0, 0);
	}
	__real_free(p);
}

/* which item does a getaddrinfo call of netdb.c belong to?  (by the address of ar_result) */
static int find_item(struct addrinfo **res, int *bid, int *k)
{
	uintptr_t p = (uintptr_t)res, lo = (uintptr_t)&batches[0][0], hi = (uintptr_t)&batches[MAXT - 1][MAXSEQ] + sizeof(struct Batch);
	struct Batch *b;
	int i;
	if (p < lo || p >= hi) return 0;
	b = &batches[0][0] + (p - lo) / sizeof(struct Batch);
	for (i = 0; i < MAXN; i++)
		if (res == &b->cb[i].ar_result) {
			struct Batch *o = b->aliased_by ? b->aliased_by : b;
			if (i >= o->n) return 0;
			*bid = o->bid; *k = i; return 1;
		}
	return 0;
}
int __wrap_getaddrinfo(const char *node, const char *service, const struct addrinfo *hints, struct addrinfo **res)
{
	int rc, bid = -1, k = -1;
	if (!tracing() || in_cb) return __real_getaddrinfo(node, service, hints, res);
	int argsok = 0;
	find_item(res, &bid, &k);
	if (bid >= 0) {
		/* the arguments netdb.c passes on, against the request's own (all hint fields) */
		struct gaicb *g = &bid_batch(bid)->cbp[k];
		const struct addrinfo *rq = g->ar_request;
		argsok = node == g->ar_name && service == g->ar_service && (!hints) == (!rq) &&
			(!hints || (hints->ai_flags == rq->ai_flags && hints->ai_family == rq->ai_family &&
				    hints->ai_socktype == rq->ai_socktype && hints->ai_protocol == rq->ai_protocol &&
				    hints->ai_addrlen == 0 && !hints->ai_addr && !hints->ai_canonname && !hints->ai_next));
	}
	perturb();
	logev(E_GACALL, bid, k, bid >= 0 ? bid_batch(bid)->host[k] : -1, argsok);
	perturb();
	rc = __real_getaddrinfo(node, service, hints, res);
	perturb();
	logev(E_GARET, bid, k, rc, 0);
	perturb();
	return rc;
}

/* ------------------------------------------------------------------ notifications */
static void cb_thread(union sigval v)
{
	struct Batch *b = bid_batch(v.sival_int);
	in_cb++;
	if (b) {
		logsnap(E_NOTIFY, b, 0, 0);
		if (b->chain) {
			/* chained look-up: this thread now is a caller of getaddrinfo_a */
			int idx = my_idx, cb = in_cb;
			my_idx = CHAIN_T; in_cb = 0;
			submit(b->chain);
			my_idx = idx; in_cb = cb;
		}
		sem_post(&b->sem);
	} else
		logev(E_NOTE, 1, v.sival_int, 0, 0);
	in_cb--;
}
/* must never run: the caller's sigevent is overwritten with this right after getaddrinfo_a()
 * returns (the request has to carry its own copy of what was asked for at submission) */
static void cb_wrong(union sigval v)
{
	in_cb++;
	logev(E_NOTE, 3, v.sival_int, 0, 0);
	in_cb--;
}
#define WRONG_SLOT 13
static void on_signal(int signo, siginfo_t *si, void *uc)
{
	int e = errno;
	int slot = signo - SIGRTMIN;
	struct Batch *b = (my_idx > 0 && slot >= 0 && slot < 16) ? bid_batch(sig_bid[my_idx][slot]) : NULL;
	in_cb++;
	if (b && b->sev == 'B')
		logev(E_NOTE, 4, b->bid, slot, 0);     /* a blocked signal was delivered asynchronously */
	else if (b) {
		logsnap(E_SIGRECV, b, slot, 0);
		sem_post(&b->sem);
	} else
		logev(E_NOTE, 2, slot, my_idx, 0);
	in_cb--;
	errno = e;
}

/* ------------------------------------------------------------------ submitters */
static double now_s(void)
{
	struct timespec ts;
	clock_gettime(CLOCK_MONOTONIC, &ts);
	return ts.tv_sec + ts.tv_nsec * 1e-9;
}
static double deadline;
static int join_extra;
static int timed_out_;
#define timed_out LD(timed_out_)

static pthread_attr_t notify_attr;

static void prep(struct Batch *b)
{
	int k;
	b->cbp = b->cb;
	if (b->init == 'e') {
		/* resubmit the very objects of an earlier, completed batch of this thread */
		int q, ok;
		struct Batch *a = NULL;
		for (q = 0; q < b->seq && !a; q++) {
			struct Batch *c = &batches[b->t][q];
			if (b->t >= CHAIN_T || !c->finals_done || c->sev == 'B' || c->aliased_by || c->cbp != c->cb || c->n < b->n) continue;
			for (ok = 1, k = 0; k < b->n; k++)
				if (c->cb[k]._state == oracle_rc[b->host[k]] && c->cb[k]._state != 0) ok = 0;
			if (ok) a = c;
		}
		if (a) { a->aliased_by = b; b->cbp = a->cb; }
		else b->init = 'd';
	}
	for (k = 0; k < b->n; k++) {
		const struct Host *h = &hosts[b->host[k]];
		struct gaicb *g = &b->cbp[k];
		int rc = oracle_rc[b->host[k]];
		switch (b->init) {
		case 'z': memset(g, 0, sizeof *g); break;
		case 'f': memset(g, 0xff, sizeof *g); break;
		case 'a': memset(g, 0xa5, sizeof *g); break;
		case 'c':       /* value copy of a request that is in flight */
			memset(g, 0, sizeof *g);
			g->ar_result = (struct addrinfo *)(uintptr_t)0x11;
			g->_state = EAI_INPROGRESS;
			break;
		case 'd':       /* value copy of a completed request */
			memset(g, 0, sizeof *g);
			g->ar_result = (struct addrinfo *)(uintptr_t)0x21;
			g->_state = rc != 0 ? 0 : ((rnd() & 1) ? 0 : EAI_NONAME);
			break;
		case 'e': break;        /* untouched */
		default:
			memset(g, 0, sizeof *g);
			g->ar_result = (struct addrinfo *)(uintptr_t)0x11;   /* poison: must be overwritten */
			g->_state = STALE;
		}
		g->ar_name = h->name;
		g->ar_service = h->service;
		g->ar_request = h->family == NOHINTS ? NULL : &hints_tab[b->host[k]];
		b->init_state[k] = g->_state;
		b->init_res[k] = g->ar_result;
		b->list[k] = g;
	}
	memset(&b->sevs, 0, sizeof b->sevs);
	if (b->sev == 'S' || b->sev == 'B') {
		b->sevs.sigev_notify = SIGEV_SIGNAL;
		b->sevs.sigev_signo = b->signo;
	} else if (b->sev == 'T' || b->sev == 'A') {
		b->sevs.sigev_notify = SIGEV_THREAD;
		b->sevs.sigev_notify_function = cb_thread;
		b->sevs.sigev_value.sival_int = b->bid;
		/* 'A': a real, non-default pthread_attr_t (detached, own stack size) */
		b->sevs.sigev_notify_attributes = b->sev == 'A' ? &notify_attr : NULL;
	} else
		b->sevs.sigev_notify = SIGEV_NONE;
}

/* One sigevent object per submitter thread, re-used for every call of that thread and
 * scribbled over as soon as getaddrinfo_a() has returned: getaddrinfo_a(3) does not require the
 * sigevent to outlive the call. */
static struct sigevent scratch_sev[MAXT];

static void scribble(struct sigevent *sv, int bid)
{
	unsigned r = rnd() % 3;
	if (r == 0) {
		memset(sv, 0, sizeof *sv);
		sv->sigev_notify = SIGEV_THREAD;
		sv->sigev_notify_function = cb_wrong;
		sv->sigev_value.sival_int = bid;
	} else if (r == 1) {
		memset(sv, 0, sizeof *sv);
		sv->sigev_notify = SIGEV_SIGNAL;
		sv->sigev_signo = SIGRTMIN + WRONG_SLOT;
	} else
		memset(sv, 0xA5, sizeof *sv);    /* sigev_notify = garbage: matches no mode */
}

static void submit(struct Batch *b)
{
	struct Ev *e;
	struct sigevent *sv = &scratch_sev[b->t];
	sigset_t m0, m1;
	int rc, k, same = 1;
	prep(b);
	*sv = b->sevs;
	if (b->sev == 'S' || b->sev == 'B')
		sig_bid[b->t][b->signo - SIGRTMIN] = b->bid;
	if (b->sev == 'B') {
		/* synchronous consumer: the notification signal stays blocked in this thread */
		sigset_t one;
		sigemptyset(&one);
		sigaddset(&one, b->signo);
		pthread_sigmask(SIG_BLOCK, &one, NULL);
	}
	pthread_sigmask(SIG_SETMASK, NULL, &m0);
	e = claim();
	e->kind = E_BEGIN; e->who = my_idx; e->a = b->bid; e->b = b->n; e->c = b->mode; e->d = b->sev;
	for (k = 0; k < b->n; k++) e->snap[k] = HOSTCH[b->host[k]];
	e->snap[b->n] = 0;
	ST(e->ready, 1);
	in_gaia = 2 + b->bid;
	rc = getaddrinfo_a(b->mode == 'W' ? GAI_WAIT : GAI_NOWAIT, b->list, b->n, b->sev == 'n' ? NULL : sv);
	in_gaia = 0;
	/* frame condition: getaddrinfo_a must leave the caller's signal mask as it found it */
	pthread_sigmask(SIG_SETMASK, NULL, &m1);
	for (k = 1; k < SIGRTMAX; k++)
		if (sigismember(&m0, k) != sigismember(&m1, k)) same = 0;
	logev(E_MASK, b->bid, same, sigismember(&m0, SIGUSR2) + sigismember(&m0, SIGRTMIN + 14), 0);
	scribble(sv, b->bid);
	logsnap(E_RET, b, rc, 0);
}

static int sem_wait_deadline(sem_t *s)
{
	while (!timed_out) {
		struct timespec ts;
		clock_gettime(CLOCK_REALTIME, &ts);
		ts.tv_nsec += 20 * 1000 * 1000;
		if (ts.tv_nsec >= 1000000000) { ts.tv_sec++; ts.tv_nsec -= 1000000000; }
		if (sem_timedwait(s, &ts) == 0) return 1;
		if (now_s() > deadline) { ST(timed_out_, 1); break; }
	}
	return 0;
}

/* wait until the batch is complete, by the means its notification mode offers */
static void await(struct Batch *b)
{
	char last[MAXN + 2] = "", cur[MAXN + 2];
	if (b->done_seen) return;
	if (b->mode == 'W' && b->sev != 'B') { b->done_seen = 1; return; }
#ifdef C20_TSAN
	/* libtsan defers asynchronous signals and (gcc 12) occasionally never runs the handler:
	 * under TSan the signal is still sent by netdb.c and logged (`kill`), but completion is
	 * detected by polling and the handler event is optional ("mode tsan" in the trace). */
	if (b->sev == 'S') {
		while (!timed_out) {
			if (sem_trywait(&b->sem) == 0) { b->done_seen = 1; return; }
			snap_of(b, cur);
			if (!strchr(cur, 'P') && !strchr(cur, 'N') && !strchr(cur, 'U')) { b->done_seen = 1; return; }
			if (now_s() > deadline) { ST(timed_out_, 1); return; }
			usleep(rnd() % 60);
		}
		return;
	}
#endif
	if (b->sev == 'B') {
		/* blocked + sigtimedwait: the completion must arrive here, exactly once */
		sigset_t one;
		sigemptyset(&one);
		sigaddset(&one, b->signo);
		while (!timed_out) {
			siginfo_t si;
			struct timespec ts = { 0, 20 * 1000 * 1000 };
			int r = sigtimedwait(&one, &si, &ts);
			if (r == b->signo) {
				logsnap(E_SIGRECV, b, b->signo - SIGRTMIN, 0);
				b->done_seen = 1;
				return;
			}
			if (now_s() > deadline) { ST(timed_out_, 1); return; }
		}
		return;
	}
	if (b->sev == 'T' || b->sev == 'A' || b->sev == 'S') {
		if (sem_wait_deadline(&b->sem)) b->done_seen = 1;
		return;
	}
	/* SIGEV_NONE: poll gai_error */
	while (!timed_out) {
		snap_of(b, cur);
		if (strcmp(cur, last)) {
			logsnap(E_POLL, b, 0, 0);
			strcpy(last, cur);
		}
		if (!strchr(cur, 'P') && !strchr(cur, 'N') && !strchr(cur, 'U')) { b->done_seen = 1; return; }
		if (now_s() > deadline) { ST(timed_out_, 1); return; }
		if (rnd() % 4) sched_yield(); else usleep(rnd() % 60);
	}
}

/* after completion: every item must carry getaddrinfo's answer for its arguments */
static void finals(struct Batch *b)
{
	int k;
	if (b->finals_done) return;
	b->finals_done = 1;
	char s[1024];
	for (k = 0; k < b->n; k++) {
		int rc = gai_error(&b->cbp[k]);
		int same = 0;
		struct addrinfo *r = b->cbp[k].ar_result;
		if (rc == oracle_rc[b->host[k]]) {
			if (rc != 0)
				same = 1;   /* no result expected */
			else if (r != b->init_res[k] && r) {
				ai_str(r, s, sizeof s);
				same = strcmp(s, oracle_str[b->host[k]]) == 0;
			}
		}
		logev(E_FINAL, b->bid, k, rc, same);
	}
}

static void *submitter(void *arg)
{
	int t = (int)(intptr_t)arg, q;
	my_idx = t;
	prng = scn_seed * 1000003ULL + t * 7919;
	{
		/* a non-trivial signal mask that every call has to leave untouched */
		sigset_t base;
		sigemptyset(&base);
		sigaddset(&base, SIGUSR2);
		sigaddset(&base, SIGRTMIN + 14);
		pthread_sigmask(SIG_BLOCK, &base, NULL);
	}
	pthread_barrier_wait(&start_bar);   /* thr[] is complete; all submitters start together */
	for (q = 0; q < nbatch[t] && !timed_out; q++) {
		struct Batch *b = &batches[t][q];
		if (window[t] > 0 && q >= window[t]) {
			/* streaming: keep at most window[t] batches in flight */
			struct Batch *o = &batches[t][q - window[t]];
			await(o);
#ifndef C20_TSAN
			if (o->done_seen && !o->finals_done) finals(o);
#endif
		}
		perturb();
		submit(b);
		if (b->waitnow) {
			await(b);
#ifndef C20_TSAN
			if (b->done_seen) finals(b);
#endif
		}
	}
	for (q = 0; q < nbatch[t] && !timed_out; q++) {
		struct Batch *b = &batches[t][q];
		if (b->done_seen) continue;
		await(b);
#ifndef C20_TSAN
		if (b->done_seen) finals(b);
#endif
	}
	/* blocked + sigtimedwait batches: no second instance of the signal may be pending */
	for (q = 0; q < nbatch[t] && !timed_out; q++) {
		struct Batch *b = &batches[t][q];
		sigset_t one;
		siginfo_t si;
		struct timespec ts = { 0, 0 };
		if (b->sev != 'B' || !b->done_seen) continue;
		sigemptyset(&one);
		sigaddset(&one, b->signo);
		if (sigtimedwait(&one, &si, &ts) == b->signo)
			logsnap(E_SIGRECV, b, b->signo - SIGRTMIN, 0);
	}
	/* follow-up batches submitted by the callbacks of this thread's batches */
	for (q = 0; q < nbatch[t] && !timed_out; q++) {
		struct Batch *c = batches[t][q].chain;
		if (!c || !batches[t][q].done_seen) continue;
		await(c);
#ifndef C20_TSAN
		if (c->done_seen) finals(c);
#endif
	}
#ifdef C20_TSAN
	/* Under TSan results are read after a fence request whose callback (run by the resolver
	 * thread, after all earlier requests of this thread: the queue is FIFO) posts a semaphore:
	 * that gives TSan a happens-before edge it knows about.  pthread_kill and the plain load
	 * in gai_error give none (see the report: C memory model is outside the claim). */
	{
		struct Batch *f = &batches[t][MAXSEQ];
		int any = 0;
		for (q = 0; q < nbatch[t]; q++) if (batches[t][q].mode == 'N') any = 1;
		if (any && !timed_out) {
			submit(f);
			await(f);
		}
		for (q = 0; q < nbatch[t] && !timed_out; q++)
			if (batches[t][q].done_seen) finals(&batches[t][q]);
		for (q = 0; q < nbatch[t] && !timed_out; q++)
			if (batches[t][q].chain && batches[t][q].chain->done_seen) finals(batches[t][q].chain);
		if (any && f->done_seen) finals(f);
	}
#endif
	return NULL;
}

/* ------------------------------------------------------------------ scenario driver */
static int parse_scn(char *line)
{
	char *w[64], *p = line;
	int nw = 0, i, t;
	while (*p && nw < 64) {
		while (*p == ' ') p++;
		if (!*p) break;
		w[nw++] = p;
		while (*p && *p != ' ') p++;
		if (*p) *p++ = 0;
	}
	if (nw < 4 || strcmp(w[0], "scn")) return 0;
	scn_seed = strtoull(w[1], NULL, 10);
	pert = atoi(w[2]);
	memset(nbatch, 0, sizeof nbatch);
	memset(window, 0, sizeof window);
	nthreads = 0;
	for (i = 3; i < nw; i++) {
		const char *s = w[i];
		struct Batch *b;
		size_t L = strlen(s), k;
		const char *plus = strchr(s, '+');
		const char *star = strchr(s, '*');
		const char *til = strchr(s, '~');
		int rep = 1, initk = 'g';
		if (s[0] == 'w') {      /* w<t>=<k>: streaming window of thread t */
			if (strlen(s) < 4 || s[2] != '=' || s[1] < '1' || s[1] > '0' + NSUB) return 0;
			window[s[1] - '0'] = atoi(s + 3);
			if (window[s[1] - '0'] < 1 || window[s[1] - '0'] > 8) return 0;
			continue;
		}
		if (star) {             /* <batch>*<count>: that many batches of the same shape */
			if (plus) return 0;
			rep = atoi(star + 1);
			if (rep < 1 || rep > MAXSEQ) return 0;
			L = (size_t)(star - s);
		}
		if (plus) L = (size_t)(plus - s);
		if (til) {
			if (!til[1] || !strchr("gzfacde", til[1]) || (size_t)(til - s) > L) return 0;
			initk = til[1];
			L = (size_t)(til - s);
		}
		if (L < 6 || s[4] != ':') return 0;
		t = s[0] - '0';
		if (t < 1 || t > NSUB) return 0;
		if (nbatch[t] >= MAXSEQ) return 0;
		if (s[1] != 'W' && s[1] != 'N') return 0;
		if (!strchr("n0STBA", s[2])) return 0;
		if (s[3] != '0' && s[3] != '1') return 0;
		if (L - 5 > MAXN) return 0;
		b = &batches[t][nbatch[t]];
		memset(b, 0, sizeof *b);
		b->t = t; b->seq = nbatch[t]; b->bid = t * BIDMUL + b->seq;
		b->mode = s[1]; b->sev = s[2]; b->waitnow = s[3] - '0'; b->init = initk;
		b->n = (int)(L - 5);
		for (k = 0; k < L - 5; k++) {
			int v = host_of_char(s[5 + k]);
			if (v < 0) return 0;
			b->host[k] = v;
		}
		b->signo = SIGRTMIN + 1 + (b->seq % 12);
		sem_init(&b->sem, 0, 0);
		nbatch[t]++;
		if (t > nthreads) nthreads = t;
		while (--rep > 0) {
			struct Batch *c2;
			if (nbatch[t] >= MAXSEQ) return 0;
			c2 = &batches[t][nbatch[t]];
			memcpy(c2, b, sizeof *c2);
			c2->seq = nbatch[t]; c2->bid = t * BIDMUL + c2->seq;
			c2->signo = SIGRTMIN + 1 + (c2->seq % 12);
			sem_init(&c2->sem, 0, 0);
			nbatch[t]++;
		}
		if (plus) {
			struct Batch *c;
			size_t CL = strlen(plus + 1);
			if (b->mode != 'N' || (b->sev != 'T' && b->sev != 'A')) return 0;
			if (CL < 2 || CL - 1 > MAXN || !strchr("n0T", plus[1])) return 0;
			if (nbatch[CHAIN_T] >= MAXSEQ) return 0;
			c = &batches[CHAIN_T][nbatch[CHAIN_T]];
			memset(c, 0, sizeof *c);
			c->t = CHAIN_T; c->seq = nbatch[CHAIN_T]; c->bid = CHAIN_T * BIDMUL + c->seq;
			c->mode = 'N'; c->sev = plus[1]; c->waitnow = 0;
			c->n = (int)(CL - 1);
			for (k = 0; k < CL - 1; k++) {
				int v = host_of_char(plus[2 + k]);
				if (v < 0) return 0;
				c->host[k] = v;
			}
			c->signo = SIGRTMIN + 1;
			sem_init(&c->sem, 0, 0);
			nbatch[CHAIN_T]++;
			b->chain = c;
		}
	}
	for (t = 1; t < MAXT; t++) {
		struct Batch *f = &batches[t][MAXSEQ];
		memset(f, 0, sizeof *f);
		f->t = t; f->seq = FENCE_SEQ; f->bid = t * BIDMUL + FENCE_SEQ; f->mode = 'N'; f->sev = 'T';
		f->n = 1; f->host[0] = 0; f->waitnow = 1;
		sem_init(&f->sem, 0, 0);
	}
	return 1;
}

static const char *who_s(int w, char *buf)
{
	if (w == -1) return "W";
	if (w == -2) return "N";
	snprintf(buf, 8, "%d", w);
	return buf;
}

NOTSAN static void print_trace(void)
{
	int i, n = LD(nev) < MAXEV ? LD(nev) : MAXEV;
	char wb[8];
#ifdef C20_TSAN
	printf("mode tsan\n");
#endif
	for (i = 0; i < NHOST; i++)
		printf("oracle %d %d\n", i, oracle_rc[i]);
	for (i = 0; i < n; i++) {
		struct Ev *e = &evs[i];
		const char *w;
		if (!e->ready) { printf("unfilled %d\n", i); continue; }
		w = who_s(e->who, wb);
		switch (e->kind) {
		case E_BEGIN: printf("begin %s %d %d %c %c %s\n", w, e->a, e->b, e->c, e->d == 'n' ? '0' : e->d == 'A' ? 'T' : e->d, e->snap); break;
		case E_LOCK:
			if (e->snap[0]) printf("lock %s %s %s\n", w, mclass(e->c), e->snap);
			else printf("lock %s %s\n", w, mclass(e->c));
			break;
		case E_UNLOCK: printf("unlock %s %s\n", w, mclass(e->c)); break;
		case E_CREATE: printf("create %s\n", w); break;
		case E_MALLOC: printf("malloc %s %d\n", w, e->a); break;
		case E_SIGNAL: printf("signal %s\n", w); break;
		case E_RET: printf("ret %s %d %d %s\n", w, e->a, e->c, e->snap); break;
		case E_GACALL: printf("gacall %s %d %d %d %d\n", w, e->a, e->b, e->c, e->d); break;
		case E_GARET: printf("garet %s %d %d %d\n", w, e->a, e->b, e->c); break;
		case E_NOTIFY: printf("notify %s %d %s\n", w, e->a, e->snap); break;
		case E_KILL: printf("kill %s %d %d %d\n", w, e->a, e->b, e->c); break;
		case E_SIGRECV: printf("sigrecv %s %d %d %s\n", w, e->a, e->c, e->snap); break;
		case E_FREE: printf("free %s\n", w); break;
		case E_CWAIT: printf("cwait %s\n", w); break;
		case E_CWRET: printf("cwret %s\n", w); break;
		case E_POLL: printf("poll %s %d %s\n", w, e->a, e->snap); break;
		case E_FINAL: printf("final %s %d %d %d %d\n", w, e->a, e->b, e->c, e->d); break;
		case E_TIMEOUT: printf("timeout %d %d\n", e->a, e->b); break;
		case E_MASK: printf("mask %s %d %d %d\n", w, e->a, e->b, e->c); break;
		default: printf("note %s %d %d %d\n", w, e->a, e->b, e->c); break;
		}
	}
	if (overflow) printf("overflow\n");
}

NOTSAN static int worker_quiet(int want_free)
{
	int i, n = LD(nev) < MAXEV ? LD(nev) : MAXEV, nf = 0, last = -1;
	for (i = 0; i < n; i++) {
		if (!evs[i].ready) return 0;
		if (evs[i].who != -1) continue;
		if (evs[i].kind == E_FREE) nf++;
		last = evs[i].kind;
	}
	return nf >= want_free && (want_free == 0 || last == E_CWAIT);
}

static void run_child(void)
{
	int t, q, i, nowait = 0;
	struct sigaction sa;
	pthread_t th[MAXT];

	for (i = 0; i < NHOST; i++) {
		struct addrinfo *r = NULL;
		memset(&hints_tab[i], 0, sizeof hints_tab[i]);
		hints_tab[i].ai_flags = hosts[i].flags;
		hints_tab[i].ai_family = hosts[i].family;
		hints_tab[i].ai_socktype = hosts[i].socktype;
		hints_tab[i].ai_protocol = hosts[i].protocol;
		oracle_rc[i] = __real_getaddrinfo(hosts[i].name, hosts[i].service,
						  hosts[i].family == NOHINTS ? NULL : &hints_tab[i], &r);
		oracle_str[i][0] = 0;
		if (oracle_rc[i] == 0) { ai_str(r, oracle_str[i], sizeof oracle_str[i]); freeaddrinfo(r); }
	}
	pthread_attr_init(&notify_attr);
	pthread_attr_setdetachstate(&notify_attr, PTHREAD_CREATE_DETACHED);
	pthread_attr_setstacksize(&notify_attr, 256 * 1024);
	memset(&sa, 0, sizeof sa);
	sa.sa_sigaction = on_signal;
	sa.sa_flags = SA_SIGINFO | SA_RESTART;
	sigemptyset(&sa.sa_mask);
	for (i = 1; i <= WRONG_SLOT; i++) sigaction(SIGRTMIN + i, &sa, NULL);

	{
		int tot = 0;
		for (t = 1; t < MAXT; t++) tot += nbatch[t];
		deadline = now_s() + 6.0 + 0.03 * tot;
		join_extra = (int)(0.03 * tot);
	}
	pthread_barrier_init(&start_bar, NULL, nthreads + 1);
	for (t = 1; t <= nthreads; t++) {
		__real_pthread_create(&th[t], NULL, submitter, (void *)(intptr_t)t);
		thr[t] = th[t];
	}
	pthread_barrier_wait(&start_bar);
	{
		/* join with one common deadline: a hung submitter must not hang the harness */
		struct timespec ts;
		clock_gettime(CLOCK_REALTIME, &ts);
		ts.tv_sec += 9 + join_extra;
		for (t = 1; t <= nthreads; t++)
			if (pthread_timedjoin_np(th[t], NULL, &ts) != 0) ST(timed_out_, 1);
	}
	for (t = 1; t <= nthreads; t++)
		for (q = 0; q < nbatch[t]; q++) {
			if (batches[t][q].mode == 'N') nowait++;
			if (batches[t][q].chain) nowait++;
		}
#ifdef C20_TSAN
	for (t = 1; t <= nthreads; t++) {
		int any = 0;
		for (q = 0; q < nbatch[t]; q++) if (batches[t][q].mode == 'N') any = 1;
		nowait += any;
	}
#endif
	while (!timed_out && !worker_quiet(nowait)) {
		if (now_s() > deadline) { ST(timed_out_, 1); break; }
		usleep(200);
	}
	if (timed_out) {
		struct Ev *e = claim();
		e->kind = E_TIMEOUT; e->who = 0; e->a = nowait; e->b = 0;
		ST(e->ready, 1);
	}
	print_trace();
	fflush(stdout);
	_exit(0);
}

int main(void)
{
	static char line[4096], copy[4096];
	setvbuf(stdout, NULL, _IOFBF, 1 << 16);
	while (fgets(line, sizeof line, stdin)) {
		size_t L = strlen(line);
		pid_t pid;
		int st = 0, waited = 0, hard = 2500;
		while (L && (line[L - 1] == '\n' || line[L - 1] == '\r')) line[--L] = 0;
		if (!L) continue;
		strcpy(copy, line);
		printf("trace %s\n", line);
		if (!parse_scn(copy)) { printf("bad-op\nend\n"); fflush(stdout); continue; }
		fflush(stdout);
		pid = fork();
		if (pid == 0) {
			run_child();
			_exit(0);
		}
		/* hard limit for a hung or spinning child */
		{ int tb = 0, tt; for (tt = 1; tt < MAXT; tt++) tb += nbatch[tt]; hard = 2500 + 8 * tb; }
		for (waited = 0; waited < hard; waited++) {
			pid_t r = waitpid(pid, &st, WNOHANG);
			if (r == pid) break;
			usleep(10000);
		}
		if (waited >= hard) {
			kill(pid, SIGKILL);
			waitpid(pid, &st, 0);
			printf("crash hard-timeout\n");
		} else if (WIFSIGNALED(st))
			printf("crash signal %d\n", WTERMSIG(st));
		else if (WEXITSTATUS(st) != 0)
			printf("crash exit %d\n", WEXITSTATUS(st));
		printf("end\n");
		fflush(stdout);
	}
	return 0;
}
