/* C14: second variant of the bit functions.  Compiled with build/C14/cfgloop first on the include
 * path, where usual/bits.h has its `__builtin_clz/__builtin_ffs` branch disabled, so these are
 * the portable shift loops of _USUAL_FLS_/_USUAL_FFS_ (what a non-GNU compiler would get). */
#include <usual/bits.h>
int loop_fls(int x) { return fls(x); }
int loop_flsl(long x) { return flsl(x); }
int loop_flsll(long long x) { return flsll(x); }
int loop_ffs(int x) { return ffs(x); }
int loop_ffsl(long x) { return ffsl(x); }
int loop_ffsll(long long x) { return ffsll(x); }
