/* C14: the PLATFORM side of the three-way comparison.  This translation unit is compiled
 * WITHOUT any libusual header, so every name below is glibc's own function.  It is never the
 * judge: h.c only logs where the compat code and the platform differ (platform_differences). */
#define _GNU_SOURCE
#include <stdio.h>
#include <stdlib.h>
#include <stdarg.h>
#include <string.h>
#include <strings.h>
#include <libgen.h>
#include <wchar.h>
#include <time.h>
#include <fnmatch.h>
#include <arpa/inet.h>
#include <sys/socket.h>

size_t g_strnlen(const char *s, size_t n) { return strnlen(s, n); }
char *g_strsep(char **sp, const char *d) { return strsep(sp, d); }
void *g_memrchr(const void *s, int c, size_t n) { return memrchr(s, c, n); }
void *g_memmem(const void *h, size_t hl, const void *n, size_t nl) { return memmem(h, hl, n, nl); }
void *g_mempcpy(void *d, const void *s, size_t n) { return mempcpy(d, s, n); }
char *g_basename(char *p) { return __xpg_basename(p); }
char *g_dirname(char *p) { return dirname(p); }
int g_ffs(int x) { return ffs(x); }
int g_ffsl(long x) { return ffsl(x); }
int g_ffsll(long long x) { return ffsll(x); }
const char *g_inet_ntop(int af, const void *src, char *dst, int size)
{
	return inet_ntop(af, src, dst, (socklen_t)size);
}
int g_inet_pton(int af, const char *src, void *dst) { return inet_pton(af, src, dst); }
size_t g_mbsnrtowcs(wchar_t *dst, const char **src, size_t nms, size_t len, mbstate_t *ps)
{
	return mbsnrtowcs(dst, src, nms, len, ps);
}
long g_getline(char **l, size_t *n, FILE *f) { return getline(l, n, f); }
time_t g_timegm(struct tm *tm) { return timegm(tm); }
int g_asprintf_s(char **dst, const char *fmt, const char *arg) { return asprintf(dst, fmt, arg); }
int g_asprintf_wd(char **dst, const char *fmt, int w, int v) { return asprintf(dst, fmt, w, v); }
int g_asprintf_sd(char **dst, const char *fmt, const char *a, int v) { return asprintf(dst, fmt, a, v); }

/* flags are mapped BY NAME: usual's FNM_CASEFOLD / FNM_LEADING_DIR have other numeric values */
int g_fnmatch(const char *pat, const char *str, int pathname, int noescape, int period,
	      int casefold, int leading_dir)
{
	int fl = 0, r;
	if (pathname) fl |= FNM_PATHNAME;
	if (noescape) fl |= FNM_NOESCAPE;
	if (period) fl |= FNM_PERIOD;
	if (casefold) fl |= FNM_CASEFOLD;
	if (leading_dir) fl |= FNM_LEADING_DIR;
	r = fnmatch(pat, str, fl);
	return r == 0 ? 0 : (r == FNM_NOMATCH ? 1 : -1);
}
