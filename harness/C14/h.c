/* C14 harness: the compat replacements of libusual, compiled in the FORCED-COMPAT configuration
 * (build/C14/cfg/usual/config.h first on the include path: every HAVE_* of these functions is
 * undefined, so the names below are the `usual_*` / `compat_*` functions of the tree under test).
 *
 * One op per line, one output line per op: `observable [## internal]`.
 *   - every buffer handed to the code is an exact-size malloc block (ASan sees any access
 *     outside the buffers), output buffers are printed IN FULL (all guard bytes included);
 *   - glibc (g.c, a separate translation unit without libusual headers) is called with the same
 *     arguments; differences are only LOGGED to $C14_PLATLOG (never judged here).
 *
 * ops (hex = lowercase hex, "-" = empty; S-arguments get an implicit NUL appended):
 *   strlcpy D S N | strlcat D S N | strpcpy D S N | strpcat D S N | mempcpy D S N
 *   strnlen B M | strsep S|null DELIM | memrchr B C N | memmem H N
 *   mempbrk D F | memspn D A | memcspn D R | basename P|null | dirname P|null
 *   strtonum S MIN MAX | bits LO SHIFT CNT | ntop AF ADDR SIZE | pton AF S
 *   fmt ENTRY KIND LEN | reallocarray COUNT SIZE | mbs SRC SRCLEN DSTLEN|null
 *   getline CONTENT INIT|null | timegm Y M D h m s | fnmatch PAT STR FLAGS
 *   wctype NAME   (wctype_wcsn, the class-name lookup of match_class)
 *   errno 0|ERANGE|EINVAL|EPERM|ENOMEM|EILSEQ|ENOSPC   (sets errno-on-entry of the following calls)
 *   layout sep|pageend|pagestart|unaligned|srcdst|dstsrc   (where the buffers of the following calls live)
 */
#include <usual/string.h>
#include <usual/bits.h>
#include <usual/socket.h>
#include <usual/wchar.h>
#include <usual/fileutil.h>
#include <usual/time.h>
#include <usual/base.h>
#include <usual/fnmatch.h>
#include <usual/cxalloc.h>

#include <locale.h>
#include <errno.h>
#include <stdarg.h>
#include <inttypes.h>

/* the harness itself reads its input with the PLATFORM getline and uses the real realloc */
#undef realloc
void *realloc(void *p, size_t n);
#undef getline
#include "hcommon.h"
#define getline(a,b,c) compat_getline(a,b,c)

#if defined(HAVE_STRLCPY) || defined(HAVE_STRLCAT) || defined(HAVE_STRNLEN) || defined(HAVE_STRSEP) \
 || defined(HAVE_MEMRCHR) || defined(HAVE_MEMMEM) || defined(HAVE_MEMPCPY) || defined(HAVE_BASENAME) \
 || defined(HAVE_DIRNAME) || defined(HAVE_STRTONUM) || defined(HAVE_INET_NTOP) || defined(HAVE_INET_PTON) \
 || defined(HAVE_MBSNRTOWCS) || defined(HAVE_GETLINE) || defined(HAVE_TIMEGM) || defined(HAVE_REALLOCARRAY) \
 || defined(HAVE_ASPRINTF) || defined(HAVE_VASPRINTF) || !defined(NEED_USUAL_FNMATCH)
#error "C14 harness must be compiled in the forced-compat configuration"
#endif

/* ---- platform side (g.c) */
size_t g_strnlen(const char *s, size_t n);
char *g_strsep(char **sp, const char *d);
void *g_memrchr(const void *s, int c, size_t n);
void *g_memmem(const void *h, size_t hl, const void *n, size_t nl);
void *g_mempcpy(void *d, const void *s, size_t n);
char *g_basename(char *p);
char *g_dirname(char *p);
int g_ffs(int x);
int g_ffsl(long x);
int g_ffsll(long long x);
const char *g_inet_ntop(int af, const void *src, char *dst, int size);
int g_inet_pton(int af, const char *src, void *dst);
size_t g_mbsnrtowcs(wchar_t *dst, const char **src, size_t nms, size_t len, mbstate_t *ps);
long g_getline(char **l, size_t *n, FILE *f);
time_t g_timegm(struct tm *tm);
int g_asprintf_s(char **dst, const char *fmt, const char *arg);
int g_asprintf_wd(char **dst, const char *fmt, int w, int v);
int g_asprintf_sd(char **dst, const char *fmt, const char *a, int v);
int g_fnmatch(const char *pat, const char *str, int pathname, int noescape, int period,
	      int casefold, int leading_dir);
/* ---- loop variant of bits.h (bl.c) */
int loop_fls(int x);
int loop_flsl(long x);
int loop_flsll(long long x);
int loop_ffs(int x);
int loop_ffsl(long x);
int loop_ffsll(long long x);

/* errno history: every op that calls a replacement enters it with `cur_errno` and leaves what
 * the call left behind in `cur_errno` (so a failing call followed by a succeeding one is a
 * two-call history); `errno NAME` sets it, `#case` resets it to 0.  The exit value is printed
 * as ` e=NAME` and compared with the model. */
static int cur_errno;
#define ENTER() (errno = cur_errno)
#define LEAVE() (cur_errno = errno)

static FILE *platlog;
static const char *cur_line;
static char *cur_copy;

/* how many calls were also made to the platform function (written to the log at exit) */
static struct { const char *fn; unsigned long n; } cmpcnt[24];
static void compared(const char *fn)
{
	int k;
	for (k = 0; k < 24 && cmpcnt[k].fn; k++)
		if (!strcmp(cmpcnt[k].fn, fn)) { cmpcnt[k].n++; return; }
	if (k < 24) { cmpcnt[k].fn = fn; cmpcnt[k].n = 1; }
}

static void plat(const char *fn, const char *fmt, ...)
{
	va_list ap;
	if (!platlog)
		return;
	fprintf(platlog, "%s\t%s\t", fn, cur_copy);
	va_start(ap, fmt);
	vfprintf(platlog, fmt, ap);
	va_end(ap);
	fputc('\n', platlog);
}

/* ---- realloc interposition (the whole harness is compiled with -Drealloc=h_realloc) */
static int ra_record;
static int ra_called;
static size_t ra_total;
void *h_realloc(void *p, size_t n)
{
	if (ra_record) {
		ra_called++;
		ra_total = n;
		return NULL;
	}
	return realloc(p, n);
}

/* ---- buffer layouts (op `layout NAME`, kept until `#case`): where the buffers handed to the
 * replacements live.
 *   sep        exact-size malloc blocks (ASan red zones on both sides)
 *   pageend    mmap: [PROT_NONE page][data ...flush to the end][PROT_NONE page]  (unaligned start,
 *              any access one byte past the end faults, also inside uninstrumented libc code)
 *   pagestart  mmap: [PROT_NONE page][data at the page start ...][PROT_NONE page]  (any access one
 *              byte before the start faults)
 *   unaligned  malloc block with 1..7 canary bytes in front (odd addresses), exact end
 *   srcdst     (copy ops) ONE block: source immediately followed by destination
 *   dstsrc     (copy ops) ONE block: destination immediately followed by source
 */
#include <sys/mman.h>
#include <unistd.h>
enum { L_SEP, L_PAGEEND, L_PAGESTART, L_UNALIGNED, L_SRCDST, L_DSTSRC };
static int layout = L_SEP;
static unsigned lay_seq;
static struct Reg { uint8_t *p, *base; size_t maplen, pad; int kind; } regs[32];

static uint8_t *lay_alloc(size_t n)
{
	size_t pg = (size_t)sysconf(_SC_PAGESIZE);
	int k, kind = layout;
	struct Reg *r = NULL;
	if (kind == L_SRCDST || kind == L_DSTSRC) kind = L_SEP;
	if (kind == L_SEP) return malloc(n ? n : 1);
	for (k = 0; k < 32; k++) if (!regs[k].p) { r = &regs[k]; break; }
	if (!r) return malloc(n ? n : 1);
	r->kind = kind;
	if (kind == L_UNALIGNED) {
		r->pad = 1 + (lay_seq++ % 7);
		r->base = malloc(n + r->pad);
		memset(r->base, 0xEE, r->pad);
		r->p = r->base + r->pad;
		return r->p;
	}
	{
		size_t body = ((n + pg - 1) / pg) * pg;
		if (body == 0) body = pg;
		r->maplen = body + 2 * pg;
		r->base = mmap(NULL, r->maplen, PROT_READ | PROT_WRITE, MAP_PRIVATE | MAP_ANONYMOUS, -1, 0);
		if (r->base == MAP_FAILED) { r->p = NULL; return malloc(n ? n : 1); }
		memset(r->base, 0xEE, r->maplen);
		mprotect(r->base, pg, PROT_NONE);
		mprotect(r->base + pg + body, pg, PROT_NONE);
		r->p = kind == L_PAGEEND ? r->base + pg + body - n : r->base + pg;
		return r->p;
	}
}

/* release any buffer obtained from lay_alloc/malloc; reports a damaged front canary */
static void hfree(void *q)
{
	int k;
	if (!q) return;
	for (k = 0; k < 32; k++) {
		if (regs[k].p == q) {
			if (regs[k].kind == L_UNALIGNED) {
				size_t i;
				for (i = 0; i < regs[k].pad; i++)
					if (regs[k].base[i] != 0xEE) { printf(" UNDERWRITE"); break; }
				free(regs[k].base);
			} else
				munmap(regs[k].base, regs[k].maplen);
			regs[k].p = NULL;
			return;
		}
	}
	free(q);
}

/* exact-size copy of n bytes (+ extra NUL when cstr) in the current layout */
static uint8_t *dupbuf(const uint8_t *b, long n, int cstr)
{
	uint8_t *r = lay_alloc(n + cstr);
	if (n) memcpy(r, b, n);
	if (cstr) r[n] = 0;
	return r;
}

static int parse_ll(const char *s, long long *out)
{
	char *e;
	errno = 0;
	if (!*s) return 0;
	*out = strtoll(s, &e, 10);
	return *e == 0 && errno == 0;
}
static int parse_ull(const char *s, unsigned long long *out)
{
	char *e;
	errno = 0;
	if (!*s || *s == '-') return 0;
	*out = strtoull(s, &e, 10);
	return *e == 0 && errno == 0;
}

static void put_off(const void *p, const void *base)
{
	if (!p) printf("null");
	else printf("%ld", (long)((const char *)p - (const char *)base));
}

static const char *errname(int e)
{
	static char b[32];
	switch (e) {
	case 0: return "0";
	case ENOSPC: return "ENOSPC";
	case EAFNOSUPPORT: return "EAFNOSUPPORT";
	case ERANGE: return "ERANGE";
	case EINVAL: return "EINVAL";
	case ENOMEM: return "ENOMEM";
	case ENAMETOOLONG: return "ENAMETOOLONG";
	case EILSEQ: return "EILSEQ";
	case EPERM: return "EPERM";
	}
	snprintf(b, sizeof b, "E%d", e);
	return b;
}

/* ------------------------------------------------------------------ string ops */
static int op_dstsrc(char **w, int nw)
{
	uint8_t *d0, *s0, *d, *s, *block = NULL;
	long dl, sl;
	unsigned long long n;
	const char *op = w[0];
	if (nw != 4) return 0;
	dl = hc_unhex(w[1], &d0);
	sl = hc_unhex(w[2], &s0);
	if (dl < 0 || sl < 0 || !parse_ull(w[3], &n) || n > (unsigned long long)dl) return 0;
	{
		/* adjacent layouts: source and destination in ONE block, touching each other */
		int ismem = !strcmp(op, "mempcpy");
		long slen = sl + (ismem ? 0 : 1);
		if (layout == L_SRCDST || layout == L_DSTSRC) {
			block = malloc(slen + dl ? slen + dl : 1);
			if (layout == L_SRCDST) { s = block; d = block + slen; }
			else { d = block; s = block + dl; }
			if (dl) memcpy(d, d0, dl);
			if (sl) memcpy(s, s0, sl);
			if (!ismem) s[sl] = 0;
		} else {
			d = dupbuf(d0, dl, 0);
			s = dupbuf(s0, sl, ismem ? 0 : 1);
		}
	}
	if (!strcmp(op, "mempcpy")) {
		void *r, *r2;
		uint8_t *d2;
		if (n > (unsigned long long)sl) return 0;
		r = mempcpy(d, s, n);
		put_off(r, d); putchar(' '); hc_puthex(d, dl);
		d2 = dupbuf(d0, dl, 0);
		r2 = g_mempcpy(d2, s, n);
		compared("mempcpy");
		if ((char *)r - (char *)d != (char *)r2 - (char *)d2 || memcmp(d, d2, dl))
			plat("mempcpy", "differs");
		hfree(d2);
	} else {
		if (!strcmp(op, "strlcpy")) {
			size_t r = strlcpy((char *)d, (char *)s, n);
			printf("%zu ", r); hc_puthex(d, dl);
		} else if (!strcmp(op, "strlcat")) {
			size_t r = strlcat((char *)d, (char *)s, n);
			printf("%zu ", r); hc_puthex(d, dl);
		} else if (!strcmp(op, "strpcpy")) {
			char *r = strpcpy((char *)d, (char *)s, n);
			put_off(r, d); putchar(' '); hc_puthex(d, dl);
		} else if (!strcmp(op, "strpcat")) {
			char *r = strpcat((char *)d, (char *)s, n);
			put_off(r, d); putchar(' '); hc_puthex(d, dl);
		} else
			return 0;
	}
	/* the source is never modified */
	if (memcmp(s, s0, sl) || (strcmp(op, "mempcpy") && s[sl] != 0)) printf(" SRC-MODIFIED");
	if (block) hfree(block); else { hfree(d); hfree(s); }
	hfree(d0); hfree(s0);
	return 1;
}

static int op_strnlen(char **w, int nw)
{
	uint8_t *b;
	long bl;
	unsigned long long m;
	size_t r, r2;
	if (nw != 3) return 0;
	bl = hc_unhex(w[1], &b);
	if (bl < 0 || !parse_ull(w[2], &m)) return 0;
	if (m > (unsigned long long)bl && !memchr(b, 0, bl)) return 0;
	r = strnlen((char *)b, m);
	r2 = g_strnlen((char *)b, m);
	compared("strnlen");
	printf("%zu", r);
	if (r != r2) plat("strnlen", "%zu\t%zu", r, r2);
	hfree(b);
	return 1;
}

static int op_strsep(char **w, int nw)
{
	uint8_t *s0, *dl0, *s, *s2, *dl;
	long sl, dll;
	char *sp, *sp2, *r, *r2;
	if (nw != 3) return 0;
	dll = hc_unhex(w[2], &dl0);
	if (dll < 0) return 0;
	dl = dupbuf(dl0, dll, 1);
	if (!strcmp(w[1], "null")) {
		sp = NULL; sp2 = NULL;
		r = strsep(&sp, (char *)dl);
		r2 = g_strsep(&sp2, (char *)dl);
		compared("strsep");
		printf("%s %s -", r ? "nonnull" : "null", sp ? "nonnull" : "null");
		if ((r != NULL) != (r2 != NULL) || (sp != NULL) != (sp2 != NULL)) plat("strsep", "null-arg");
		hfree(dl); hfree(dl0);
		return 1;
	}
	sl = hc_unhex(w[1], &s0);
	if (sl < 0) return 0;
	s = dupbuf(s0, sl, 1);
	s2 = dupbuf(s0, sl, 1);
	sp = (char *)s; sp2 = (char *)s2;
	r = strsep(&sp, (char *)dl);
	r2 = g_strsep(&sp2, (char *)dl);
	compared("strsep");
	put_off(r, s); putchar(' '); put_off(sp, s); putchar(' '); hc_puthex(s, sl + 1);
	if ((r ? r - (char *)s : -1) != (r2 ? r2 - (char *)s2 : -1) ||
	    (sp ? sp - (char *)s : -1) != (sp2 ? sp2 - (char *)s2 : -1) || memcmp(s, s2, sl + 1))
		plat("strsep", "differs");
	hfree(s); hfree(s2); hfree(s0); hfree(dl); hfree(dl0);
	return 1;
}

static int op_memrchr(char **w, int nw)
{
	uint8_t *b;
	long bl;
	long long c;
	unsigned long long n;
	void *r, *r2;
	if (nw != 4) return 0;
	bl = hc_unhex(w[1], &b);
	if (bl < 0 || !parse_ll(w[2], &c) || c < -2147483648LL || c > 2147483647LL
	    || !parse_ull(w[3], &n) || n > (unsigned long long)bl) return 0;
	r = memrchr(b, (int)c, n);
	r2 = g_memrchr(b, (int)c, n);
	compared("memrchr");
	put_off(r, b);
	if (r != r2) plat("memrchr", "%ld\t%ld", r ? (long)((uint8_t *)r - b) : -1, r2 ? (long)((uint8_t *)r2 - b) : -1);
	hfree(b);
	return 1;
}

static int op_mem2(char **w, int nw)
{
	uint8_t *a, *b;
	long al, bl;
	const char *op = w[0];
	if (nw != 3) return 0;
	al = hc_unhex(w[1], &a);
	bl = hc_unhex(w[2], &b);
	if (al < 0 || bl < 0) return 0;
	if (!strcmp(op, "memmem")) {
		void *r = memmem(a, al, b, bl);
		void *r2 = g_memmem(a, al, b, bl);
		compared("memmem");
		put_off(r, a);
		if (r != r2) plat("memmem", "%ld\t%ld", r ? (long)((uint8_t *)r - a) : -1, r2 ? (long)((uint8_t *)r2 - a) : -1);
	} else if (!strcmp(op, "mempbrk")) {
		put_off(mempbrk(a, al, b, bl), a);
	} else if (!strcmp(op, "memspn")) {
		printf("%zu", memspn(a, al, b, bl));
	} else if (!strcmp(op, "memcspn")) {
		printf("%zu", memcspn(a, al, b, bl));
	} else
		return 0;
	hfree(a); hfree(b);
	return 1;
}

static int op_path(char **w, int nw)
{
	uint8_t *p0 = NULL, *p = NULL, *p2 = NULL;
	long pl = 0;
	const char *r;
	char *r2;
	int isnull, e;
	if (nw != 2) return 0;
	isnull = !strcmp(w[1], "null");
	if (!isnull) {
		pl = hc_unhex(w[1], &p0);
		if (pl < 0) return 0;
		if (memchr(p0, 0, pl)) return 0;
		p = dupbuf(p0, pl, 1);
		p2 = dupbuf(p0, pl, 1);
	}
	ENTER();
	if (!strcmp(w[0], "basename")) {
		r = basename((char *)p);
		e = errno; LEAVE();
		r2 = g_basename((char *)p2);
		compared("basename");
	} else {
		r = dirname((char *)p);
		e = errno; LEAVE();
		r2 = g_dirname((char *)p2);
		compared("dirname");
	}
	if (!r) {
		printf("null e=%s", errname(e));
	} else {
		hc_puthex(r, strlen(r));
		printf(" e=%s", errname(e));
		if (p && r >= (char *)p && r <= (char *)p + pl)
			printf(" ## path+%ld", (long)(r - (char *)p));
		else
			printf(" ## static");
	}
	/* the input must never be modified by the compat versions */
	if (p && memcmp(p, p0, pl)) printf(" INPUT-MODIFIED");
	if (!r || !r2 || strcmp(r, r2)) {
		if (platlog) {
			fprintf(platlog, "%s\t%s\t", w[0], cur_copy);
			if (r) fprintf(platlog, "%s", r); else fprintf(platlog, "(null)");
			fprintf(platlog, "\t%s\n", r2 ? r2 : "(null)");
		}
	}
	hfree(p); hfree(p2); hfree(p0);
	return 1;
}

static int op_strtonum(char **w, int nw)
{
	uint8_t *s0, *s;
	long sl;
	long long mn, mx, r;
	const char *es = "unset";
	int e;
	if (nw != 4) return 0;
	sl = hc_unhex(w[1], &s0);
	if (sl < 0 || !parse_ll(w[2], &mn) || !parse_ll(w[3], &mx)) return 0;
	s = dupbuf(s0, sl, 1);
	ENTER();
	r = strtonum((char *)s, mn, mx, &es);
	e = errno;
	printf("%lld %s e=%s", r, es == NULL ? "ok" : es, errname(e));
	/* NULL errstr_p must be accepted and give the same value (same entry errno) */
	ENTER();
	if (strtonum((char *)s, mn, mx, NULL) != r || errno != e) printf(" NULLERRSTR-DIFFERS");
	LEAVE();
	hfree(s); hfree(s0);
	return 1;
}

/* ------------------------------------------------------------------ bits */
static int op_bits(char **w, int nw)
{
	unsigned long long lo, sh, cnt, i;
	if (nw != 4) return 0;
	if (!parse_ull(w[1], &lo) || !parse_ull(w[2], &sh) || !parse_ull(w[3], &cnt) || sh > 63 || cnt > 4096)
		return 0;
	/* per value: ffs fls (32 bit) ffsl flsl ffsll flsll (64 bit), builtin variant then loop variant */
	for (i = 0; i < cnt; i++) {
		uint64_t v = (lo + i) << sh;
		int a[12];
		int k;
		a[0] = ffs((int)(uint32_t)v); a[1] = fls((int)(uint32_t)v);
		a[2] = ffsl((long)v); a[3] = flsl((long)v);
		a[4] = ffsll((long long)v); a[5] = flsll((long long)v);
		a[6] = loop_ffs((int)(uint32_t)v); a[7] = loop_fls((int)(uint32_t)v);
		a[8] = loop_ffsl((long)v); a[9] = loop_flsl((long)v);
		a[10] = loop_ffsll((long long)v); a[11] = loop_flsll((long long)v);
		for (k = 0; k < 12; k++) printf("%02x", a[k] & 0xff);
		compared("ffs");
		if (a[0] != g_ffs((int)(uint32_t)v) || a[2] != g_ffsl((long)v) || a[4] != g_ffsll((long long)v))
			plat("ffs", "%" PRIu64, v);
	}
	if (cnt == 0) putchar('-');
	return 1;
}

/* ------------------------------------------------------------------ inet */
static int op_ntop(char **w, int nw)
{
	uint8_t *a, *d, *d2;
	long al;
	long long af, size;
	const char *r, *r2;
	int e, e2, realaf;
	long cap;
	if (nw != 4) return 0;
	al = hc_unhex(w[2], &a);
	if (al < 0 || !parse_ll(w[1], &af) || !parse_ll(w[3], &size) || size > 100 || size < -5) return 0;
	realaf = af == 4 ? AF_INET : af == 6 ? AF_INET6 : (int)af + 1000;
	if ((af == 4 && al != 4) || (af == 6 && al != 16)) return 0;
	cap = size > 0 ? size : 0;
	d = lay_alloc(cap); if (cap) memset(d, 0xAA, cap);
	d2 = malloc(cap ? cap : 1); memset(d2, 0xAA, cap ? cap : 1);
	ENTER();
	r = inet_ntop(realaf, a, (char *)d, (int)size);
	e = errno; LEAVE();
	errno = 0;
	r2 = size >= 0 ? g_inet_ntop(realaf, a, (char *)d2, (int)size) : NULL;
	compared("inet_ntop");
	e2 = errno;
	printf("%s e=%s ", r ? (r == (char *)d ? "dst" : "other") : "null", errname(e));
	hc_puthex(d, cap);
	if (size >= 0 && ((r != NULL) != (r2 != NULL) || (r && strcmp(r, r2)) || (!r && e != e2)))
		plat("inet_ntop", "%s %s\t%s %s", r ? r : "(null)", errname(e), r2 ? r2 : "(null)", r2 ? "0" : strerror(e2));
	hfree(a); hfree(d); hfree(d2);
	return 1;
}

static int op_pton(char **w, int nw)
{
	uint8_t *s0, *s, d[20], d2[20];
	uint8_t *dd, *dd2;
	long sl;
	long long af;
	int r, r2, e, realaf, n;
	if (nw != 3) return 0;
	sl = hc_unhex(w[2], &s0);
	if (sl < 0 || !parse_ll(w[1], &af)) return 0;
	realaf = af == 4 ? AF_INET : af == 6 ? AF_INET6 : (int)af + 1000;
	n = af == 4 ? 4 : 16;
	s = dupbuf(s0, sl, 1);
	dd = lay_alloc(n); memset(dd, 0xAA, n);
	dd2 = malloc(n); memset(dd2, 0xAA, n);
	ENTER();
	r = inet_pton(realaf, (char *)s, dd);
	e = errno; LEAVE();
	r2 = g_inet_pton(realaf, (char *)s, dd2);
	compared("inet_pton");
	printf("%d e=%s ", r, errname(e));
	hc_puthex(dd, n);
	if (r != r2 || memcmp(dd, dd2, n)) {
		memcpy(d, dd, n); memcpy(d2, dd2, n);
		plat("inet_pton", "%d\t%d", r, r2);
	}
	hfree(dd); hfree(dd2); hfree(s); hfree(s0);
	return 1;
}

/* ------------------------------------------------------------------ formatted output */
/* KIND 0: "%s" with a LEN-byte argument; KIND 1: "%*d" (width LEN, value 42, LEN >= 2);
 * KIND 2: "ab%sxy%d" with a (LEN-7)-byte argument and value 123 (LEN >= 7).
 * argument byte i = 'a' + (i*7 + LEN) % 26.   ENTRY: asprintf | cx_asprintf | cx_sprintf */
static char *fmt_arg(long n, long total)
{
	char *a = malloc(n + 1);
	long i;
	for (i = 0; i < n; i++) a[i] = 'a' + (i * 7 + total) % 26;
	a[n] = 0;
	return a;
}

static int op_fmt(char **w, int nw)
{
	unsigned long long kind, len;
	char *res = (char *)(uintptr_t)0x1, *res2 = NULL, *arg = NULL;
	int r = -2, r2 = -2, entry, e = 0;
	if (nw != 4) return 0;
	if (!parse_ull(w[2], &kind) || !parse_ull(w[3], &len) || kind > 2 || len > 100000) return 0;
	entry = !strcmp(w[1], "asprintf") ? 0 : !strcmp(w[1], "cx_asprintf") ? 1 : !strcmp(w[1], "cx_sprintf") ? 2 : -1;
	if (entry < 0) return 0;
	if ((kind == 1 && len < 2) || (kind == 2 && len < 7)) return 0;
	if (kind == 0) {
		arg = fmt_arg(len, len);
		ENTER();
		if (entry == 0) r = asprintf(&res, "%s", arg);
		else if (entry == 1) r = cx_asprintf(NULL, &res, "%s", arg);
		else { res = cx_sprintf(NULL, "%s", arg); r = res ? (int)strlen(res) : -1; }
		e = errno; LEAVE();
		r2 = g_asprintf_s(&res2, "%s", arg);
		compared("asprintf");
	} else if (kind == 1) {
		ENTER();
		if (entry == 0) r = asprintf(&res, "%*d", (int)len, 42);
		else if (entry == 1) r = cx_asprintf(NULL, &res, "%*d", (int)len, 42);
		else { res = cx_sprintf(NULL, "%*d", (int)len, 42); r = res ? (int)strlen(res) : -1; }
		e = errno; LEAVE();
		r2 = g_asprintf_wd(&res2, "%*d", (int)len, 42);
		compared("asprintf");
	} else {
		arg = fmt_arg(len - 7, len);
		ENTER();
		if (entry == 0) r = asprintf(&res, "ab%sxy%d", arg, 123);
		else if (entry == 1) r = cx_asprintf(NULL, &res, "ab%sxy%d", arg, 123);
		else { res = cx_sprintf(NULL, "ab%sxy%d", arg, 123); r = res ? (int)strlen(res) : -1; }
		e = errno; LEAVE();
		r2 = g_asprintf_sd(&res2, "ab%sxy%d", arg, 123);
		compared("asprintf");
	}
	printf("%d e=%s ", r, errname(e));
	if (r >= 0 && res) hc_puthex(res, (size_t)r + 1);   /* exact-size block: r+1 bytes incl. NUL */
	else printf("%s", res ? "nonnull" : "null");
	if (r != r2 || (r >= 0 && memcmp(res, res2, r + 1))) plat("asprintf", "%d\t%d", r, r2);
	if (r >= 0) hfree(res);
	hfree(res2); hfree(arg);
	return 1;
}

static int op_reallocarray(char **w, int nw)
{
	unsigned long long c, s;
	void *r;
	int e;
	if (nw != 3) return 0;
	if (!parse_ull(w[1], &c) || !parse_ull(w[2], &s)) return 0;
	ra_record = 1; ra_called = 0; ra_total = 0;
	ENTER();
	r = reallocarray(NULL, (size_t)c, (size_t)s);
	e = errno; LEAVE();
	ra_record = 0;
	if (ra_called) printf("realloc %zu e=%s", ra_total, errname(e));
	else printf("%s e=%s", r ? "nonnull" : "null", errname(e));
	return 1;
}

/* ------------------------------------------------------------------ mbsnrtowcs */
static int op_mbs(char **w, int nw)
{
	uint8_t *s0;
	long sl;
	unsigned long long srclen, dstlen = 0, i;
	int nodst;
	wchar_t *d = NULL, *d2 = NULL;
	const char *sp, *sp2;
	size_t r, r2;
	mbstate_t ps, ps2;
	if (nw != 4) return 0;
	sl = hc_unhex(w[1], &s0);
	nodst = !strcmp(w[3], "null");
	if (sl < 0 || !parse_ull(w[2], &srclen) || srclen > (unsigned long long)sl) return 0;
	if (!nodst && (!parse_ull(w[3], &dstlen) || dstlen > 4096)) return 0;
	if (!nodst) {
		d = malloc(sizeof(wchar_t) * (dstlen ? dstlen : 1));
		d2 = malloc(sizeof(wchar_t) * (dstlen ? dstlen : 1));
		for (i = 0; i < dstlen; i++) d[i] = d2[i] = 0x7AAAAAAA;
	}
	memset(&ps, 0, sizeof ps); memset(&ps2, 0, sizeof ps2);
	sp = (char *)s0; sp2 = (char *)s0;
	ENTER();
	r = mbsnrtowcs(d, &sp, srclen, dstlen, &ps);
	LEAVE();
	r2 = g_mbsnrtowcs(d2, &sp2, srclen, dstlen, &ps2);
	compared("mbsnrtowcs");
	if (r == (size_t)-1) printf("-1 "); else printf("%zu ", r);
	printf("e=%s ", errname(cur_errno));
	put_off(sp, s0);
	putchar(' ');
	if (nodst || dstlen == 0) putchar('-');
	for (i = 0; !nodst && i < dstlen; i++) printf("%s%x", i ? "," : "", (unsigned)d[i]);
	if (r != r2 || sp != sp2 || (!nodst && memcmp(d, d2, sizeof(wchar_t) * dstlen)))
		plat("mbsnrtowcs", "%ld@%ld\t%ld@%ld", (long)r, sp ? (long)(sp - (char *)s0) : -1, (long)r2, sp2 ? (long)(sp2 - (char *)s0) : -1);
	hfree(d); hfree(d2); hfree(s0);
	return 1;
}

/* mbsq ps|null DSTLEN|null SEG1 SEG2 [SEG3]: consecutive calls on ONE conversion state (an explicit
 * mbstate_t, or ps == NULL = the function's internal state); every call converts one whole segment into a
 * fresh destination.  Per call: ret@offset/errno/mbsinit/dst.  Stops after a failing call (the state is
 * undefined then).  The platform runs the same sequence on its own state and is compared after every call. */
static int op_mbsq(char **w, int nw)
{
	uint8_t *seg[3];
	long sl[3];
	unsigned long long dstlen = 0, i;
	int nodst, nseg = nw - 3, k, usenull, failed = 0;
	mbstate_t ps, ps2;
	if (nw < 5 || nw > 6) return 0;
	usenull = !strcmp(w[1], "null");
	if (!usenull && strcmp(w[1], "ps")) return 0;
	nodst = !strcmp(w[2], "null");
	if (!nodst && (!parse_ull(w[2], &dstlen) || dstlen > 64)) return 0;
	for (k = 0; k < nseg; k++) {
		sl[k] = hc_unhex(w[3 + k], &seg[k]);
		if (sl[k] < 0) { while (k-- > 0) hfree(seg[k]); return 0; }
	}
	memset(&ps, 0, sizeof ps); memset(&ps2, 0, sizeof ps2);
	for (k = 0; k < nseg; k++) {
		wchar_t *d = NULL, *d2 = NULL;
		const char *sp = (char *)seg[k], *sp2 = (char *)seg[k];
		size_t r, r2;
		int e2, in1, in2;
		if (k) putchar(' ');
		if (failed) { printf("skipped"); continue; }
		if (!nodst) {
			d = malloc(sizeof(wchar_t) * (dstlen ? dstlen : 1));
			d2 = malloc(sizeof(wchar_t) * (dstlen ? dstlen : 1));
			for (i = 0; i < dstlen; i++) d[i] = d2[i] = 0x7AAAAAAA;
		}
		ENTER();
		r = mbsnrtowcs(d, &sp, sl[k], dstlen, usenull ? NULL : &ps);
		LEAVE();
		errno = 0;
		r2 = g_mbsnrtowcs(d2, &sp2, sl[k], dstlen, usenull ? NULL : &ps2);
		e2 = errno;
		compared("mbsnrtowcs");
		in1 = usenull ? -1 : !!mbsinit(&ps);
		in2 = usenull ? -1 : !!mbsinit(&ps2);
		if (r == (size_t)-1) printf("-1@"); else printf("%zu@", r);
		put_off(sp, seg[k]);
		printf("/%s/", errname(cur_errno));
		if (usenull || r == (size_t)-1) putchar('-'); else printf("%d", in1);
		putchar('/');
		if (nodst || dstlen == 0) putchar('-');
		for (i = 0; !nodst && i < dstlen; i++) printf("%s%x", i ? "," : "", (unsigned)d[i]);
		if (r != r2 || sp != sp2 || in1 != in2 || (r == (size_t)-1 && cur_errno != e2) ||
		    (!nodst && memcmp(d, d2, sizeof(wchar_t) * dstlen)))
			plat("mbsnrtowcs", "call%d:%ld@%ld,init=%d,errno=%d\tcall%d:%ld@%ld,init=%d,errno=%d", k + 1, (long)r,
			     sp ? (long)(sp - (char *)seg[k]) : -1, in1, r == (size_t)-1 ? cur_errno : 0, k + 1, (long)r2,
			     sp2 ? (long)(sp2 - (char *)seg[k]) : -1, in2, r == (size_t)-1 ? e2 : 0);
		if (r == (size_t)-1) failed = 1;
		hfree(d); hfree(d2);
	}
	printf(" e=%s", errname(cur_errno));
	for (k = 0; k < nseg; k++) hfree(seg[k]);
	return 1;
}

/* ------------------------------------------------------------------ getline */
static int op_getline(char **w, int nw)
{
	uint8_t *c0;
	long cl;
	unsigned long long init = 0;
	int isnull, calls = 0, r;
	long r2;
	FILE *f, *f2;
	char *ln = NULL, *ln2 = NULL;
	size_t sz = 0, sz2 = 0;
	int differs = 0;
	if (nw != 3) return 0;
	cl = hc_unhex(w[1], &c0);
	isnull = !strcmp(w[2], "null");
	if (cl < 0 || (!isnull && (!parse_ull(w[2], &init) || init == 0 || init > 100000))) return 0;
	f = tmpfile(); f2 = tmpfile();
	if (!f || !f2) { printf("tmpfile-failed"); return 1; }
	if (cl) { fwrite(c0, 1, cl, f); fwrite(c0, 1, cl, f2); }
	rewind(f); rewind(f2);
	if (!isnull) { ln = malloc(init); sz = init; ln2 = malloc(init); sz2 = init; }
	while (calls < 64) {
		ENTER();
		r = getline(&ln, &sz, f);
		LEAVE();
		r2 = g_getline(&ln2, &sz2, f2);
		compared("getline");
		if (calls) putchar(' ');
		printf("%d:", r);
		if (r > 0) hc_puthex(ln, (size_t)r + 1); else putchar('-');
		printf(":%zu", sz);
		if (r != r2 || (r > 0 && memcmp(ln, ln2, (size_t)r + 1))) differs = 1;
		calls++;
		if (r < 0) break;
	}
	printf(" e=%s", errname(cur_errno));
	if (differs) plat("getline", "differs");
	fclose(f); fclose(f2); hfree(ln); hfree(ln2); hfree(c0);
	return 1;
}

/* ------------------------------------------------------------------ timegm */
static int op_timegm(char **w, int nw)
{
	long long v[6];
	struct tm tm, tm2, l1, l2;
	time_t r, r2, probe = 1700000000;
	char tzbefore[64], tzafter[64];
	int i;
	if (nw != 7) return 0;
	for (i = 0; i < 6; i++)
		if (!parse_ll(w[i + 1], &v[i]) || v[i] < -100000 || v[i] > 100000) return 0;
	memset(&tm, 0, sizeof tm);
	tm.tm_year = v[0] - 1900; tm.tm_mon = v[1] - 1; tm.tm_mday = v[2];
	tm.tm_hour = v[3]; tm.tm_min = v[4]; tm.tm_sec = v[5];
	tm.tm_isdst = 0;
	tm2 = tm;
	snprintf(tzbefore, sizeof tzbefore, "%s", getenv("TZ") ? getenv("TZ") : "(unset)");
	localtime_r(&probe, &l1);
	r = timegm(&tm);
	snprintf(tzafter, sizeof tzafter, "%s", getenv("TZ") ? getenv("TZ") : "(unset)");
	localtime_r(&probe, &l2);
	r2 = g_timegm(&tm2);
	compared("timegm");
	printf("%lld wday=%d %s", (long long)r, tm.tm_wday,
	       (!strcmp(tzbefore, tzafter) && l1.tm_hour == l2.tm_hour && l1.tm_gmtoff == l2.tm_gmtoff) ? "tz-restored" : "TZ-CHANGED");
	if (r != r2 || tm.tm_wday != tm2.tm_wday || tm.tm_yday != tm2.tm_yday || tm.tm_mday != tm2.tm_mday)
		plat("timegm", "%lld\t%lld", (long long)r, (long long)r2);
	return 1;
}

/* ------------------------------------------------------------------ fnmatch */
static int op_fnmatch(char **w, int nw)
{
	uint8_t *p0, *s0, *p, *s;
	long pl, sl;
	unsigned long long fl;
	int r, r2, ur;
	if (nw != 4) return 0;
	pl = hc_unhex(w[1], &p0);
	sl = hc_unhex(w[2], &s0);
	if (pl < 0 || sl < 0 || !parse_ull(w[3], &fl) || fl > 31) return 0;
	if (memchr(p0, 0, pl) || memchr(s0, 0, sl)) return 0;
	p = dupbuf(p0, pl, 1);
	s = dupbuf(s0, sl, 1);
	ENTER();
	ur = fnmatch((char *)p, (char *)s, (int)fl);
	LEAVE();
	r = ur == 0 ? 0 : ur == FNM_NOMATCH ? 1 : -1;
	r2 = g_fnmatch((char *)p, (char *)s, !!(fl & FNM_PATHNAME), !!(fl & FNM_NOESCAPE), !!(fl & FNM_PERIOD),
		       !!(fl & FNM_CASEFOLD), !!(fl & FNM_LEADING_DIR));
	printf("%d e=%s ## %d", r, errname(cur_errno), r);
	compared("fnmatch");
	if (r != r2) plat("fnmatch", "%d\t%d", r, r2);
	hfree(p); hfree(s); hfree(p0); hfree(s0);
	return 1;
}

/* wctype NAME: `wctype_wcsn` (the class-name lookup under match_class) on exactly the NAME bytes
 * (ASCII), handed over as an exact-size wide array WITHOUT terminator: 1 = a class, 0 = none */
static int op_wctype(char **w, int nw)
{
	uint8_t *n0;
	long nl, i;
	wchar_t *wn;
	wctype_t t;
	if (nw != 2) return 0;
	nl = hc_unhex(w[1], &n0);
	if (nl < 0 || nl > 64) return 0;
	wn = malloc(sizeof(wchar_t) * (nl ? nl : 1));
	for (i = 0; i < nl; i++) wn[i] = n0[i];
	ENTER();
	t = wctype_wcsn(wn, (unsigned)nl);
	LEAVE();
	printf("%d", t != (wctype_t)0);
	hfree(wn); hfree(n0);
	return 1;
}

int main(void)
{
	char *line;
	char *w[12];
	const char *lp = getenv("C14_PLATLOG");
	const char *loc = setlocale(LC_CTYPE, "C.UTF-8");
	if (!loc) loc = setlocale(LC_CTYPE, "en_US.UTF-8");
	if (lp && *lp) platlog = fopen(lp, "a");
	setenv("TZ", "EST5EDT,M3.2.0,M11.1.0", 1);
	tzset();
	while ((line = hc_line())) {
		int nw, ok = 0;
		hfree(cur_copy);
		cur_copy = strdup(line);
		cur_line = cur_copy;
		nw = hc_words(line, w, 12);
		if (nw == 1 && !strcmp(w[0], "#case")) { cur_errno = 0; layout = L_SEP; puts("#case"); continue; }
		if (nw == 2 && !strcmp(w[0], "layout")) {
			static const char *ln[] = {"sep", "pageend", "pagestart", "unaligned", "srcdst", "dstsrc", NULL};
			int k;
			for (k = 0; ln[k] && strcmp(ln[k], w[1]); k++) ;
			if (ln[k]) { layout = k; puts("ok"); } else puts("bad-op");
			continue;
		}
		if (nw == 2 && !strcmp(w[0], "errno")) {
			static const struct { const char *n; int v; } ev[] = {
				{"0", 0}, {"ERANGE", ERANGE}, {"EINVAL", EINVAL}, {"EPERM", EPERM}, {"ENOMEM", ENOMEM},
				{"EILSEQ", EILSEQ}, {"ENOSPC", ENOSPC}, {NULL, 0}};
			int k;
			for (k = 0; ev[k].n && strcmp(ev[k].n, w[1]); k++) ;
			if (ev[k].n) { cur_errno = ev[k].v; puts("ok"); } else puts("bad-op");
			continue;
		}
		if (nw == 1 && !strcmp(w[0], "locale")) { printf("%s\n", loc ? "utf8" : "NO-UTF8-LOCALE"); continue; }
		if (nw >= 1) {
			const char *op = w[0];
			if (!strcmp(op, "strlcpy") || !strcmp(op, "strlcat") || !strcmp(op, "strpcpy") ||
			    !strcmp(op, "strpcat") || !strcmp(op, "mempcpy")) ok = op_dstsrc(w, nw);
			else if (!strcmp(op, "strnlen")) ok = op_strnlen(w, nw);
			else if (!strcmp(op, "strsep")) ok = op_strsep(w, nw);
			else if (!strcmp(op, "memrchr")) ok = op_memrchr(w, nw);
			else if (!strcmp(op, "memmem") || !strcmp(op, "mempbrk") || !strcmp(op, "memspn") ||
				 !strcmp(op, "memcspn")) ok = op_mem2(w, nw);
			else if (!strcmp(op, "basename") || !strcmp(op, "dirname")) ok = op_path(w, nw);
			else if (!strcmp(op, "strtonum")) ok = op_strtonum(w, nw);
			else if (!strcmp(op, "bits")) ok = op_bits(w, nw);
			else if (!strcmp(op, "ntop")) ok = op_ntop(w, nw);
			else if (!strcmp(op, "pton")) ok = op_pton(w, nw);
			else if (!strcmp(op, "fmt")) ok = op_fmt(w, nw);
			else if (!strcmp(op, "reallocarray")) ok = op_reallocarray(w, nw);
			else if (!strcmp(op, "mbs")) ok = op_mbs(w, nw);
			else if (!strcmp(op, "mbsq")) ok = op_mbsq(w, nw);
			else if (!strcmp(op, "getline")) ok = op_getline(w, nw);
			else if (!strcmp(op, "timegm")) ok = op_timegm(w, nw);
			else if (!strcmp(op, "fnmatch")) ok = op_fnmatch(w, nw);
			else if (!strcmp(op, "wctype")) ok = op_wctype(w, nw);
		}
		if (!ok) printf("bad-op");
		putchar('\n');
	}
	fflush(stdout);
	if (platlog) {
		int k;
		for (k = 0; k < 24 && cmpcnt[k].fn; k++)
			fprintf(platlog, "#compared\t%s\t%lu\n", cmpcnt[k].fn, cmpcnt[k].n);
		fclose(platlog);
	}
	return 0;
}
