/* C12 harness: drives the real usual/mbuf.h + usual/mbuf.c (compiled from the working-tree
 * sources, ASan+UBSan) with the op lines of the line protocol and prints, per line,
 *
 *   <ok> <val> <bytes> | <slot>:r=..,w=..,c=..,m=rfn,<contents> ...  ## <slot>:a=<alloc>,<data> ...
 *
 * exactly as lean/Driver/C12.lean does for the model.
 *
 * Memory discipline (so that AddressSanitizer sees every byte outside the data):
 *  - every fixed buffer, every source of mbuf_write and every slice/copy lives in its own
 *    exact-size malloc block;
 *  - realloc() inside mbuf.c is routed to h_realloc(): exact-size block, new tail filled with
 *    0xDD, fails when the op's oracle flag is 0 or the request is above 64 KiB (so that no
 *    tree, repaired or not, allocates gigabytes);
 *  - after mbuf_slice/mbuf_copy the fields set by the library are printed as they are and
 *    only then the data pointer is re-homed to a private exact-size copy (the library's
 *    slice aliases the source's memory; a private copy keeps later ops on the source from
 *    invalidating it and makes reads beyond the slice visible to ASan).
 *  - CPU-time timer (1 s) + alarm() per case: a hang (make_room's doubling loop on an unrepaired tree) ends the
 *    process with `TIMEOUT`, which the check reports as a crash line.
 */
#include <stdlib.h>
#include <string.h>
#include <stdio.h>
#include <stdint.h>
#include <stdbool.h>
#include <limits.h>
#include <signal.h>
#include <unistd.h>
#include <sys/time.h>

static void *h_realloc(void *ptr, size_t n);
#define realloc(p, n) h_realloc((p), (n))
#include "usual/mbuf.c"
#undef realloc

#include "hcommon.h"

#define NSLOTS 4
#define LIMIT 65536u

static struct MBuf mb[NSLOTS];
static uint8_t *own[NSLOTS];	/* block we handed to a fixed buffer */
static int cur = -1;		/* slot being operated on (for h_realloc) */
static int ora_flag = 0;

static void *h_realloc(void *ptr, size_t n)
{
	size_t old = 0;
	uint8_t *p;
	if (!ora_flag || n > LIMIT)
		return NULL;
	if (cur >= 0 && ptr == mb[cur].data)
		old = mb[cur].alloc_len;
	p = malloc(n ? n : 1);
	if (!p)
		return NULL;
	memset(p, 0xDD, n);
	if (ptr) {
		memcpy(p, ptr, old < n ? old : n);
		free(ptr);
	}
	return p;
}

static uint8_t pat(unsigned seed, unsigned k)
{
	return (uint8_t)((seed + 31u * k + k / 256u) % 256u);
}

static void release(int i)
{
	if (own[i]) {
		free(own[i]);
		own[i] = NULL;
	} else if (mb[i].data && !mb[i].fixed) {
		free(mb[i].data);
	}
	memset(&mb[i], 0, sizeof(mb[i]));
}

static void reset_all(void)
{
	int i;
	for (i = 0; i < NSLOTS; i++) {
		release(i);
		mbuf_init_dynamic(&mb[i]);
	}
}

static void dump(const uint8_t *p, size_t n)
{
	if (n <= 24) {
		fputs("x=", stdout);
		hc_puthex(p, n);
	} else {
		uint64_t h = HC_FNV_INIT;
		size_t i;
		for (i = 0; i < n; i++) {
			h ^= p[i];
			h *= 0x100000001b3ULL;
		}
		printf("h=%016llx:%zu", (unsigned long long)h, n);
	}
}

static void obs_slot(int i)
{
	struct MBuf *b = &mb[i];
	printf("%d:r=%u,w=%u,c=", i, b->read_pos, b->write_pos);
	if (b->fixed)
		printf("%u", b->alloc_len);
	else
		fputs("dyn", stdout);
	printf(",m=%d%d%d,", b->reader ? 1 : 0, b->fixed ? 1 : 0, b->data == NULL ? 1 : 0);
	/* contents = [0, write_pos): on a broken tree write_pos may exceed the block; ASan then
	 * reports it here, which is a correct (crash) result */
	dump(b->data, b->write_pos);
}

static void int_slot(int i)
{
	struct MBuf *b = &mb[i];
	printf("%d:a=%u,", i, b->alloc_len);
	dump(b->data, b->alloc_len);
}

static void render(bool ok, unsigned long long val, const uint8_t *bytes, size_t nbytes,
		   int s1, int s2, bool val_internal)
{
	printf("%d ", ok ? 1 : 0);
	if (val_internal)
		fputs("dyn ", stdout);
	else
		printf("%llu ", val);
	hc_puthex(bytes, nbytes);
	fputs(" | ", stdout);
	obs_slot(s1);
	if (s2 >= 0 && s2 != s1) {
		fputc(' ', stdout);
		obs_slot(s2);
	}
	fputs(" ## ", stdout);
	if (val_internal)
		printf("v=%llu ", val);
	int_slot(s1);
	if (s2 >= 0 && s2 != s1) {
		fputc(' ', stdout);
		int_slot(s2);
	}
	fputc('\n', stdout);
}

static bool p_slot(const char *w, int *out)
{
	char *e;
	unsigned long v;
	if (!*w || *w < '0' || *w > '9') return false;
	v = strtoul(w, &e, 10);
	if (*e || v >= NSLOTS) return false;
	*out = (int)v;
	return true;
}

static bool p_u32(const char *w, unsigned *out)
{
	char *e;
	unsigned long long v;
	const char *p;
	if (!*w || strlen(w) > 10) return false;
	for (p = w; *p; p++)
		if (*p < '0' || *p > '9') return false;
	v = strtoull(w, &e, 10);
	if (*e || v > 0xFFFFFFFFULL) return false;
	*out = (unsigned)v;
	return true;
}

static bool p_u8(const char *w, unsigned *out)
{
	return p_u32(w, out) && *out < 256;
}

static bool p_ora(const char *w)
{
	if (strcmp(w, "1") == 0) { ora_flag = 1; return true; }
	if (strcmp(w, "0") == 0) { ora_flag = 0; return true; }
	return false;
}

static void on_alarm(int sig)
{
	static const char msg[] = "TIMEOUT\n";
	(void)sig;
	fflush(stdout);
	if (write(1, msg, sizeof(msg) - 1) < 0) {}
	_exit(3);
}

/* per case: 1 s of CPU time (a hang burns CPU; robust against a loaded machine) and 30 s
 * of wall time as a fallback */
static void arm_timers(void)
{
	struct itimerval it;
	memset(&it, 0, sizeof(it));
	it.it_value.tv_sec = 1;
	setitimer(ITIMER_PROF, &it, NULL);
	alarm(30);
}

#define BAD() do { puts("bad-op"); goto next; } while (0)

int main(void)
{
	char *line;
	char *w[8];
	int n;

	signal(SIGALRM, on_alarm);
	signal(SIGPROF, on_alarm);
	reset_all();
	while ((line = hc_line()) != NULL) {
		int i, j;
		unsigned len, ofs, seed, v;
		uint8_t *src = NULL;
		long sl;

		cur = -1;
		ora_flag = 0;
		n = hc_words(line, w, 8);
		if (n == 1 && strcmp(w[0], "#case") == 0) {
			arm_timers();
			reset_all();
			puts("#case");
			continue;
		}
		if (n < 2) BAD();
		if (!strcmp(w[0], "initr") && n == 3) {
			if (!p_slot(w[1], &i)) BAD();
			sl = hc_unhex(w[2], &src);
			if (sl < 0) BAD();
			if ((unsigned long)sl > LIMIT) { free(src); BAD(); }
			release(i);
			/* exact-size block (hc_unhex gives 1 byte for the empty string: shrink) */
			own[i] = malloc(sl);
			memcpy(own[i], src, sl);
			free(src);
			mbuf_init_fixed_reader(&mb[i], own[i], sl);
			render(true, 0, NULL, 0, i, -1, false);
		} else if (!strcmp(w[0], "initw") && n == 4) {
			unsigned k;
			if (!p_slot(w[1], &i) || !p_u32(w[2], &len) || !p_u8(w[3], &seed)) BAD();
			if (len > LIMIT) BAD();
			release(i);
			own[i] = malloc(len);
			for (k = 0; k < len; k++) own[i][k] = pat(seed, k);
			mbuf_init_fixed_writer(&mb[i], own[i], len);
			render(true, 0, NULL, 0, i, -1, false);
		} else if (!strcmp(w[0], "initd") && n == 2) {
			if (!p_slot(w[1], &i)) BAD();
			release(i);
			mbuf_init_dynamic(&mb[i]);
			render(true, 0, NULL, 0, i, -1, false);
		} else if (!strcmp(w[0], "free") && n == 2) {
			if (!p_slot(w[1], &i)) BAD();
			mbuf_free(&mb[i]);
			if (own[i]) { free(own[i]); own[i] = NULL; }
			render(true, 0, NULL, 0, i, -1, false);
		} else if (!strcmp(w[0], "rewr") && n == 2) {
			if (!p_slot(w[1], &i)) BAD();
			mbuf_rewind_reader(&mb[i]);
			render(true, 0, NULL, 0, i, -1, false);
		} else if (!strcmp(w[0], "reww") && n == 2) {
			if (!p_slot(w[1], &i)) BAD();
			mbuf_rewind_writer(&mb[i]);
			render(true, 0, NULL, 0, i, -1, false);
		} else if (!strcmp(w[0], "availr") && n == 2) {
			if (!p_slot(w[1], &i)) BAD();
			render(true, mbuf_avail_for_read(&mb[i]), NULL, 0, i, -1, false);
		} else if (!strcmp(w[0], "availw") && n == 2) {
			if (!p_slot(w[1], &i)) BAD();
			render(true, mbuf_avail_for_write(&mb[i]), NULL, 0, i, -1, !mb[i].fixed);
		} else if (!strcmp(w[0], "written") && n == 2) {
			if (!p_slot(w[1], &i)) BAD();
			render(true, mbuf_written(&mb[i]), NULL, 0, i, -1, false);
		} else if (!strcmp(w[0], "consumed") && n == 2) {
			if (!p_slot(w[1], &i)) BAD();
			render(true, mbuf_consumed(&mb[i]), NULL, 0, i, -1, false);
		} else if (!strcmp(w[0], "eq") && n == 3) {
			if (!p_slot(w[1], &i) || !p_slot(w[2], &j)) BAD();
			render(mbuf_eq(&mb[i], &mb[j]), 0, NULL, 0, i, j, false);
		} else if (!strcmp(w[0], "eqstr") && n == 3) {
			char *z;
			bool ok;
			if (!p_slot(w[1], &i)) BAD();
			sl = hc_unhex(w[2], &src);
			if (sl < 0) BAD();
			if (memchr(src, 0, sl)) { free(src); BAD(); }
			z = malloc(sl + 1);
			memcpy(z, src, sl);
			z[sl] = 0;
			free(src);
			ok = mbuf_eq_str(&mb[i], z);
			free(z);
			render(ok, 0, NULL, 0, i, -1, false);
		} else if (!strcmp(w[0], "getb") && n == 2) {
			uint8_t x = 0;
			bool ok;
			if (!p_slot(w[1], &i)) BAD();
			ok = mbuf_get_byte(&mb[i], &x);
			render(ok, ok ? x : 0, &x, ok ? 1 : 0, i, -1, false);
		} else if (!strcmp(w[0], "getc") && n == 2) {
			char x = 0;
			bool ok;
			if (!p_slot(w[1], &i)) BAD();
			ok = mbuf_get_char(&mb[i], &x);
			render(ok, ok ? (uint8_t)x : 0, (uint8_t *)&x, ok ? 1 : 0, i, -1, false);
		} else if (!strcmp(w[0], "get16") && n == 2) {
			uint16_t x = 0;
			unsigned rp;
			bool ok;
			if (!p_slot(w[1], &i)) BAD();
			rp = mb[i].read_pos;
			ok = mbuf_get_uint16be(&mb[i], &x);
			render(ok, ok ? x : 0, mb[i].data + rp, ok ? 2 : 0, i, -1, false);
		} else if (!strcmp(w[0], "get32") && n == 2) {
			uint32_t x = 0;
			unsigned rp;
			bool ok;
			if (!p_slot(w[1], &i)) BAD();
			rp = mb[i].read_pos;
			ok = mbuf_get_uint32be(&mb[i], &x);
			render(ok, ok ? x : 0, mb[i].data + rp, ok ? 4 : 0, i, -1, false);
		} else if (!strcmp(w[0], "get64") && n == 2) {
			uint64_t x = 0;
			unsigned rp;
			bool ok;
			if (!p_slot(w[1], &i)) BAD();
			rp = mb[i].read_pos;
			ok = mbuf_get_uint64be(&mb[i], &x);
			render(ok, ok ? x : 0, mb[i].data + rp, ok ? 8 : 0, i, -1, false);
		} else if ((!strcmp(w[0], "getn") || !strcmp(w[0], "getcs")) && n == 3) {
			const uint8_t *p = NULL;
			bool ok;
			if (!p_slot(w[1], &i) || !p_u32(w[2], &len)) BAD();
			if (w[0][3] == 'n')
				ok = mbuf_get_bytes(&mb[i], len, &p);
			else
				ok = mbuf_get_chars(&mb[i], len, (const char **)&p);
			/* the delivered pointer is dereferenced over the full promised length */
			render(ok, ok ? (unsigned long long)(p - mb[i].data) : 0, p, ok ? len : 0, i, -1, false);
		} else if (!strcmp(w[0], "getstr") && n == 2) {
			const char *p = NULL;
			bool ok;
			if (!p_slot(w[1], &i)) BAD();
			ok = mbuf_get_string(&mb[i], &p);
			render(ok, ok ? (unsigned long long)((const uint8_t *)p - mb[i].data) : 0,
			       (const uint8_t *)p, ok ? strlen(p) : 0, i, -1, false);
		} else if (!strcmp(w[0], "room") && n == 4) {
			bool ok;
			if (!p_slot(w[1], &i) || !p_u32(w[2], &len) || !p_ora(w[3])) BAD();
			cur = i;
			ok = mbuf_make_room(&mb[i], len);
			render(ok, 0, NULL, 0, i, -1, false);
		} else if (!strcmp(w[0], "wbyte") && n == 4) {
			bool ok;
			if (!p_slot(w[1], &i) || !p_u8(w[2], &v) || !p_ora(w[3])) BAD();
			cur = i;
			ok = mbuf_write_byte(&mb[i], v);
			render(ok, 0, NULL, 0, i, -1, false);
		} else if (!strcmp(w[0], "write") && n == 4) {
			uint8_t *ex;
			bool ok;
			if (!p_slot(w[1], &i) || !p_ora(w[3])) BAD();
			sl = hc_unhex(w[2], &src);
			if (sl < 0) BAD();
			ex = malloc(sl);
			memcpy(ex, src, sl);
			free(src);
			cur = i;
			ok = mbuf_write(&mb[i], ex, sl);
			free(ex);
			render(ok, 0, NULL, 0, i, -1, false);
		} else if (!strcmp(w[0], "writen") && n == 5) {
			/* pattern source of exactly `len` bytes when len <= 2*LIMIT; for larger
			 * lengths (which no buffer of this harness can take) a 1-byte block:
			 * a tree that accepts such a write reads beyond it -> ASan */
			uint8_t *ex;
			unsigned k, cap;
			bool ok;
			if (!p_slot(w[1], &i) || !p_u32(w[2], &len) || !p_u8(w[3], &seed) || !p_ora(w[4])) BAD();
			cap = len <= 2 * LIMIT ? len : 1;
			ex = malloc(cap);
			for (k = 0; k < cap; k++) ex[k] = pat(seed, k);
			cur = i;
			ok = mbuf_write(&mb[i], ex, len);
			free(ex);
			render(ok, 0, NULL, 0, i, -1, false);
		} else if (!strcmp(w[0], "fill") && n == 5) {
			bool ok;
			if (!p_slot(w[1], &i) || !p_u8(w[2], &v) || !p_u32(w[3], &len) || !p_ora(w[4])) BAD();
			cur = i;
			ok = mbuf_fill(&mb[i], v, len);
			render(ok, 0, NULL, 0, i, -1, false);
		} else if (!strcmp(w[0], "wraw") && n == 4) {
			bool ok;
			if (!p_slot(w[1], &i) || !p_slot(w[2], &j) || !p_ora(w[3])) BAD();
			if (i == j) {
				/* not allowed by the API (source may be freed by realloc) */
				render(false, 0, NULL, 0, i, -1, false);
			} else {
				cur = i;
				ok = mbuf_write_raw_mbuf(&mb[i], &mb[j]);
				render(ok, 0, NULL, 0, i, j, false);
			}
		} else if (!strcmp(w[0], "wmbuf") && n == 5) {
			bool ok;
			if (!p_slot(w[1], &i) || !p_slot(w[2], &j) || !p_u32(w[3], &len) || !p_ora(w[4])) BAD();
			if (i == j) {
				render(false, 0, NULL, 0, i, -1, false);
			} else {
				cur = i;
				ok = mbuf_write_mbuf(&mb[i], &mb[j], len);
				render(ok, 0, NULL, 0, i, j, false);
			}
		} else if (!strcmp(w[0], "cut") && n == 4) {
			bool ok;
			if (!p_slot(w[1], &i) || !p_u32(w[2], &ofs) || !p_u32(w[3], &len)) BAD();
			ok = mbuf_cut(&mb[i], ofs, len);
			render(ok, 0, NULL, 0, i, -1, false);
		} else if (!strcmp(w[0], "copy") && n == 3) {
			/* copy <src> <dst> */
			if (!p_slot(w[1], &i) || !p_slot(w[2], &j)) BAD();
			if (i != j) {
				release(j);
				mbuf_copy(&mb[i], &mb[j]);
				if (mb[j].data != mb[i].data) {
					puts("copy-pointer-differs");
					goto next;
				}
				if (mb[j].data) {
					uint8_t *p = malloc(mb[j].alloc_len);
					memcpy(p, mb[i].data, mb[j].alloc_len);
					mb[j].data = p;
					if (mb[j].fixed) own[j] = p;
				}
			} else {
				mbuf_copy(&mb[i], &mb[j]);
			}
			render(true, 0, NULL, 0, i, j, false);
		} else if (!strcmp(w[0], "slice") && n == 4) {
			/* slice <src> <len> <dst> */
			struct MBuf d;
			uint8_t *olddata, *p = NULL;
			unsigned long long off = 0;
			bool ok;
			if (!p_slot(w[1], &i) || !p_u32(w[2], &len) || !p_slot(w[3], &j)) BAD();
			olddata = mb[i].data;
			if (i != j) {
				d = mb[j];
				ok = mbuf_slice(&mb[i], len, &d);
				if (!ok) {
					if (memcmp(&d, &mb[j], sizeof(d)) != 0) {
						puts("slice-failed-but-dst-changed");
						goto next;
					}
					render(false, 0, NULL, 0, i, j, false);
				} else {
					off = d.data - olddata;
					if (d.data) {
						/* dereference the slice over its full length */
						p = malloc(d.write_pos);
						memcpy(p, d.data, d.write_pos);
					}
					release(j);
					mb[j] = d;
					mb[j].data = p;
					own[j] = p;
					render(true, off, p, p ? d.write_pos : 0, i, j, false);
				}
			} else {
				uint8_t *oldown = own[i];
				bool wasdyn = !mb[i].fixed;
				ok = mbuf_slice(&mb[i], len, &mb[i]);
				if (!ok) {
					render(false, 0, NULL, 0, i, -1, false);
				} else {
					off = mb[i].data - olddata;
					if (mb[i].data) {
						p = malloc(mb[i].write_pos);
						memcpy(p, mb[i].data, mb[i].write_pos);
					}
					if (oldown) free(oldown);
					else if (wasdyn && olddata) free(olddata);
					mb[i].data = p;
					own[i] = p;
					render(true, off, p, p ? mb[i].write_pos : 0, i, -1, false);
				}
			}
		} else {
			BAD();
		}
next:
		fflush(stdout);
	}
	return 0;
}
