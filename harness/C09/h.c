/* C09 harness: runs op lines against the real allocators of libusual (compiled from the working
 * tree by #include of the .c files, so static functions and private structs are reachable) on
 * top of the tracking base allocator `trkm` (harness/common/trkcx.h), and prints one line per op:
 *     observable ## internal
 * observable = what the property pins: block aligned as requested (al), inside memory obtained
 * from the base allocator (in), disjoint from every other live block (dj), contents of every
 * live block intact / realloc kept the first min(old,new) bytes / slab object initialised (ct);
 * after a destroy: number of base regions still live (every region returned exactly once; a
 * double free aborts inside trkm).  internal = exact address of the block as `R<region>+<offset>`
 * and the number of live base regions.  The model driver (lean/Driver/C09.lean) prints the same. */
#define USE_INTERNAL_REGEX 1      /* usual/regex.c keeps its mempool handle inside the pool (rx op) */
#include <usual/base.h>
#include <usual/cxalloc.h>
#include "hcommon.h"
#include "trkcx.h"

/* ---- the code under test ------------------------------------------------------------------ */
#include "usual/cxextra.c"
#include "usual/slab.c"

static void *h_calloc(size_t n, size_t s)
{
	void *p = trkm_alloc(NULL, n * s);
	if (p) memset(p, 0, n * s);
	return p;
}
static void h_free(void *p) { trkm_free(NULL, p); }
#define calloc(n, s) h_calloc(n, s)
#define free(p) h_free(p)
#include "usual/mempool.c"
#undef calloc
#undef free
/* the internal regex engine: its only use of the mempool goes to the copy included above (base
 * allocator = trkm); regcomp stores the pool handle inside the pool's first block */
#include "usual/regex.c"

/* reallocarray of usual/base.c (the platform has its own, so it is renamed) with `realloc`
 * replaced by a spy that records the byte count */
static size_t spy_req; static int spy_called;
static void *h_spy_realloc(void *p, size_t n) { spy_called = 1; spy_req = n; return (void *)&spy_req; }
#undef HAVE_REALLOCARRAY
#define reallocarray usual_reallocarray
#define realloc(p, n) h_spy_realloc(p, n)
void *usual_reallocarray(void *p, size_t count, size_t size);
#include "usual/base.c"
#undef realloc
#undef reallocarray

#include "usual/talloc.c"

/* spy CxMem for talloc_array: records the request, serves it from malloc */
static void *spy_alloc(void *ctx, size_t n) { spy_called = 1; spy_req = n; return malloc(n); }
static void *spy_realloc(void *ctx, void *p, size_t n) { spy_called = 1; spy_req = n; return realloc(p, n); }
static void spy_free(void *ctx, void *p) { free(p); }
static const struct CxOps spy_ops = { spy_alloc, spy_realloc, spy_free, NULL };
static const struct CxMem spy_cx = { &spy_ops, NULL };

/* ---- world --------------------------------------------------------------------------------- */
enum { K_NONE, K_TRK, K_TALLOC, K_TREE, K_POOL, K_SLAB, K_MP };
#define NSLOT 64
#define NBLK 1024
struct Slot {
	int kind;
	CxMem *cx;
	int parent;          /* pool/slab: parent slot; root tree: real slot */
	int tparent;         /* tree: slot of the tree it is registered at, or -1 */
	void *buf;           /* pool from area with allow_free=0: buffer owned by the harness */
	void *troot;         /* talloc: root object */
	struct Slab *slab;
	struct MemPool *mp;
	unsigned objsize, align;
	int init;
	unsigned palign;     /* pool: effective alignment */
};
static struct Slot slots[NSLOT];
struct Blk { int live, slot; unsigned char *ptr; size_t len; unsigned fill; };
static struct Blk blks[NBLK];
static unsigned fillgen;

static int nfreed;   /* slab objects given back (see struct Freed below) */

static void world_reset(void)
{
	/* drop everything without calling into the allocators (their memory goes with trkm) */
	memset(slots, 0, sizeof slots);
	memset(blks, 0, sizeof blks);
	nfreed = 0;
	trkm_reset();
	trk_reset();
	slots[0].kind = K_TRK;
	slots[0].cx = (CxMem *)&trkm_cx;
	fillgen = 0;
	/* slab.c keeps a global list of slabs: forget those whose memory is gone */
	statlist_init(&slab_list, "slab_list");
}

static int parse_u(const char *s, unsigned long long *out)
{
	char *e;
	if (!*s || *s == '-' || *s == '+') return 0;
	errno = 0;
	*out = strtoull(s, &e, 10);
	return !*e && errno == 0;
}

#define BIGBLK (1u << 16)
static unsigned char pat(unsigned fill, size_t j) { return (unsigned char)(fill * 31 + j * 7 + (j >> 8)); }
static void fill_blk(struct Blk *b)
{
	size_t j;
	if (b->len <= BIGBLK) { for (j = 0; j < b->len; j++) b->ptr[j] = pat(b->fill, j); return; }
	for (j = 0; j < 4096; j++) { b->ptr[j] = pat(b->fill, j); b->ptr[b->len - 1 - j] = pat(b->fill, b->len - 1 - j); }
}
static int check_range(const unsigned char *p, unsigned fill, size_t len, size_t upto)
{
	size_t j;
	if (len <= BIGBLK) { for (j = 0; j < upto; j++) if (p[j] != pat(fill, j)) return 0; return 1; }
	for (j = 0; j < 4096 && j < upto; j++) if (p[j] != pat(fill, j)) return 0;
	for (j = 0; j < 4096; j++) if (len - 1 - j < upto && p[len - 1 - j] != pat(fill, len - 1 - j)) return 0;
	return 1;
}
/* contents of every live block still as written */
static int check_all(void)
{
	int i;
	for (i = 0; i < NBLK; i++)
		if (blks[i].live && !check_range(blks[i].ptr, blks[i].fill, blks[i].len, blks[i].len))
			return 0;
	return 1;
}
static int disjoint_from_others(int self, const unsigned char *p, size_t n)
{
	int i;
	for (i = 0; i < NBLK; i++) {
		if (!blks[i].live || i == self || !blks[i].len || !n) continue;
		if (p < blks[i].ptr + blks[i].len && blks[i].ptr < p + n) return 0;
	}
	return 1;
}
static void put_addr(const void *p, size_t n)
{
	long i = trkm_find(p, 0);
	if (i < 0) { printf("R?+0"); return; }
	printf("R%ld+%zu", trkm_regs[i].seq, (size_t)((const unsigned char *)p - trkm_regs[i].user) + trkm_regs[i].mis);
}
static void out_block(int bi, void *p, size_t len, size_t align, int ct)
{
	int al = 1, in = 1, dj = 1;
	if (p) {
		al = align ? ((uintptr_t)p % align == 0) : 1;
		in = trkm_find(p, len) >= 0;
		dj = disjoint_from_others(bi, p, len);
	}
	printf("al=%d in=%d dj=%d ct=%d ## ", al, in, dj, ct);
	if (p) put_addr(p, len); else printf("null");
	printf(" live=%ld\n", trkm_live);
}

static int ok_parent(int s)
{
	if (s < 0 || s >= NSLOT) return 0;
	switch (slots[s].kind) {
	case K_TRK: case K_TALLOC: case K_TREE: return 1;
	case K_POOL: return slots[s].palign % 8 == 0;
	}
	return 0;
}
static int is_cx(int s)
{
	if (s < 0 || s >= NSLOT) return 0;
	return slots[s].kind == K_TRK || slots[s].kind == K_TALLOC || slots[s].kind == K_TREE || slots[s].kind == K_POOL;
}
static int align_arg_ok(unsigned long long a) { return a == 0 || (a < (1ULL << 32) && is_power_of_2((unsigned)a)); }

/* is slot i inside the tree rooted at slot s (or s itself)? */
static int in_destroy_set(int s, int i)
{
	if (i == s) return 1;
	if (slots[s].kind != K_TREE) return 0;
	while (i >= 0 && slots[i].kind == K_TREE) {
		if (i == s) return 1;
		i = slots[i].tparent;
	}
	return 0;
}
static int parent_of(int i)
{
	switch (slots[i].kind) {
	case K_POOL: case K_SLAB: return slots[i].parent;
	case K_TREE: return slots[i].tparent < 0 ? slots[i].parent : -1;
	}
	return -1;
}
static int can_destroy(int s)
{
	int i;
	for (i = 0; i < NSLOT; i++) {
		if (slots[i].kind == K_NONE || in_destroy_set(s, i)) continue;
		if (parent_of(i) >= 0 && in_destroy_set(s, parent_of(i))) return 0;
	}
	return 1;
}

/* slab objects given back with slab_free: address and the fill pattern the client left in them
 * ("init func gets either zeroed obj or old obj from _free()") */
struct Freed { int slot; unsigned char *ptr; unsigned fill; };
static struct Freed freed[NBLK];
static void freed_drop_slot(int s)
{
	int i, k = 0;
	for (i = 0; i < nfreed; i++) if (freed[i].slot != s) freed[k++] = freed[i];
	nfreed = k;
}
/* the part of a slab object behind its struct List: zero when never used, else as left at slab_free */
static int slab_tail_ok(int s, const unsigned char *p, size_t len)
{
	int i; size_t j;
	for (i = nfreed - 1; i >= 0; i--)
		if (freed[i].slot == s && freed[i].ptr == p) {
			unsigned fill = freed[i].fill;
			freed[i] = freed[--nfreed];
			for (j = sizeof(struct List); j < len; j++) if (p[j] != pat(fill, j)) return 0;
			return 1;
		}
	for (j = sizeof(struct List); j < len; j++) if (p[j]) return 0;
	return 1;
}

static int init_calls; static void *init_arg;
static void slab_init_cb(void *obj)
{
	init_calls++;
	init_arg = obj;
}

static uint64_t mix(uint64_t h, uint64_t v) { return (h ^ v) * 0x100000001b3ULL; }

#define SM_CASE(name, type, fn) \
	if (!strcmp(t, name)) { type r = 0; bool ok = fn(&r, (type)a, (type)b); *res = r; return ok; }
static int sm_width(const char *t)
{
	if (!strcmp(t, "u8")) return 8;
	if (!strcmp(t, "u16")) return 16;
	if (!strcmp(t, "u32") || !strcmp(t, "uint")) return 32;
	if (!strcmp(t, "u64") || !strcmp(t, "ulong") || !strcmp(t, "size")) return 64;
	return 0;
}
#define SM_RANGE(fname, type, fn) \
static uint64_t fname(unsigned long long alo, unsigned long long ahi, unsigned long long blo, unsigned long long bhi) \
{ \
	unsigned long long a, b; uint64_t h = HC_FNV_INIT; \
	for (a = alo; a < ahi; a++) \
		for (b = blo; b < bhi; b++) { \
			type r = 0; \
			h = mix(h, fn(&r, (type)a, (type)b) ? 2 * (uint64_t)r + 1 : 0); \
		} \
	return h; \
}
SM_RANGE(smr_u8, uint8_t, safe_mul_uint8)
SM_RANGE(smr_u16, uint16_t, safe_mul_uint16)
SM_RANGE(smr_u32, uint32_t, safe_mul_uint32)
SM_RANGE(smr_uint, unsigned int, safe_mul_uint)

static bool sm_call(const char *t, unsigned long long a, unsigned long long b, unsigned long long *res)
{
	SM_CASE("u8", uint8_t, safe_mul_uint8)
	SM_CASE("u16", uint16_t, safe_mul_uint16)
	SM_CASE("u32", uint32_t, safe_mul_uint32)
	SM_CASE("uint", unsigned int, safe_mul_uint)
	SM_CASE("u64", uint64_t, safe_mul_uint64)
	SM_CASE("ulong", unsigned long, safe_mul_ulong)
	SM_CASE("size", size_t, safe_mul_size)
	*res = 0;
	return false;
}

#include <signal.h>
#include <unistd.h>
/* keep the lines already produced when a sanitizer (or abort) ends the process */
#if defined(__SANITIZE_ADDRESS__)
void __sanitizer_set_death_callback(void (*cb)(void));
#endif
static void flush_out(void) { fflush(stdout); }
static void on_abort(int sig) { fflush(stdout); signal(SIGABRT, SIG_DFL); raise(SIGABRT); }

static void on_alarm(int sig)
{
	static const char msg[] = "HANG operation did not return within 30 s\n";
	fflush(stdout);
	if (write(1, msg, sizeof msg - 1) < 0) _exit(4);
	_exit(3);
}

/* ---- bulk ops: n allocations in one call, summary instead of one line per block ----------- */
static int cmp_ptr(const void *a, const void *b)
{
	const unsigned char *x = *(unsigned char *const *)a, *y = *(unsigned char *const *)b;
	return x < y ? -1 : x > y;
}
struct BulkSum { unsigned long long cnt; int al, in, dj, ct; uint64_t h; };
static void bulk_init(struct BulkSum *b) { b->cnt = 0; b->al = b->in = b->dj = b->ct = 1; b->h = HC_FNV_INIT; }
/* register one returned block: alignment, inside a live base region, hash of its address as the
 * model numbers it ((region+1) * 2^40 + offset); fill it completely with a per-block pattern */
static void bulk_add(struct BulkSum *b, unsigned char *p, size_t len, size_t align)
{
	long i = trkm_find(p, len);
	size_t j;
	if (align && (uintptr_t)p % align) b->al = 0;
	if (i < 0) { b->in = 0; i = trkm_find(p, 0); }
	if (i >= 0)
		b->h = mix(b->h, ((uint64_t)(trkm_regs[i].seq + 1) << 40) + (uint64_t)(p - trkm_regs[i].user) + trkm_regs[i].mis);
	else
		b->h = mix(b->h, 0);
	if (b->in)
		for (j = 0; j < len; j++) p[j] = pat((unsigned)b->cnt, j);
	b->cnt++;
}
/* after all allocations: pairwise disjoint (sorted by address), disjoint from the blocks tracked
 * one by one, and every block still holds its pattern */
static void bulk_finish(struct BulkSum *b, unsigned char **ptrs, size_t len)
{
	unsigned long long i; size_t j; int k;
	unsigned char **sorted;
	if (b->in)
		for (i = 0; i < b->cnt; i++)
			for (j = 0; j < len; j++) if (ptrs[i][j] != pat((unsigned)i, j)) { b->ct = 0; i = b->cnt; break; }
	sorted = malloc((b->cnt + 1) * sizeof *sorted);
	memcpy(sorted, ptrs, b->cnt * sizeof *sorted);
	qsort(sorted, b->cnt, sizeof *sorted, cmp_ptr);
	for (i = 1; i < b->cnt; i++) if (len && sorted[i - 1] + len > sorted[i]) { b->dj = 0; break; }
	for (k = 0; k < NBLK && b->cnt && len; k++) {
		unsigned long long lo = 0, hi = b->cnt;
		if (!blks[k].live || !blks[k].len) continue;
		while (lo < hi) { unsigned long long mid = (lo + hi) / 2; if (sorted[mid] < blks[k].ptr) lo = mid + 1; else hi = mid; }
		if (lo < b->cnt && sorted[lo] < blks[k].ptr + blks[k].len) b->dj = 0;
		if (lo > 0 && sorted[lo - 1] + len > blks[k].ptr) b->dj = 0;
	}
	free(sorted);
	if (!check_all()) b->ct = 0;
	printf("n=%llu al=%d in=%d dj=%d ct=%d ## h=%llu live=%ld\n", b->cnt, b->al, b->in, b->dj, b->ct,
	       (unsigned long long)b->h, trkm_live);
}

#define BAD do { puts("bad-op"); goto next; } while (0)
#define U(i, var) unsigned long long var; if (!parse_u(w[i], &var)) BAD

int main(void)
{
	char *line;
	int fail_pending = 0;
	setvbuf(stdout, NULL, _IOFBF, 1 << 16);
	signal(SIGALRM, on_alarm);
	signal(SIGABRT, on_abort);
#if defined(__SANITIZE_ADDRESS__)
	__sanitizer_set_death_callback(flush_out);
#endif
	world_reset();
	while ((line = hc_line()) != NULL) {
		char *w[10];
		int n = hc_words(line, w, 10);
		alarm(30);
		/* `failnext`: the next request to the base allocator made by the NEXT op line fails */
		if (n == 1 && !strcmp(w[0], "failnext")) { fail_pending = 1; puts("ok"); goto next; }
		if (fail_pending && !(n >= 1 && !strcmp(w[0], "talloc")))
			trk_fail_at = trk_requests + 1;
		fail_pending = 0;
		if (n == 1 && !strcmp(w[0], "#case")) { world_reset(); puts("#case"); goto next; }
		if (n == 1 && !strcmp(w[0], "sizes")) {
			printf("sizes ## pool=%zu seg=%zu tree=%zu item=%d slab=%zu frag=%zu mp=%zu th=%zu\n",
			       sizeof(struct CxPool), (size_t)POOL_HDR, sizeof(struct CxTree), TREE_HDR,
			       sizeof(struct Slab), sizeof(struct SlabFrag), sizeof(struct MemPool), (size_t)THSIZE);
			goto next;
		}
		if (n == 6 && !strcmp(w[0], "pool")) {
			U(1, s); U(2, par); U(3, ini); U(4, al); U(5, mis);
			CxMem *p;
			if (s >= NSLOT || slots[s].kind || !ok_parent(par) || !align_arg_ok(al)) BAD;
			trkm_next_mis = mis;
			p = cx_new_pool(slots[par].cx, ini, al);
			if (p) {
				slots[s].kind = K_POOL; slots[s].cx = p; slots[s].parent = par; slots[s].buf = NULL;
				slots[s].palign = al ? al : 8;
				printf("ok ## live=%ld\n", trkm_live);
			} else
				printf("ok ## null live=%ld\n", trkm_live);
			goto next;
		}
		if (n == 8 && !strcmp(w[0], "area")) {
			U(1, s); U(2, par); U(3, bsz); U(4, boff); U(5, af); U(6, al); U(7, mis);
			unsigned char *buf; CxMem *p;
			if (s >= NSLOT || slots[s].kind || !ok_parent(par) || !align_arg_ok(al) || af > 1 || boff % 8
			    || (af == 1 && boff) || bsz + boff == 0) BAD;
			trkm_next_mis = mis;
			buf = cx_alloc(slots[par].cx, boff + bsz);
			if (!buf) { printf("ok ## null live=%ld\n", trkm_live); goto next; }
			p = cx_new_pool_from_area(slots[par].cx, buf + boff, bsz, af == 1, al);
			if (p) {
				slots[s].kind = K_POOL; slots[s].cx = p; slots[s].parent = par;
				slots[s].buf = af ? NULL : buf;
				slots[s].palign = al ? al : 8;
				printf("ok ## live=%ld\n", trkm_live);
			} else {
				cx_free(slots[par].cx, buf);
				printf("ok ## null live=%ld\n", trkm_live);
			}
			goto next;
		}
		if (n == 4 && !strcmp(w[0], "tree")) {
			U(1, s); U(2, par); U(3, mis);
			CxMem *t;
			if (s >= NSLOT || slots[s].kind || !ok_parent(par)) BAD;
			trkm_next_mis = mis;
			t = cx_new_tree(slots[par].cx);
			if (t) {
				slots[s].kind = K_TREE; slots[s].cx = t;
				if (slots[par].kind == K_TREE) { slots[s].tparent = par; slots[s].parent = -1; }
				else { slots[s].tparent = -1; slots[s].parent = par; }
				printf("ok ## live=%ld\n", trkm_live);
			} else
				printf("ok ## null live=%ld\n", trkm_live);
			goto next;
		}
		if (n == 3 && !strcmp(w[0], "talloc")) {
			U(1, s); U(2, mis);
			if (s >= NSLOT || slots[s].kind) BAD;
			trkm_next_mis = mis;
			slots[s].troot = talloc_from_cx(&trkm_cx, 0, "c09root");
			slots[s].cx = (CxMem *)talloc_as_cx(slots[s].troot, NULL);
			slots[s].kind = K_TALLOC;
			printf("ok ## live=%ld\n", trkm_live);
			goto next;
		}
		if (n == 5 && !strcmp(w[0], "a")) {
			U(1, s); U(2, b); U(3, size); U(4, mis);
			void *p;
			if (!is_cx(s) || b >= NBLK || blks[b].live) BAD;
			trkm_next_mis = mis;
			p = cx_alloc(slots[s].cx, size);
			{
				int ct = check_all();
				if (p) {
					blks[b].live = 1; blks[b].slot = s; blks[b].ptr = p; blks[b].len = size; blks[b].fill = ++fillgen;
				}
				out_block(b, p, size, slots[s].kind == K_POOL ? slots[s].palign : 0, ct);
				if (p && trkm_find(p, size) >= 0) fill_blk(&blks[b]);
				else if (p) blks[b].len = 0;
			}
			goto next;
		}
		if (n == 5 && !strcmp(w[0], "r")) {
			U(1, s); U(2, b); U(3, size); U(4, mis);
			void *p; int ct; size_t keep; unsigned ofill; size_t olen;
			if (b >= NBLK || !blks[b].live || blks[b].slot != (int)s || !is_cx(s)) BAD;
			trkm_next_mis = mis;
			ofill = blks[b].fill; olen = blks[b].len;
			blks[b].live = 0;           /* not part of the others while it moves */
			p = cx_realloc(slots[s].cx, blks[b].ptr, size);
			ct = check_all();
			if (p) {
				keep = size < olen ? size : olen;
				if (trkm_find(p, size) >= 0) {
					if (!check_range(p, ofill, olen, olen <= BIGBLK ? keep : (keep < 4096 ? keep : 4096))) ct = 0;
				}
				blks[b].live = 1; blks[b].ptr = p; blks[b].len = size; blks[b].fill = ++fillgen;
				out_block(b, p, size, slots[s].kind == K_POOL ? slots[s].palign : 0, ct);
				if (trkm_find(p, size) >= 0) fill_blk(&blks[b]); else blks[b].len = 0;
			} else {
				if (size != 0) blks[b].live = 1;    /* failed: block unchanged */
				out_block(b, NULL, 0, 0, ct);
			}
			goto next;
		}
		if (n == 3 && !strcmp(w[0], "f")) {
			U(1, s); U(2, b);
			if (b >= NBLK || !blks[b].live || blks[b].slot != (int)s || !is_cx(s)) BAD;
			blks[b].live = 0;
			cx_free(slots[s].cx, blks[b].ptr);
			printf("al=1 in=1 dj=1 ct=%d ## - live=%ld\n", check_all(), trkm_live);
			goto next;
		}
		if (n == 2 && !strcmp(w[0], "freenull")) {
			/* cx_free(cx, NULL) is a no-op for every allocator: cx_free() filters NULL, no c_free sees it */
			if (!strcmp(w[1], "libc")) {
				cx_free(&cx_libc_allocator, NULL);
				cx_free(NULL, NULL);
				puts("ok");
				goto next;
			}
			{
				U(1, s);
				if (!is_cx(s)) BAD;
				cx_free(slots[s].cx, NULL);
				puts("ok");
			}
			goto next;
		}
		if (n == 2 && !strcmp(w[0], "d")) {
			U(1, s);
			int i; char dset[NSLOT];
			if (s >= NSLOT || slots[s].kind == K_NONE || slots[s].kind == K_TRK || !can_destroy(s)) BAD;
			for (i = 0; i < NSLOT; i++)
				dset[i] = slots[i].kind != K_NONE && in_destroy_set(s, i);
			for (i = 0; i < NBLK; i++)
				if (blks[i].live && dset[blks[i].slot]) blks[i].live = 0;
			switch (slots[s].kind) {
			case K_TALLOC:
				cx_destroy(slots[s].cx);
				talloc_free(slots[s].troot);
				break;
			case K_POOL:
				cx_destroy(slots[s].cx);
				if (slots[s].buf) cx_free(slots[slots[s].parent].cx, slots[s].buf);
				break;
			case K_TREE:
				cx_destroy(slots[s].cx);
				break;
			case K_SLAB:
				slab_destroy(slots[s].slab);
				freed_drop_slot(s);
				break;
			case K_MP:
				mempool_destroy(&slots[s].mp);
				break;
			}
			for (i = 0; i < NSLOT; i++)
				if (dset[i]) memset(&slots[i], 0, sizeof slots[i]);
			printf("live=%ld ct=%d ## -\n", trkm_live, check_all());
			goto next;
		}
		if (n == 7 && !strcmp(w[0], "slab")) {
			U(1, s); U(2, par); U(3, osz); U(4, al); U(5, ini); U(6, mis);
			struct Slab *sl;
			if (s >= NSLOT || slots[s].kind || !ok_parent(par) || osz >= (1ULL << 32) || al >= (1ULL << 32) || ini > 1
			    || !(al < 8 || is_power_of_2((unsigned)al))) BAD;
			trkm_next_mis = mis;
			sl = slab_create("c09", osz, al, ini ? slab_init_cb : NULL, slots[par].cx);
			if (sl) {
				slots[s].kind = K_SLAB; slots[s].slab = sl; slots[s].parent = par;
				slots[s].objsize = osz; slots[s].align = al; slots[s].init = ini;
				printf("ok ## live=%ld\n", trkm_live);
			} else
				printf("ok ## null live=%ld\n", trkm_live);
			goto next;
		}
		if (n == 4 && !strcmp(w[0], "sa")) {
			U(1, s); U(2, b); U(3, mis);
			unsigned char *p; int ct; size_t j;
			if (s >= NSLOT || slots[s].kind != K_SLAB || b >= NBLK || blks[b].live) BAD;
			trkm_next_mis = mis;
			init_calls = 0; init_arg = NULL;
			p = slab_alloc(slots[s].slab);
			ct = check_all();
			if (p && trkm_find(p, slots[s].objsize) >= 0) {
				if (slots[s].init) {
					if (init_calls != 1 || init_arg != p) ct = 0;
					if (slots[s].objsize <= BIGBLK && !slab_tail_ok(s, p, slots[s].objsize)) ct = 0;
				} else for (j = 0; j < slots[s].objsize; j++) if (p[j]) { ct = 0; break; }
			}
			if (p) { blks[b].live = 1; blks[b].slot = s; blks[b].ptr = p; blks[b].len = slots[s].objsize; blks[b].fill = ++fillgen; }
			out_block(b, p, slots[s].objsize, (slots[s].align == 16 && slots[s].parent == 0) ? 16 : 8, ct);
			if (p && trkm_find(p, slots[s].objsize) >= 0) fill_blk(&blks[b]); else if (p) blks[b].len = 0;
			goto next;
		}
		if (n == 4 && !strcmp(w[0], "sbulk")) {
			U(1, s); U(2, cnt); U(3, mis);
			struct BulkSum bs; unsigned char **ptrs; unsigned long long i; size_t j;
			if (s >= NSLOT || slots[s].kind != K_SLAB || cnt > 4000000) BAD;
			alarm(120);
			trkm_next_mis = mis;
			bulk_init(&bs);
			ptrs = malloc((cnt + 1) * sizeof *ptrs);
			for (i = 0; i < cnt; i++) {
				unsigned char *p;
				init_calls = 0; init_arg = NULL;
				p = slab_alloc(slots[s].slab);
				if (!p) continue;
				if (trkm_find(p, slots[s].objsize) >= 0) {
					if (slots[s].init) { if (init_calls != 1 || init_arg != p) bs.ct = 0; }
					else for (j = 0; j < slots[s].objsize; j++) if (p[j]) { bs.ct = 0; break; }
				}
				ptrs[bs.cnt] = p;
				bulk_add(&bs, p, slots[s].objsize, (slots[s].align == 16 && slots[s].parent == 0) ? 16 : 8);
			}
			bulk_finish(&bs, ptrs, slots[s].objsize);
			free(ptrs);
			goto next;
		}
		if (n == 5 && !strcmp(w[0], "abulk")) {
			U(1, s); U(2, cnt); U(3, size); U(4, mis);
			struct BulkSum bs; unsigned char **ptrs; unsigned long long i;
			if (s >= NSLOT || !(slots[s].kind == K_POOL || slots[s].kind == K_TREE || slots[s].kind == K_TALLOC)
			    || cnt > 4000000 || size >= (1ULL << 32) || size == 0) BAD;
			alarm(120);
			trkm_next_mis = mis;
			bulk_init(&bs);
			ptrs = malloc((cnt + 1) * sizeof *ptrs);
			for (i = 0; i < cnt; i++) {
				unsigned char *p = cx_alloc(slots[s].cx, size);
				if (!p) continue;
				ptrs[bs.cnt] = p;
				bulk_add(&bs, p, size, slots[s].kind == K_POOL ? slots[s].palign : 0);
			}
			bulk_finish(&bs, ptrs, size);
			free(ptrs);
			goto next;
		}
		if (n == 3 && !strcmp(w[0], "sf")) {
			U(1, s); U(2, b);
			if (s >= NSLOT || slots[s].kind != K_SLAB || b >= NBLK || !blks[b].live || blks[b].slot != (int)s) BAD;
			blks[b].live = 0;
			if (nfreed < NBLK) { freed[nfreed].slot = s; freed[nfreed].ptr = blks[b].ptr; freed[nfreed].fill = blks[b].fill; nfreed++; }
			slab_free(slots[s].slab, blks[b].ptr);
			printf("al=1 in=1 dj=1 ct=%d ## - live=%ld\n", check_all(), trkm_live);
			goto next;
		}
		if (n == 2 && !strcmp(w[0], "mp")) {
			U(1, s);
			if (s >= NSLOT || slots[s].kind) BAD;
			slots[s].kind = K_MP; slots[s].mp = NULL;
			printf("ok ## live=%ld\n", trkm_live);
			goto next;
		}
		if (n == 3 && !strcmp(w[0], "mdin")) {
			/* mempool_destroy(&handle) with the handle variable stored INSIDE block b of the pool */
			U(1, s); U(2, b);
			struct MemPool **hp; int i;
			if (s >= NSLOT || slots[s].kind != K_MP || b >= NBLK || !blks[b].live || blks[b].slot != (int)s
			    || blks[b].len < sizeof(struct MemPool *)) BAD;
			for (i = 0; i < NBLK; i++) if (blks[i].live && blks[i].slot == (int)s) blks[i].live = 0;
			hp = (struct MemPool **)blks[b].ptr;
			*hp = slots[s].mp;
			mempool_destroy(hp);
			memset(&slots[s], 0, sizeof slots[s]);
			printf("live=%ld ct=%d ## -\n", trkm_live, check_all());
			goto next;
		}
		if (n == 3 && !strcmp(w[0], "rx")) {
			/* regcomp + regexec + regfree of the internal regex: `reps` copies of a group; every
			 * mempool block it took from the base allocator must be back afterwards */
			U(1, reps); U(2, mis);
			long live0 = trkm_live, seq0 = trkm_seq; size_t j; char *pat_; regex_t rx; int rc;
			if (reps > 5000) BAD;
			trkm_next_mis = mis;
			pat_ = malloc(reps * 8 + 8); pat_[0] = 0;
			for (j = 0; j < reps; j++) strcat(pat_ + j * 7, "(ab|c)d");
			strcat(pat_, "e");
			rc = regcomp(&rx, pat_, REG_EXTENDED);
			if (rc == 0) { regmatch_t m[2]; regexec(&rx, "abdcde", 2, m, 0); regfree(&rx); }
			free(pat_);
			if (trkm_live == live0) trkm_seq = seq0;     /* nothing left: the model sees no base request */
			printf("ok ## live=%ld\n", trkm_live);
			goto next;
		}
		if (n == 5 && !strcmp(w[0], "ma")) {
			U(1, s); U(2, b); U(3, size); U(4, mis);
			void *p; int ct;
			if (s >= NSLOT || slots[s].kind != K_MP || b >= NBLK || blks[b].live || size >= (1ULL << 32)) BAD;
			trkm_next_mis = mis;
			p = mempool_alloc(&slots[s].mp, size);
			ct = check_all();
			if (p) { blks[b].live = 1; blks[b].slot = s; blks[b].ptr = p; blks[b].len = size; blks[b].fill = ++fillgen; }
			out_block(b, p, size, 8, ct);
			if (p && trkm_find(p, size) >= 0) fill_blk(&blks[b]); else if (p) blks[b].len = 0;
			goto next;
		}
		if (n == 4 && !strcmp(w[0], "sm")) {
			int wd = sm_width(w[1]);
			U(2, a); U(3, b);
			unsigned long long r;
			if (!wd || (wd < 64 && (a >> wd || b >> wd))) BAD;
			if (sm_call(w[1], a, b, &r)) printf("1 %llu\n", r); else puts("0");
			goto next;
		}
		if (n == 6 && !strcmp(w[0], "smr")) {
			int wd = sm_width(w[1]);
			U(2, alo); U(3, ahi); U(4, blo); U(5, bhi);
			uint64_t h;
			if (!wd || wd > 32 || ahi > (1ULL << wd) || bhi > (1ULL << wd) || alo > ahi || blo > bhi) BAD;
			if (!strcmp(w[1], "u8")) h = smr_u8(alo, ahi, blo, bhi);
			else if (!strcmp(w[1], "u16")) h = smr_u16(alo, ahi, blo, bhi);
			else if (!strcmp(w[1], "u32")) h = smr_u32(alo, ahi, blo, bhi);
			else h = smr_uint(alo, ahi, blo, bhi);
			printf("%llu\n", (unsigned long long)h);
			goto next;
		}
		if (n == 2 && !strcmp(w[0], "ip2")) {
			U(1, v);
			if (v >= (1ULL << 32)) BAD;
			puts(is_power_of_2((unsigned)v) ? "1" : "0");
			goto next;
		}
		if (n == 3 && !strcmp(w[0], "ip2r")) {
			U(1, lo); U(2, hi);
			unsigned long long v; uint64_t h = HC_FNV_INIT;
			if (hi > (1ULL << 32) || lo > hi) BAD;
			for (v = lo; v < hi; v++) h = mix(h, is_power_of_2((unsigned)v) ? 1 : 0);
			printf("%llu\n", (unsigned long long)h);
			goto next;
		}
		if (n == 3 && !strcmp(w[0], "ra")) {
			U(1, c); U(2, sz);
			void *p;
			spy_called = 0;
			p = usual_reallocarray(NULL, c, sz);
			if (p && spy_called) printf("req=%zu\n", spy_req); else puts("null");
			goto next;
		}
		if (n == 3 && (!strcmp(w[0], "ta") || !strcmp(w[0], "tr"))) {
			U(1, e); U(2, c);
			static void *spyroot;
			void *p;
			if (!spyroot) spyroot = talloc_from_cx(&spy_cx, 0, "spyroot");
			spy_called = 0;
			if (w[0][1] == 'a') p = talloc_array_size(spyroot, e, c);
			else p = _talloc_realloc(spyroot, NULL, e, c, "c09");
			if (p && spy_called) printf("req=%zu\n", spy_req); else puts("null");
			if (p) talloc_free(p);
			goto next;
		}
		puts("bad-op");
next:
		if (!fail_pending) trk_fail_at = 0;
	}
	fflush(stdout);
	return 0;
}
