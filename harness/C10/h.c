/* C10 harness, part 1: modules that take a CxMem (+ mbuf) — the families that also have a Lean
 * allocation-fault model (cb sp md ht hp sl pg mb slb ct dg hm) and, model-free, the cx pool,
 * JSON and talloc families (see h_extra.inc).
 *
 * Line protocol (lean/Driver/C10.lean prints the same lines for the modelled families):
 *   #case                 reset
 *   fail k1 [k2 ..]       request numbers (counted from here) that are made to fail
 *   <family> <op> args    "<P>:<ret> <contents> live=<n>"   P = F fault fired + failure reported,
 *                                                           A = fault fired, success reported,
 *                                                           S = no fault fired in this op
 *   end                   "req=<requests> fired=<faults fired> live=<regions still allocated>"
 */
#include "hcommon.h"
#include "fi.h"
#include <usual/cbtree.h>
#include <usual/mbuf.h>
#include <usual/slab.h>
#include <usual/string.h>
#include <usual/pgutil.h>
#include <usual/crypto/digest.h>
#include <usual/crypto/hmac.h>
#include <usual/crypto/sha1.h>
#include <usual/crypto/sha256.h>
#include <usual/crypto/sha512.h>
#include <usual/crypto/md5.h>
#include <usual/hashtab-impl.h>

/* included as source: the dump functions below read private fields */
#include <usual/strpool.c>
#include <usual/mdict.h>
#include <usual/heap.c>
#include <usual/cxextra.c>

#define CX (&fi_cx)
#define NSLOT 256

/* ------------------------------------------------------------------ cbtree */
struct Obj { size_t len; uint8_t key[]; };
static struct CBTree *cb;
static struct Obj *cb_objs[4096];
static int cb_nobj;

static size_t obj_getkey(void *ctx, void *obj, const void **dst_p)
{
	struct Obj *o = obj;
	*dst_p = o->key;
	return o->len;
}

static int dump_first;
static bool cb_dump_cb(void *arg, void *obj)
{
	struct Obj *o = obj;
	if (!dump_first) putchar(',');
	dump_first = 0;
	hc_puthex(o->key, o->len);
	return true;
}
static void cb_dump(void)
{
	putchar('['); dump_first = 1;
	cbtree_walk(cb, cb_dump_cb, NULL);
	putchar(']');
}

/* ----------------------------------------------------------------- strpool */
static struct StrPool *sp;
static struct PStr *sp_slot[NSLOT];

static bool sp_dump_cb(void *arg, void *obj)
{
	struct PStr *s = obj;
	if (!dump_first) putchar(',');
	dump_first = 0;
	hc_puthex(s->str, s->len);
	printf(":%d", s->refcnt);
	return true;
}
static void sp_dump(void)
{
	printf("total=%d [", strpool_total(sp)); dump_first = 1;
	cbtree_walk(sp->tree, sp_dump_cb, NULL);
	putchar(']');
}

/* ------------------------------------------------------------------- mdict */
static struct MDict *md;
static bool md_dump_cb(void *arg, const struct MBuf *k, const struct MBuf *v)
{
	if (!dump_first) putchar(',');
	dump_first = 0;
	hc_puthex(mbuf_data(k), mbuf_written(k));
	putchar('=');
	if (mbuf_data(v) == NULL) putchar('N'); else hc_puthex(mbuf_data(v), mbuf_written(v));
	return true;
}
static void md_dump(void)
{
	putchar('['); dump_first = 1;
	mdict_walk(md, md_dump_cb, NULL);
	putchar(']');
}

/* ----------------------------------------------------------------- hashtab */
static struct HashTab *ht;
static bool ht_cmp(const htab_val_t curval, const void *arg) { return true; }
static int kv_cmp(const void *a, const void *b)
{
	const unsigned long *x = a, *y = b;
	return x[0] < y[0] ? -1 : x[0] > y[0];
}
static void ht_dump(void)
{
	struct HashTab *h;
	static unsigned long kv[65536][2];
	unsigned n = 0, i;
	fputs("used=[", stdout);
	for (h = ht; h; h = h->next) {
		printf("%s%u", h == ht ? "" : ",", h->used);
		for (i = 0; i < h->size; i++)
			if (h->tab[i].value && n < 65536) {
				kv[n][0] = h->tab[i].key; kv[n][1] = (unsigned long)(uintptr_t)h->tab[i].value; n++;
			}
	}
	fputs("] {", stdout);
	qsort(kv, n, sizeof(kv[0]), kv_cmp);
	for (i = 0; i < n; i++) printf("%s%lu:%lu", i ? "," : "", kv[i][0], kv[i][1]);
	putchar('}');
}

/* -------------------------------------------------------------------- heap */
static struct Heap *hp;
static bool hp_better(const void *a, const void *b) { return (uintptr_t)a < (uintptr_t)b; }
static int ul_cmp(const void *a, const void *b)
{
	unsigned long x = *(const unsigned long *)a, y = *(const unsigned long *)b;
	return x < y ? -1 : x > y;
}
static void hp_dump(void)
{
	static unsigned long v[65536];
	unsigned n = heap_size(hp), i;
	printf("used=%u alloc=%u [", hp->used, hp->allocated);
	for (i = 0; i < n && i < 65536; i++) v[i] = (unsigned long)(uintptr_t)heap_get_obj(hp, i);
	qsort(v, n, sizeof(v[0]), ul_cmp);
	for (i = 0; i < n; i++) printf("%s%lu", i ? "," : "", v[i]);
	putchar(']');
}

/* ----------------------------------------------------------------- strlist */
static struct StrList *sl;
static bool sl_dump_cb(void *arg, const char *s)
{
	if (!dump_first) putchar(',');
	dump_first = 0;
	if (!s) putchar('N'); else hc_puthex(s, strlen(s));
	return true;
}
static void sl_dump_list(struct StrList *l)
{
	putchar('['); dump_first = 1;
	strlist_foreach(l, sl_dump_cb, NULL);
	putchar(']');
}

/* -------------------------------------------------------------------- mbuf */
static struct MBuf mb;
static int mb_live;
static void mb_dump(void)
{
	printf("alloc=%u ", mb.alloc_len);
	hc_puthex(mb.data, mbuf_written(&mb));
}

/* -------------------------------------------------------------------- slab */
static struct Slab *slb;
static void *slb_slot[NSLOT];
static void slb_dump(void) { printf("total=%d free=%d", slab_total_count(slb), slab_free_count(slb)); }

/* ----------------------------------------------------------------- cx tree */
static CxMem *ct;
static CxMem *ct_sub[NSLOT];
struct CtBlk { unsigned char *p; size_t len; int sub; unsigned char pat; };
static struct CtBlk ct_slot[NSLOT];
static int list_len(struct List *h) { struct List *e; int n = 0; list_for_each(e, h) n++; return n; }
static int ct_check_blocks(void)
{
	int i; size_t j;
	for (i = 0; i < NSLOT; i++)
		if (ct_slot[i].p)
			for (j = 0; j < ct_slot[i].len; j++)
				if (ct_slot[i].p[j] != ct_slot[i].pat) return 0;
	return 1;
}
static void ct_dump(void)
{
	struct CxTree *t = ct->ctx, *s;
	struct List *e;
	int first = 1;
	printf("items=%d subs=[", list_len(&t->alloc_list));
	list_for_each(e, &t->subtree_list) {
		s = container_of(e, struct CxTree, subtree_node);
		printf("%s%d", first ? "" : ",", list_len(&s->alloc_list));
		first = 0;
	}
	putchar(']');
	if (!ct_check_blocks()) fputs(" CORRUPT", stdout);
}

/* ------------------------------------------------------------ digest / hmac */
static struct DigestContext *dg;
static struct HMAC *hm;
static const struct DigestInfo *hm_info, *dg_info;
static uint8_t *hm_key; static long hm_keylen;
static const struct DigestInfo *digest_by_name(const char *n)
{
	if (!strcmp(n, "sha1")) return digest_SHA1();
	if (!strcmp(n, "sha256")) return digest_SHA256();
	if (!strcmp(n, "sha512")) return digest_SHA512();
	if (!strcmp(n, "md5")) return digest_MD5();
	return NULL;
}

#include "h_extra.inc"

/* --------------------------------------------------------------- dispatcher */
static void reset_all(void)
{
	/* structures of an unfinished case are dropped (their memory is simply forgotten) */
	cb = NULL; cb_nobj = 0; sp = NULL; memset(sp_slot, 0, sizeof sp_slot); md = NULL; ht = NULL;
	hp = NULL; sl = NULL; mb_live = 0; slb = NULL; memset(slb_slot, 0, sizeof slb_slot);
	ct = NULL; memset(ct_sub, 0, sizeof ct_sub); memset(ct_slot, 0, sizeof ct_slot);
	dg = NULL; hm = NULL; hm_key = NULL;
	extra_reset();
	fi_reset();
}

#define BAD() do { puts("bad-op"); return; } while (0)
#define SKIP() do { puts("skip"); return; } while (0)

static long slotnum(const char *s)
{
	char *e; long v = strtol(s, &e, 10);
	if (*e || v < 0 || v >= NSLOT) return -1;
	return v;
}

static void do_cb(int n, char **w)
{
	uint8_t *k; long kl; bool ok;
	if (n == 2 && !strcmp(w[1], "new")) {
		if (cb) BAD();
		op_begin(); ARM(cb = cbtree_create(obj_getkey, NULL, NULL, CX));
		op_prefix(!cb);
		if (!cb) fputs("null", stdout); else { fputs("ok ", stdout); cb_dump(); }
		op_end(); return;
	}
	if (n == 2 && !strcmp(w[1], "free")) {
		if (!cb) SKIP();
		op_begin(); ARM(cbtree_destroy(cb)); cb = NULL;
		op_prefix(0); fputs("ok", stdout); op_end(); return;
	}
	if (n != 3) BAD();
	kl = hc_unhex(w[2], &k);
	if (kl < 0) BAD();
	if (!cb) { free(k); SKIP(); }
	if (!strcmp(w[1], "ins")) {
		struct Obj *o = malloc(sizeof(*o) + kl + 1);
		o->len = kl; memcpy(o->key, k, kl);
		if (cb_nobj < 4096) cb_objs[cb_nobj++] = o;
		op_begin(); ARM(ok = cbtree_insert(cb, o));
	} else if (!strcmp(w[1], "del")) {
		op_begin(); ARM(ok = cbtree_delete(cb, k, kl));
	} else if (!strcmp(w[1], "get")) {
		op_begin(); ARM(ok = cbtree_lookup(cb, k, kl) != NULL);
	} else { free(k); BAD(); }
	free(k);
	op_prefix(!ok); printf("%d ", ok); cb_dump(); op_end();
}

static void do_sp(int n, char **w)
{
	long s; uint8_t *k; long kl;
	if (n == 2 && !strcmp(w[1], "new")) {
		if (sp) BAD();
		op_begin(); ARM(sp = strpool_create(CX));
		op_prefix(!sp);
		if (!sp) fputs("null", stdout); else { fputs("ok ", stdout); sp_dump(); }
		op_end(); return;
	}
	if (n == 2 && !strcmp(w[1], "free")) {
		if (!sp) SKIP();
		op_begin(); ARM(strpool_free(sp)); sp = NULL; memset(sp_slot, 0, sizeof sp_slot);
		op_prefix(0); fputs("ok", stdout); op_end(); return;
	}
	if (n == 4 && !strcmp(w[1], "get")) {
		struct PStr *p; char *z;
		s = slotnum(w[2]); kl = hc_unhex(w[3], &k);
		if (s < 0 || kl < 0) BAD();
		if (!sp) { free(k); SKIP(); }
		if (sp_slot[s]) { free(k); BAD(); }
		z = malloc(kl + 1); memcpy(z, k, kl); z[kl] = 0;
		op_begin(); ARM(p = strpool_get(sp, z, kl));
		free(z); free(k);
		op_prefix(!p);
		if (!p) fputs("null ", stdout); else { sp_slot[s] = p; printf("ref=%d ", p->refcnt); }
		sp_dump(); op_end(); return;
	}
	if (n == 3 && !strcmp(w[1], "dec")) {
		struct PStr *p; int rel, i;
		s = slotnum(w[2]);
		if (s < 0) BAD();
		if (!sp) SKIP();
		p = sp_slot[s];
		if (!p) SKIP();
		rel = p->refcnt == 1;
		op_begin(); ARM(strpool_decref(p));
		sp_slot[s] = NULL;
		if (rel) for (i = 0; i < NSLOT; i++) if (sp_slot[i] == p) sp_slot[i] = NULL;
		op_prefix(0); fputs(rel ? "released " : "kept ", stdout); sp_dump(); op_end(); return;
	}
	BAD();
}

static void do_md(int n, char **w)
{
	uint8_t *k = NULL, *v = NULL; long kl, vl = 0; bool ok;
	if (n == 2 && !strcmp(w[1], "new")) {
		if (md) BAD();
		op_begin(); ARM(md = mdict_new(CX));
		op_prefix(!md);
		if (!md) fputs("null", stdout); else { fputs("ok ", stdout); md_dump(); }
		op_end(); return;
	}
	if (n == 2 && !strcmp(w[1], "free")) {
		if (!md) SKIP();
		op_begin(); ARM(mdict_free(md)); md = NULL;
		op_prefix(0); fputs("ok", stdout); op_end(); return;
	}
	if (n < 3) BAD();
	kl = hc_unhex(w[2], &k);
	if (kl < 0) BAD();
	if (n == 4 && !strcmp(w[1], "put")) {
		int isnull = !strcmp(w[3], "N");
		if (!isnull) { vl = hc_unhex(w[3], &v); if (vl < 0) { free(k); BAD(); } }
		if (!md) { free(k); free(v); SKIP(); }
		op_begin(); ARM(ok = mdict_put_str(md, (char *)k, kl, isnull ? NULL : (char *)v, vl));
		free(v);
	} else if (n == 3 && !strcmp(w[1], "del")) {
		if (!md) { free(k); SKIP(); }
		op_begin(); ARM(ok = mdict_del_key(md, (char *)k, kl));
	} else if (n == 3 && !strcmp(w[1], "url")) {
		if (!md) { free(k); SKIP(); }
		op_begin(); ARM(ok = mdict_urldecode(md, (char *)k, kl));
	} else { free(k); BAD(); }
	free(k);
	op_prefix(!ok); printf("%d ", ok); md_dump(); op_end();
}

static void do_ht(int n, char **w)
{
	unsigned long a = 0, b = 0; char *e;
	if (n >= 3) { a = strtoul(w[2], &e, 10); if (*e) BAD(); }
	if (n >= 4) { b = strtoul(w[3], &e, 10); if (*e) BAD(); }
	if (n == 3 && !strcmp(w[1], "new")) {
		if (ht) BAD();
		op_begin(); ARM(ht = hashtab_create(a, ht_cmp, CX));
		op_prefix(!ht);
		if (!ht) fputs("null", stdout); else { fputs("ok ", stdout); ht_dump(); }
		op_end(); return;
	}
	if (n == 2 && !strcmp(w[1], "free")) {
		if (!ht) SKIP();
		op_begin(); ARM(hashtab_destroy(ht)); ht = NULL;
		op_prefix(0); fputs("ok", stdout); op_end(); return;
	}
	if (n == 4 && !strcmp(w[1], "put")) {
		htab_val_t *vp; int dummy;
		if (b == 0) BAD();
		if (!ht) SKIP();
		op_begin(); ARM(vp = hashtab_lookup(ht, a, true, &dummy));
		op_prefix(!vp);
		if (!vp) fputs("null ", stdout);
		else { if (!*vp) *vp = (void *)(uintptr_t)b; printf("%lu ", (unsigned long)(uintptr_t)*vp); }
		ht_dump(); op_end(); return;
	}
	if (n == 3 && !strcmp(w[1], "get")) {
		htab_val_t *vp; int dummy;
		if (!ht) SKIP();
		op_begin(); ARM(vp = hashtab_lookup(ht, a, false, &dummy));
		op_prefix(!vp);
		if (!vp) fputs("null ", stdout); else printf("%lu ", (unsigned long)(uintptr_t)*vp);
		ht_dump(); op_end(); return;
	}
	if (n == 3 && !strcmp(w[1], "del")) {
		int dummy;
		if (!ht) SKIP();
		op_begin(); ARM(hashtab_delete(ht, a, &dummy));
		op_prefix(0); fputs("ok ", stdout); ht_dump(); op_end(); return;
	}
	if (n == 3 && !strcmp(w[1], "copy")) {
		struct HashTab *h2;
		if (!ht) SKIP();
		op_begin(); ARM(h2 = hashtab_copy(ht, a));
		if (h2) { ARM(hashtab_destroy(ht)); ht = h2; }
		op_prefix(!h2); fputs(h2 ? "ok " : "null ", stdout); ht_dump(); op_end(); return;
	}
	BAD();
}

static void do_hp(int n, char **w)
{
	unsigned long a = 0; char *e; bool ok;
	if (n >= 3) { a = strtoul(w[2], &e, 10); if (*e) BAD(); }
	if (n == 2 && !strcmp(w[1], "new")) {
		if (hp) BAD();
		op_begin(); ARM(hp = heap_create(hp_better, NULL, CX));
		op_prefix(!hp);
		if (!hp) fputs("null", stdout); else { fputs("ok ", stdout); hp_dump(); }
		op_end(); return;
	}
	if (n == 2 && !strcmp(w[1], "free")) {
		if (!hp) SKIP();
		op_begin(); ARM(heap_destroy(hp)); hp = NULL;
		op_prefix(0); fputs("ok", stdout); op_end(); return;
	}
	if (n == 3 && !strcmp(w[1], "push")) {
		if (a == 0) BAD();
		if (!hp) SKIP();
		op_begin(); ARM(ok = heap_push(hp, (void *)(uintptr_t)a));
		op_prefix(!ok); printf("%d ", ok); hp_dump(); op_end(); return;
	}
	if (n == 3 && !strcmp(w[1], "reserve")) {
		if (!hp) SKIP();
		op_begin(); ARM(ok = heap_reserve(hp, a));
		op_prefix(!ok); printf("%d ", ok); hp_dump(); op_end(); return;
	}
	if (n == 2 && !strcmp(w[1], "pop")) {
		void *p;
		if (!hp) SKIP();
		op_begin(); ARM(p = heap_pop(hp));
		op_prefix(!p);
		if (!p) fputs("nil ", stdout); else printf("%lu ", (unsigned long)(uintptr_t)p);
		hp_dump(); op_end(); return;
	}
	BAD();
}

static void do_sl(int n, char **w)
{
	bool ok;
	if (n == 2 && !strcmp(w[1], "new")) {
		if (sl) BAD();
		op_begin(); ARM(sl = strlist_new(CX));
		op_prefix(!sl);
		if (!sl) fputs("null", stdout); else { fputs("ok ", stdout); sl_dump_list(sl); }
		op_end(); return;
	}
	if (n == 2 && !strcmp(w[1], "free")) {
		if (!sl) SKIP();
		op_begin(); ARM(strlist_free(sl)); sl = NULL;
		op_prefix(0); fputs("ok", stdout); op_end(); return;
	}
	if (n == 3 && !strcmp(w[1], "app")) {
		uint8_t *v = NULL; long vl = 0; char *z = NULL;
		if (strcmp(w[2], "N")) {
			vl = hc_unhex(w[2], &v);
			if (vl < 0) BAD();
			if (memchr(v, 0, vl)) { free(v); BAD(); }
			z = malloc(vl + 1); memcpy(z, v, vl); z[vl] = 0; free(v);
		}
		if (!sl) { free(z); SKIP(); }
		op_begin(); ARM(ok = strlist_append(sl, z));
		free(z);
		op_prefix(!ok); printf("%d ", ok); sl_dump_list(sl); op_end(); return;
	}
	if (n == 2 && !strcmp(w[1], "pop")) {
		char *s; int empty;
		if (!sl) SKIP();
		empty = strlist_empty(sl);
		op_begin(); ARM(s = strlist_pop(sl));
		op_prefix(empty);
		if (empty) fputs("nil", stdout);
		else if (!s) putchar('N');
		else { hc_puthex(s, strlen(s)); ARM(cx_free(CX, s)); }
		putchar(' '); sl_dump_list(sl); op_end(); return;
	}
	BAD();
}

static void do_pg(int n, char **w)
{
	uint8_t *t; long tl; char *z; struct StrList *l;
	if (n != 4 || strcmp(w[1], "parse")) BAD();
	tl = hc_unhex(w[2], &t);
	if (tl < 0) BAD();
	if (memchr(t, 0, tl)) { free(t); BAD(); }
	z = malloc(tl + 1); memcpy(z, t, tl); z[tl] = 0; free(t);
	op_begin(); ARM(l = pg_parse_array(z, CX));
	free(z);
	if (!l) { op_prefix(1); fputs("null", stdout); op_end(); return; }
	/* contents are printed from the live list, then the list is released */
	op_prefix(0); fputs("ok ", stdout); sl_dump_list(l);
	ARM(strlist_free(l));
	op_end();
}

static void do_mb(int n, char **w)
{
	bool ok; uint8_t *v; long vl;
	if (n == 2 && !strcmp(w[1], "new")) {
		if (mb_live) BAD();
		mbuf_init_dynamic(&mb); mb_live = 1;
		op_begin(); op_prefix(0); fputs("ok ", stdout); mb_dump(); op_end(); return;
	}
	if (n == 2 && !strcmp(w[1], "free")) {
		if (!mb_live) SKIP();
		op_begin(); ARM(mbuf_free(&mb)); mb_live = 0;
		op_prefix(0); fputs("ok", stdout); op_end(); return;
	}
	if (n == 3 && !strcmp(w[1], "write")) {
		vl = hc_unhex(w[2], &v);
		if (vl < 0) BAD();
		if (!mb_live) { free(v); SKIP(); }
		op_begin(); ARM(ok = mbuf_write(&mb, v, vl));
		free(v);
		op_prefix(!ok); printf("%d ", ok); mb_dump(); op_end(); return;
	}
	BAD();
}

static void do_slb(int n, char **w)
{
	long s;
	if (n == 3 && !strcmp(w[1], "new")) {
		char *e; unsigned long sz = strtoul(w[2], &e, 10);
		if (*e || slb) BAD();
		op_begin(); ARM(slb = slab_create("c10", sz, 0, NULL, CX));
		op_prefix(!slb);
		if (!slb) fputs("null", stdout); else { fputs("ok ", stdout); slb_dump(); }
		op_end(); return;
	}
	if (n == 2 && !strcmp(w[1], "destroy")) {
		if (!slb) SKIP();
		op_begin(); ARM(slab_destroy(slb)); slb = NULL; memset(slb_slot, 0, sizeof slb_slot);
		op_prefix(0); fputs("ok", stdout); op_end(); return;
	}
	if (n != 3) BAD();
	s = slotnum(w[2]);
	if (s < 0) BAD();
	if (!slb) SKIP();
	if (!strcmp(w[1], "alloc")) {
		void *o;
		if (slb_slot[s]) BAD();
		op_begin(); ARM(o = slab_alloc(slb));
		slb_slot[s] = o;
		op_prefix(!o); printf("%d ", o != NULL); slb_dump(); op_end(); return;
	}
	if (!strcmp(w[1], "free")) {
		if (!slb_slot[s]) SKIP();
		op_begin(); ARM(slab_free(slb, slb_slot[s])); slb_slot[s] = NULL;
		op_prefix(0); fputs("ok ", stdout); slb_dump(); op_end(); return;
	}
	BAD();
}

static void do_ct(int n, char **w)
{
	long s, ss; unsigned long len; char *e;
	if (n == 2 && !strcmp(w[1], "new")) {
		if (ct) BAD();
		op_begin(); ARM(ct = cx_new_tree(CX));
		op_prefix(!ct);
		if (!ct) fputs("null", stdout); else { fputs("ok ", stdout); ct_dump(); }
		op_end(); return;
	}
	if (n == 2 && !strcmp(w[1], "free")) {
		if (!ct) SKIP();
		op_begin(); ARM(cx_destroy(ct)); ct = NULL;
		memset(ct_sub, 0, sizeof ct_sub); memset(ct_slot, 0, sizeof ct_slot);
		op_prefix(0); fputs("ok", stdout); op_end(); return;
	}
	if (n < 3) BAD();
	s = slotnum(w[2]);
	if (s < 0) BAD();
	if (n == 3 && !strcmp(w[1], "sub")) {
		CxMem *t;
		if (!ct) SKIP();
		if (ct_sub[s]) BAD();
		op_begin(); ARM(t = cx_new_tree(ct));
		ct_sub[s] = t;
		op_prefix(!t); fputs(t ? "ok " : "null ", stdout); ct_dump(); op_end(); return;
	}
	if (n == 5 && !strcmp(w[1], "alloc")) {
		CxMem *where; unsigned char *p;
		len = strtoul(w[4], &e, 10);
		if (*e || len == 0 || len > 100000) BAD();
		if (!strcmp(w[3], "T")) ss = -1; else { ss = slotnum(w[3]); if (ss < 0) BAD(); }
		if (!ct) SKIP();
		if (ct_slot[s].p) BAD();
		if (ss >= 0 && !ct_sub[ss]) SKIP();
		where = ss < 0 ? ct : ct_sub[ss];
		op_begin(); ARM(p = cx_alloc(where, len));
		if (p) {
			ct_slot[s].p = p; ct_slot[s].len = len; ct_slot[s].sub = ss;
			ct_slot[s].pat = 0x40 + s; memset(p, ct_slot[s].pat, len);
		}
		op_prefix(!p); fputs(p ? "ok " : "null ", stdout); ct_dump(); op_end(); return;
	}
	if (n == 4 && !strcmp(w[1], "realloc")) {
		CxMem *where; unsigned char *p; size_t keep, j; int bad = 0;
		len = strtoul(w[3], &e, 10);
		if (*e || len == 0 || len > 100000) BAD();
		if (!ct) SKIP();
		if (!ct_slot[s].p) SKIP();
		where = ct_slot[s].sub < 0 ? ct : ct_sub[ct_slot[s].sub];
		op_begin(); ARM(p = cx_realloc(where, ct_slot[s].p, len));
		if (p) {
			keep = len < ct_slot[s].len ? len : ct_slot[s].len;
			for (j = 0; j < keep; j++) if (p[j] != ct_slot[s].pat) bad = 1;
			ct_slot[s].p = p; ct_slot[s].len = len; memset(p, ct_slot[s].pat, len);
		}
		op_prefix(!p); fputs(p ? "ok " : "null ", stdout); ct_dump();
		if (bad) fputs(" LOST", stdout);
		op_end(); return;
	}
	if (n == 3 && !strcmp(w[1], "freeb")) {
		if (!ct) SKIP();
		if (!ct_slot[s].p) SKIP();
		op_begin();
		ARM(cx_free(ct_slot[s].sub < 0 ? ct : ct_sub[ct_slot[s].sub], ct_slot[s].p));
		ct_slot[s].p = NULL;
		op_prefix(0); fputs("ok ", stdout); ct_dump(); op_end(); return;
	}
	if (n == 3 && !strcmp(w[1], "dsub")) {
		int i;
		if (!ct) SKIP();
		if (!ct_sub[s]) SKIP();
		op_begin(); ARM(cx_destroy(ct_sub[s])); ct_sub[s] = NULL;
		for (i = 0; i < NSLOT; i++) if (ct_slot[i].p && ct_slot[i].sub == s) ct_slot[i].p = NULL;
		op_prefix(0); fputs("ok ", stdout); ct_dump(); op_end(); return;
	}
	BAD();
}

/* digest / HMAC: the result computed under fault injection must equal the result of an
 * independent context created with the plain libc allocator (wrappers not armed) */
static int dg_check(const struct DigestInfo *info, struct DigestContext *c, const uint8_t *d, long n)
{
	uint8_t r1[128], r2[128];
	struct DigestContext *ref = digest_new(info, NULL);
	unsigned rl = digest_result_len(c);
	digest_reset(c); digest_update(c, d, n); digest_final(c, r1);
	digest_update(ref, d, n); digest_final(ref, r2);
	digest_free(ref);
	return memcmp(r1, r2, rl) == 0;
}

static void do_dg(int n, char **w)
{
	if (n == 3 && !strcmp(w[1], "new")) {
		dg_info = digest_by_name(w[2]);
		if (!dg_info || dg) BAD();
		op_begin(); ARM(dg = digest_new(dg_info, CX));
		op_prefix(!dg); fputs(dg ? "ok" : "null", stdout); op_end(); return;
	}
	if (n == 3 && !strcmp(w[1], "run")) {
		uint8_t *d; long dl = hc_unhex(w[2], &d); int ok;
		if (dl < 0) BAD();
		if (!dg) { free(d); SKIP(); }
		op_begin(); ok = dg_check(dg_info, dg, d, dl); free(d);
		op_prefix(0); fputs(ok ? "ok" : "CORRUPT", stdout); op_end(); return;
	}
	if (n == 2 && !strcmp(w[1], "free")) {
		if (!dg) SKIP();
		op_begin(); ARM(digest_free(dg)); dg = NULL;
		op_prefix(0); fputs("ok", stdout); op_end(); return;
	}
	BAD();
}

static void do_hm(int n, char **w)
{
	if (n == 4 && !strcmp(w[1], "new")) {
		hm_info = digest_by_name(w[2]);
		if (!hm_info || hm) BAD();
		free(hm_key); hm_keylen = hc_unhex(w[3], &hm_key);
		if (hm_keylen < 0) { hm_key = NULL; BAD(); }
		op_begin(); ARM(hm = hmac_new(hm_info, hm_key, hm_keylen, CX));
		op_prefix(!hm); fputs(hm ? "ok" : "null", stdout); op_end(); return;
	}
	if (n == 3 && !strcmp(w[1], "run")) {
		uint8_t *d, r1[128], r2[128]; long dl = hc_unhex(w[2], &d); int ok;
		struct HMAC *ref;
		if (dl < 0) BAD();
		if (!hm) { free(d); SKIP(); }
		op_begin();
		ARM(hmac_reset(hm); hmac_update(hm, d, dl); hmac_final(hm, r1));
		ref = hmac_new(hm_info, hm_key, hm_keylen, NULL);
		hmac_update(ref, d, dl); hmac_final(ref, r2);
		ok = memcmp(r1, r2, hmac_result_len(ref)) == 0;
		hmac_free(ref); free(d);
		op_prefix(0); fputs(ok ? "ok" : "CORRUPT", stdout); op_end(); return;
	}
	if (n == 2 && !strcmp(w[1], "free")) {
		if (!hm) SKIP();
		op_begin(); ARM(hmac_free(hm)); hm = NULL;
		op_prefix(0); fputs("ok", stdout); op_end(); return;
	}
	BAD();
}

static void dispatch(char *line)
{
	char *w[16]; int n, i; char *e;
	n = hc_words(line, w, 16);
	if (n == 0) BAD();
	if (n == 1 && !strcmp(w[0], "#case")) { reset_all(); puts("#case"); return; }
	if (!strcmp(w[0], "fail")) {
		if (n - 1 > FI_MAXFAIL) BAD();
		for (i = 1; i < n; i++) { long v = strtol(w[i], &e, 10); if (*e || v < 0) BAD(); }
		fi_nfail = 0;
		for (i = 1; i < n; i++) fi_fail[fi_nfail++] = strtol(w[i], NULL, 10);
		puts("ok"); return;
	}
	if (n == 1 && !strcmp(w[0], "end")) {
		printf("req=%ld fired=%ld live=%ld\n", fi_requests, fi_fired, fi_ntab); return;
	}
	if (n == 1 && !strcmp(w[0], "nop")) { puts("nop"); return; }
	if (!strcmp(w[0], "cb")) { do_cb(n, w); return; }
	if (!strcmp(w[0], "sp")) { do_sp(n, w); return; }
	if (!strcmp(w[0], "md")) { do_md(n, w); return; }
	if (!strcmp(w[0], "ht")) { do_ht(n, w); return; }
	if (!strcmp(w[0], "hp")) { do_hp(n, w); return; }
	if (!strcmp(w[0], "sl")) { do_sl(n, w); return; }
	if (!strcmp(w[0], "pg")) { do_pg(n, w); return; }
	if (!strcmp(w[0], "mb")) { do_mb(n, w); return; }
	if (!strcmp(w[0], "slb")) { do_slb(n, w); return; }
	if (!strcmp(w[0], "ct")) { do_ct(n, w); return; }
	if (!strcmp(w[0], "dg")) { do_dg(n, w); return; }
	if (!strcmp(w[0], "hm")) { do_hm(n, w); return; }
	if (extra_dispatch(n, w)) return;
	BAD();
}

int main(void)
{
	char *line;
	setvbuf(stdout, NULL, _IOFBF, 1 << 16);
	reset_all();
	while ((line = hc_line()) != NULL) {
		dispatch(line);
		/* flushed per line so that output written before a crash is not lost */
		fflush(stdout);
	}
	return 0;
}
