/* C10 fault-injection allocator layer.
 *
 * One request counter shared by
 *   - the CxMem `fi_cx` handed to every libusual API that takes an allocator, and
 *   - the libc entry points malloc/calloc/realloc/strdup/free redirected at link time with
 *     -Wl,--wrap=... (modules that call libc directly: mbuf, mempool/regex, fnmatch/wchar,
 *     tls_config).  The wrappers only count/fail/track while `fi_armed` is set, i.e. while the
 *     harness is inside a library call; the harness' own allocations pass through.
 *
 * Semantics (= Usual.C10.allocS / reallocS / freeS of the Lean model):
 *   every alloc/realloc request gets the next number; the numbers listed in fi_fail[] fail
 *   (NULL, errno = ENOMEM) and leave everything as it was; a successful realloc always moves
 *   (old block poisoned and released, so stale pointers are caught by ASan); free releases.
 * Tracked regions live in a side table (no header in front of the block), so memory that
 * reaches free() from elsewhere (libc-internal asprintf, OpenSSL) is passed through untouched.
 */
#ifndef VERIF_C10_FI_H
#define VERIF_C10_FI_H
#include <stdlib.h>
#include <string.h>
#include <errno.h>
#include <stdio.h>
#include <usual/cxalloc.h>

void *__real_malloc(size_t);
void *__real_calloc(size_t, size_t);
void *__real_realloc(void *, size_t);
void __real_free(void *);
char *__real_strdup(const char *);

#define FI_MAXFAIL 8
#define FI_MAXREG 200000
static long fi_requests;          /* alloc + realloc requests so far in this case */
static long fi_fired;             /* injected failures that fired */
static long fi_fail[FI_MAXFAIL];  /* request numbers that fail */
static int fi_nfail;
static volatile int fi_armed;     /* inside a library call (volatile: libc allocators are declared leaf, the store must not be dropped) */
struct FiReg { void *p; size_t n; };
static struct FiReg *fi_tab;
static long fi_ntab;              /* = number of tracked live regions */
static int fi_quiet;              /* probe allocations of the dump code: no poisoning (speed) */

static void fi_reset(void)
{
	fi_requests = 0; fi_fired = 0; fi_nfail = 0; fi_armed = 0;
	if (!fi_tab) fi_tab = __real_malloc(sizeof(struct FiReg) * FI_MAXREG);
	/* regions still tracked from a previous case are forgotten (the case reported them) */
	fi_ntab = 0;
}

static int fi_should_fail(void)
{
	int i;
	fi_requests++;
	for (i = 0; i < fi_nfail; i++)
		if (fi_fail[i] == fi_requests) { fi_fired++; errno = ENOMEM; return 1; }
	return 0;
}

static long fi_find(void *p)
{
	long i;
	for (i = fi_ntab - 1; i >= 0; i--)
		if (fi_tab[i].p == p) return i;
	return -1;
}

static void *fi_alloc(size_t n, int zero)
{
	void *p;
	if (fi_should_fail()) return NULL;
	p = __real_malloc(n ? n : 1);
	if (!p) { fprintf(stderr, "fi: real malloc failed\n"); abort(); }
	if (zero || !fi_quiet) memset(p, zero ? 0 : 0xA5, n);
	if (fi_ntab >= FI_MAXREG) { fprintf(stderr, "fi: region table full\n"); abort(); }
	fi_tab[fi_ntab].p = p; fi_tab[fi_ntab].n = n; fi_ntab++;
	return p;
}

/* returns 1 if the pointer was tracked (and is now released) */
static int fi_release(void *p)
{
	long i = fi_find(p);
	if (i < 0) return 0;
	if (!fi_quiet) memset(p, 0xDD, fi_tab[i].n);
	fi_tab[i] = fi_tab[fi_ntab - 1];
	fi_ntab--;
	__real_free(p);
	return 1;
}

static void *fi_realloc(void *old, size_t n)
{
	long i;
	void *p;
	size_t on;
	if (!old) return fi_alloc(n, 0);
	i = fi_find(old);
	if (i < 0) return __real_realloc(old, n);        /* not ours: untouched, uncounted */
	if (fi_should_fail()) return NULL;
	on = fi_tab[i].n;
	p = __real_malloc(n ? n : 1);
	if (!p) { fprintf(stderr, "fi: real malloc failed\n"); abort(); }
	memset(p, 0xA5, n);
	memcpy(p, old, on < n ? on : n);
	memset(old, 0xDD, on);
	__real_free(old);
	fi_tab[i].p = p; fi_tab[i].n = n;
	return p;
}

/* ---- CxMem view */
static void *fi_cx_alloc(void *ctx, size_t len) { return fi_alloc(len, 0); }
static void *fi_cx_realloc(void *ctx, void *ptr, size_t len) { return fi_realloc(ptr, len); }
static void fi_cx_free(void *ctx, void *ptr)
{
	/* CxOps contract: c_free never gets NULL (cx_free filters it); tolerating it would hide a regression */
	if (!ptr) { fprintf(stderr, "fi: c_free called with NULL (cx_free must filter it)\n"); abort(); }
	if (!fi_release(ptr)) { fprintf(stderr, "fi: cx_free of a block that is not allocated\n"); abort(); }
}
static const struct CxOps fi_ops = { fi_cx_alloc, fi_cx_realloc, fi_cx_free, NULL };
static const struct CxMem fi_cx = { &fi_ops, NULL };

/* ---- libc view (link with -Wl,--wrap=malloc,--wrap=calloc,--wrap=realloc,--wrap=free,--wrap=strdup) */
void *__wrap_malloc(size_t n) { return fi_armed ? fi_alloc(n, 0) : __real_malloc(n); }
void *__wrap_calloc(size_t a, size_t b)
{
	if (!fi_armed) return __real_calloc(a, b);
	if (b && a > (size_t)-1 / b) { errno = ENOMEM; return NULL; }
	return fi_alloc(a * b, 1);
}
void *__wrap_realloc(void *p, size_t n)
{
	if (!fi_armed) {
		if (p && fi_find(p) >= 0) { fprintf(stderr, "fi: harness reallocs a tracked block\n"); abort(); }
		return __real_realloc(p, n);
	}
	return fi_realloc(p, n);
}
char *__wrap_strdup(const char *s)
{
	size_t n;
	char *p;
	if (!fi_armed) return __real_strdup(s);
	n = strlen(s) + 1;
	p = fi_alloc(n, 0);
	if (p) memcpy(p, s, n);
	return p;
}
void __wrap_free(void *p)
{
	if (!p) return;
	if (fi_ntab && fi_release(p)) return;
	__real_free(p);
}

/* run a library call with the wrappers armed */
#define ARM(stmt) do { fi_armed = 1; stmt; fi_armed = 0; } while (0)

/* ---- output line: "<P>:<ret> <dump> live=<n>" (see lean/Driver/C10.lean) */
static long fi_fired_before;
static void op_begin(void) { fi_fired_before = fi_fired; }
static void op_prefix(int failed)
{
	if (fi_fired > fi_fired_before) fputs(failed ? "F:" : "A:", stdout);
	else fputs("S:", stdout);
}
static void op_end(void) { printf(" live=%ld\n", fi_ntab); }

#endif
