/* C10 harness, part 2: modules that call the libc allocator directly (no CxMem parameter), reached
 * through the --wrap'ped malloc/calloc/realloc/free/strdup of fi.h, plus the cx_* formatting helpers.
 * Model-free families (property monitor only, see checks/C10.py + checks/c10_extra.py):
 *   rx    internal regex (usual/regex.c, compiled here with USE_INTERNAL_REGEX) on top of mempool
 *   mp    mempool directly
 *   fn    compat fnmatch (usual/fnmatch.c; config.h derived without HAVE_FNMATCH[_H]) + wchar.c
 *   mbs   mbstr_decode
 *   tls   tls_config setters
 *   cxs   cx_sprintf / cx_asprintf / cx_strdup / cx_memdup on fi_cx
 * Line protocol as in h.c: "<P>:<ret> <dump> live=<n>"; <dump> is a function of the state only.
 */
#ifndef USE_INTERNAL_REGEX
#define USE_INTERNAL_REGEX 1
#endif
#include "hcommon.h"
#include "fi.h"
#include <locale.h>
#include <wchar.h>
#include <usual/fnmatch.h>
#include <usual/wchar.h>
#include <usual/tls/tls.h>
#include <usual/tls/tls_internal.h>

/* included as source: the dump reads struct MemPool; regex.c must see USE_INTERNAL_REGEX */
#include <usual/mempool.c>
#include <usual/regex.c>

#ifdef USE_SYSTEM_REGEX
#error "the internal regex is what this harness is about"
#endif
#ifndef NEED_USUAL_FNMATCH
#error "the compat fnmatch is what this harness is about"
#endif

/* mempool.c/regex.c are part of this translation unit: an armed statement can be inlined down to a
 * bare calloc(), which glibc declares `leaf` (= does not call back into this unit), and the
 * compiler may then drop the store to the static fi_armed.  The barriers keep it. */
#undef ARM
#define ARM(stmt) do { fi_armed = 1; __asm__ __volatile__("" ::: "memory"); stmt; \
	__asm__ __volatile__("" ::: "memory"); fi_armed = 0; } while (0)

#define CX (&fi_cx)
#define NSLOT 256
#define BAD() do { puts("bad-op"); return; } while (0)
#define SKIP() do { puts("skip"); return; } while (0)

static long slotnum(const char *s)
{
	char *e; long v;
	if (!*s) return -1;
	v = strtol(s, &e, 10);
	if (*e || v < 0 || v >= NSLOT) return -1;
	return v;
}

static int numarg(const char *s, long *out)
{
	char *e;
	if (!*s) return 0;
	errno = 0;
	*out = strtol(s, &e, 10);
	return *e == 0 && errno == 0;
}

/* hex -> NUL-terminated string in an exact-size buffer; NULL when malformed or containing NUL */
static char *hexz(const char *h, long *lenp)
{
	uint8_t *b; char *z;
	long n = hc_unhex(h, &b);
	if (n < 0) return NULL;
	if (memchr(b, 0, n)) { free(b); return NULL; }
	z = malloc(n + 1); memcpy(z, b, n); z[n] = 0; free(b);
	if (lenp) *lenp = n;
	return z;
}

/* -------------------------------------------------------------------- regex */
static regex_t rx;
static int rx_live;

static void rx_dump(void)
{
	if (!rx_live) fputs("rx=none", stdout);
	else printf("rx=nsub%d", (int)rx.re_nsub);
}

static void do_rx(int n, char **w)
{
	long fl; char *z; int err, i;
	if (n == 4 && !strcmp(w[1], "comp")) {
		int fired;
		z = hexz(w[2], NULL);
		if (!z) BAD();
		if (!numarg(w[3], &fl) || fl < 0 || fl > 0xffff) { free(z); BAD(); }
		if (rx_live) { free(z); BAD(); }
		memset(&rx, 0x5a, sizeof rx);
		op_begin(); ARM(err = regcomp(&rx, z, fl));
		free(z);
		fired = fi_fired > fi_fired_before;
		if (err == 0) rx_live = 1;
		else ARM(regfree(&rx));		/* must be safe after a failed regcomp */
		op_prefix(err != 0); printf("%d ", err); rx_dump();
		/* an allocation failure is documented as REG_ESPACE and nothing else */
		if (fired && err != 0 && err != REG_ESPACE) fputs(" CORRUPT(error code)", stdout);
		if (!fired && err == REG_ESPACE) fputs(" CORRUPT(ESPACE without failure)", stdout);
		op_end(); return;
	}
	if (n == 3 && !strcmp(w[1], "exec")) {
		regmatch_t pm[4];
		z = hexz(w[2], NULL);
		if (!z) BAD();
		if (!rx_live) { free(z); SKIP(); }
		/* REG_NOSUB patterns leave pmatch untouched: start from a sentinel, not from stack contents */
		for (i = 0; i < 4; i++) pm[i].rm_so = pm[i].rm_eo = -7;
		op_begin(); ARM(err = regexec(&rx, z, 4, pm, 0));
		free(z);
		op_prefix(0); printf("%d", err);
		if (err == 0) for (i = 0; i < 4; i++) printf(":%ld-%ld", (long)pm[i].rm_so, (long)pm[i].rm_eo);
		putchar(' '); rx_dump(); op_end(); return;
	}
	if (n == 2 && !strcmp(w[1], "free")) {
		if (!rx_live) SKIP();
		op_begin(); ARM(regfree(&rx)); rx_live = 0;
		op_prefix(0); fputs("ok ", stdout); rx_dump(); op_end(); return;
	}
	BAD();
}

/* ------------------------------------------------------------------ mempool */
struct MpBlk { unsigned char *p; size_t len; unsigned char pat; };
static struct MemPool *mp_pool;
static struct MpBlk mp_slot[NSLOT];

static void mp_dump(void)
{
	struct MemPool *s; int i, first = 1, segs = 0, bad = 0; size_t j;
	for (s = mp_pool; s; s = s->prev) segs++;
	printf("segs=%d [", segs);
	for (i = 0; i < NSLOT; i++) {
		if (!mp_slot[i].p) continue;
		printf("%s%d:%zu", first ? "" : ",", i, mp_slot[i].len); first = 0;
		for (j = 0; j < mp_slot[i].len; j++) if (mp_slot[i].p[j] != mp_slot[i].pat) bad = 1;
	}
	putchar(']');
	if (bad) fputs(" CORRUPT", stdout);
}

static void do_mp(int n, char **w)
{
	long s, a;
	if (n == 4 && !strcmp(w[1], "alloc")) {
		unsigned char *p; size_t j; int dirty = 0;
		s = slotnum(w[2]);
		if (s < 0 || !numarg(w[3], &a) || a <= 0 || a > 1000000) BAD();
		if (mp_slot[s].p) BAD();
		op_begin(); ARM(p = mempool_alloc(&mp_pool, a));
		if (p) {
			/* documented: memory comes zeroed (calloc) */
			for (j = 0; j < (size_t)a; j++) if (p[j]) dirty = 1;
			mp_slot[s].p = p; mp_slot[s].len = a; mp_slot[s].pat = 0x21 + (s % 200);
			memset(p, mp_slot[s].pat, a);
		}
		op_prefix(!p); fputs(p ? "ok " : "null ", stdout); mp_dump();
		if (dirty) fputs(" CORRUPT(not zeroed)", stdout);
		op_end(); return;
	}
	if (n == 2 && !strcmp(w[1], "free")) {
		op_begin(); ARM(mempool_destroy(&mp_pool)); memset(mp_slot, 0, sizeof mp_slot);
		op_prefix(0); fputs("ok ", stdout); mp_dump();
		if (mp_pool) fputs(" CORRUPT(pool pointer not cleared)", stdout);
		op_end(); return;
	}
	BAD();
}

/* ------------------------------------------------------------ fnmatch / wchar */
static void do_fn(int n, char **w)
{
	char *p, *s; long fl; int r, fired;
	if (n != 5 || strcmp(w[1], "match")) BAD();
	p = hexz(w[2], NULL);
	if (!p) BAD();
	s = hexz(w[3], NULL);
	if (!s) { free(p); BAD(); }
	if (!numarg(w[4], &fl) || fl < 0 || fl > 31) { free(p); free(s); BAD(); }
	op_begin(); errno = 0; ARM(r = fnmatch(p, s, fl));
	free(p); free(s);
	fired = fi_fired > fi_fired_before;
	op_prefix(r == -1); printf("%d", r);
	if (!fired && r == -1) fputs(" CORRUPT(-1 without failure)", stdout);
	op_end();
}

static void do_mbs(int n, char **w)
{
	uint8_t *b; long bl, allow; wchar_t *r; int wl = -7, i;
	uint64_t h = HC_FNV_INIT;
	if (n != 4 || strcmp(w[1], "decode")) BAD();
	bl = hc_unhex(w[2], &b);
	if (bl < 0) BAD();
	if (!numarg(w[3], &allow) || allow < 0 || allow > 1) { free(b); BAD(); }
	op_begin(); ARM(r = mbstr_decode((char *)b, bl, &wl, NULL, 0, allow));
	free(b);
	op_prefix(!r);
	if (!r) fputs("null", stdout);
	else {
		int ok = wl >= 0 && wl <= bl && r[wl] == 0;
		for (i = 0; ok && i < wl; i++) h = hc_fnv(h, (uint64_t)r[i]);
		if (ok) printf("ok:%d:%016llx", wl, (unsigned long long)h); else fputs("CORRUPT(length)", stdout);
		ARM(free(r));
	}
	op_end();
}

/* --------------------------------------------------------------- tls_config */
static struct tls_config *tc;

/* only what a failing setter provably keeps: the fields that are plain numbers */
static void tc_dump(void)
{
	if (!tc) { fputs("none", stdout); return; }
	printf("cfg p=%u dh=%d ec=%d", (unsigned)tc->protocols, tc->dheparams, tc->ecdhecurve);
}

/* contents of every string / blob field of the config: present?, length, hash */
#define TC_NF 10
struct TcField { int set; size_t len; uint64_t h; };
static const char *tc_fname[TC_NF] = { "ca_file", "ca_path", "ca_mem", "ciphers", "ocsp_file", "ocsp_mem",
	"cert_file", "cert_mem", "key_file", "key_mem" };
static void tc_one(struct TcField *f, const void *p, size_t len)
{
	size_t i; const unsigned char *b = p;
	f->set = p != NULL; f->len = len; f->h = HC_FNV_INIT;
	for (i = 0; p && i < len; i++) f->h = hc_fnv(f->h, b[i]);
}
static void tc_str(struct TcField *f, const char *s) { tc_one(f, s, s ? strlen(s) : 0); }
static void tc_snap(struct TcField *f)
{
	struct tls_keypair *kp = tc->keypair;
	tc_str(&f[0], tc->ca_file); tc_str(&f[1], tc->ca_path); tc_one(&f[2], tc->ca_mem, tc->ca_len);
	tc_str(&f[3], tc->ciphers); tc_str(&f[4], tc->ocsp_file); tc_one(&f[5], tc->ocsp_mem, tc->ocsp_len);
	tc_str(&f[6], kp->cert_file); tc_one(&f[7], kp->cert_mem, kp->cert_len);
	tc_str(&f[8], kp->key_file); tc_one(&f[9], kp->key_mem, kp->key_len);
	/* a blob that is unset must be cleanly unset: NULL and length 0 */
	if (!tc->ca_mem && tc->ca_len) f[2].set = -1;
	if (!tc->ocsp_mem && tc->ocsp_len) f[5].set = -1;
	if (!kp->cert_mem && kp->cert_len) f[7].set = -1;
	if (!kp->key_mem && kp->key_len) f[9].set = -1;
}
static int tc_same(const struct TcField *a, const struct TcField *b)
{
	return a->set == b->set && a->len == b->len && a->h == b->h;
}

static void do_tls(int n, char **w)
{
	struct TcField before[TC_NF], afterf[TC_NF]; int fi_, certnew = 0;
	int r = 0, fired; char *z; uint8_t *b; long bl;
	const char *what;
	const void *after = NULL; int havefield = 0;
	if (n == 2 && !strcmp(w[1], "new")) {
		if (tc) BAD();
		op_begin(); ARM(tc = tls_config_new());
		op_prefix(!tc); fputs(tc ? "ok " : "null ", stdout); tc_dump(); op_end(); return;
	}
	if (n == 2 && !strcmp(w[1], "free")) {
		if (!tc) SKIP();
		op_begin(); ARM(tls_config_free(tc)); tc = NULL;
		op_prefix(0); fputs("ok ", stdout); tc_dump(); op_end(); return;
	}
	if (n != 4 || strcmp(w[1], "set")) BAD();
	what = w[2];
	bl = hc_unhex(w[3], &b);
	if (bl < 0) BAD();
	if (memchr(b, 0, bl)) { free(b); BAD(); }
	z = malloc(bl + 1); memcpy(z, b, bl); z[bl] = 0;
	if (!tc) { free(b); free(z); SKIP(); }
	tc_snap(before);
	op_begin();
	if (!strcmp(what, "ca_file")) { ARM(r = tls_config_set_ca_file(tc, z)); after = tc->ca_file; havefield = 1; }
	else if (!strcmp(what, "ca_path")) { ARM(r = tls_config_set_ca_path(tc, z)); after = tc->ca_path; havefield = 1; }
	else if (!strcmp(what, "ca_mem")) { ARM(r = tls_config_set_ca_mem(tc, b, bl)); after = tc->ca_mem; havefield = 1; }
	else if (!strcmp(what, "cert_file")) { ARM(r = tls_config_set_cert_file(tc, z)); after = tc->keypair->cert_file; havefield = 1; }
	else if (!strcmp(what, "cert_mem")) { ARM(r = tls_config_set_cert_mem(tc, b, bl)); after = tc->keypair->cert_mem; havefield = 1; }
	else if (!strcmp(what, "key_file")) { ARM(r = tls_config_set_key_file(tc, z)); after = tc->keypair->key_file; havefield = 1; }
	else if (!strcmp(what, "key_mem")) { ARM(r = tls_config_set_key_mem(tc, b, bl)); after = tc->keypair->key_mem; havefield = 1; }
	else if (!strcmp(what, "ciphers")) { ARM(r = tls_config_set_ciphers(tc, z)); after = tc->ciphers; havefield = 1; }
	else if (!strcmp(what, "protocols")) {
		uint32_t pr = 0xdeadbeef;
		ARM(r = tls_config_parse_protocols(&pr, z));
		if (r == 0) tls_config_set_protocols(tc, pr);
	}
	else if (!strcmp(what, "dheparams")) ARM(r = tls_config_set_dheparams(tc, z));
	else if (!strcmp(what, "ecdhecurve")) ARM(r = tls_config_set_ecdhecurve(tc, z));
	else if (!strcmp(what, "keypair_mem")) {
		/* certificate = the bytes, key = the bytes reversed */
		uint8_t *k = malloc(bl + 1); long i;
		for (i = 0; i < bl; i++) k[i] = b[bl - 1 - i];
		ARM(r = tls_config_set_keypair_mem(tc, b, bl, k, bl));
		free(k);
	}
	else if (!strcmp(what, "ocsp_stapling_mem")) { ARM(r = tls_config_set_ocsp_stapling_mem(tc, b, bl)); after = tc->ocsp_mem; havefield = 1; }
	else { free(b); free(z); BAD(); }
	fired = fi_fired > fi_fired_before;
	tc_snap(afterf);
	/* set_keypair_mem is documented as two steps: the certificate may already be the new one */
	if (!strcmp(what, "keypair_mem") && tc->keypair->cert_mem && tc->keypair->cert_len == (size_t)bl &&
	    !memcmp(tc->keypair->cert_mem, b, bl)) certnew = 1;
	free(b); free(z);
	op_prefix(r != 0); printf("%d", r);
	/* a setter failed by the allocator: every field is what it was, or cleanly unset (NULL, len 0:
	 * the library releases the old value before it duplicates the new one) -- a non-NULL field
	 * with other contents is neither */
	if (fired && r != 0)
		for (fi_ = 0; fi_ < TC_NF; fi_++) {
			int unset = afterf[fi_].set == 0 && afterf[fi_].len == 0;
			if (tc_same(&before[fi_], &afterf[fi_]) || unset) continue;
			if (fi_ == 7 && certnew) continue;
			printf(" CORRUPT(%s)", tc_fname[fi_]);
		}
	/* observation only (not part of the state dump): what a failed setter left in its field */
	if (fired && r != 0 && havefield) fputs(after ? ":field-kept" : ":field-cleared", stdout);
	putchar(' '); tc_dump(); op_end();
}

/* ----------------------------------------------------- cx_* string helpers */
static void do_cxs(int n, char **w)
{
	char *z, *r = NULL, exp[4096]; long a = 0, zl; int len, elen;
	if (n < 3) BAD();
	z = hexz(w[2], &zl);
	if (!z) BAD();
	if (zl > 1500) { free(z); BAD(); }
	if ((n == 4 && (!strcmp(w[1], "sprintf") || !strcmp(w[1], "asprintf")))) {
		if (!numarg(w[3], &a) || a < -1000000 || a > 1000000) { free(z); BAD(); }
		elen = snprintf(exp, sizeof exp, "%s/%d|%s", z, (int)a, z);
		op_begin();
		if (w[1][0] == 's') { ARM(r = cx_sprintf(CX, "%s/%d|%s", z, (int)a, z)); len = r ? (int)strlen(r) : -1; }
		else { r = (char *)z; ARM(len = cx_asprintf(CX, &r, "%s/%d|%s", z, (int)a, z)); }
		free(z);
		op_prefix(!r);
		if (!r) { printf("null:%d", len); if (len != -1) fputs(" CORRUPT(return value)", stdout); }
		else {
			printf("%d:", len); hc_puthex(r, strlen(r));
			if (len != elen || strcmp(r, exp)) fputs(" CORRUPT(text)", stdout);
			ARM(cx_free(CX, r));
		}
		op_end(); return;
	}
	if (n == 3 && (!strcmp(w[1], "strdup") || !strcmp(w[1], "memdup"))) {
		op_begin();
		if (w[1][0] == 's') ARM(r = cx_strdup(CX, z)); else ARM(r = cx_memdup(CX, z, zl));
		op_prefix(!r);
		if (!r) fputs("null", stdout);
		else {
			hc_puthex(r, zl);
			if (memcmp(r, z, zl) || (w[1][0] == 's' && r[zl])) fputs(" CORRUPT(copy)", stdout);
			ARM(cx_free(CX, r));
		}
		free(z);
		op_end(); return;
	}
	free(z);
	BAD();
}

/* --------------------------------------------------------------- dispatcher */
static void reset_all(void)
{
	/* structures of an unfinished case are dropped (their memory is simply forgotten) */
	rx_live = 0; mp_pool = NULL; memset(mp_slot, 0, sizeof mp_slot); tc = NULL;
	fi_reset();
}

static void dispatch(char *line)
{
	char *w[16]; int n, i; char *e;
	n = hc_words(line, w, 16);
	if (n == 0) BAD();
	if (n == 1 && !strcmp(w[0], "#case")) { reset_all(); puts("#case"); return; }
	if (!strcmp(w[0], "fail")) {
		if (n - 1 > FI_MAXFAIL) BAD();
		for (i = 1; i < n; i++) { long v = strtol(w[i], &e, 10); if (*e || v < 0) BAD(); }
		fi_nfail = 0;
		for (i = 1; i < n; i++) fi_fail[fi_nfail++] = strtol(w[i], NULL, 10);
		puts("ok"); return;
	}
	if (n == 1 && !strcmp(w[0], "end")) {
		printf("req=%ld fired=%ld live=%ld\n", fi_requests, fi_fired, fi_ntab); return;
	}
	if (n == 1 && !strcmp(w[0], "nop")) { puts("nop"); return; }
	if (!strcmp(w[0], "rx")) { do_rx(n, w); return; }
	if (!strcmp(w[0], "mp")) { do_mp(n, w); return; }
	if (!strcmp(w[0], "fn")) { do_fn(n, w); return; }
	if (!strcmp(w[0], "mbs")) { do_mbs(n, w); return; }
	if (!strcmp(w[0], "tls")) { do_tls(n, w); return; }
	if (!strcmp(w[0], "cxs")) { do_cxs(n, w); return; }
	BAD();
}

int main(void)
{
	char *line;
	const char *loc;
	setvbuf(stdout, NULL, _IOFBF, 1 << 16);
	/* fnmatch/mbstr_decode work on the locale's multibyte encoding */
	loc = setlocale(LC_CTYPE, "C.UTF-8");
	if (!loc) loc = setlocale(LC_CTYPE, "en_US.UTF-8");
	if (!loc) setlocale(LC_CTYPE, "C");
	reset_all();
	while ((line = hc_line()) != NULL) {
		if (!strcmp(line, "locale")) { puts(setlocale(LC_CTYPE, NULL)); fflush(stdout); continue; }
		dispatch(line);
		/* flushed per line so that output written before a crash is not lost */
		fflush(stdout);
	}
	return 0;
}
