/* C07 harness: drives the real usual/aatree.c (compiled from the working tree) through the
 * line protocol of FRAMEWORK.md.  See lean/Driver/C07.lean for the output format.
 *
 *   ins K | rem K | find K | walk in|pre|post | destroy | count
 *   tN <op>  : the op goes to tree N (0..2, default 0); three trees are alive at once, trees 0
 *              and 1 with a release callback, tree 2 created with release_cb == NULL (the
 *              harness frees its removed nodes itself; `destroy` is refused on it unless empty,
 *              because aatree_destroy would call the NULL callback)
 *   cmp sign|diff|sat : re-create all trees with that comparator: (k>x)-(k<x) | (int)(k-x)
 *              (keys limited to |k| < 2^30, others are bad-op) | k-x saturated to
 *              [INT_MIN, INT_MAX] (returns exactly INT_MIN / INT_MAX for far-apart keys)
 *   height   : `hb=<0|1> ## h=<height> n=<nodes> lim=<2*floor(log2(n+1))>`
 *   bulk asc|desc|alt|rnd N [S] : insert N keys (1..N ascending / descending / 1,N,2,N-1,.. /
 *              pseudo-random 29-bit keys from seed S) without per-op output, then one
 *              mutating-op line `bulk=<nodes linked> c=.. ..` (big trees stay cheap)
 *   nwalk O I tM i1,i2,.. : NESTED walks: walk the addressed tree in order O (in|pre|post); at
 *              the visit numbers i1<i2<.. (0-based, at most 8) the walker callback itself runs
 *              a complete walk of tree M in order I.  Prints the outer visit sequence and
 *              every inner one (in-order sequences as they are, pre/post sorted; raw order
 *              after " ## ").  Walks are read-only, so nesting must not change any sequence.
 *   reins K : aatree_insert() once more with the node object that is ALREADY linked in the
 *             tree for key K (a present-key insert with the caller's own, linked node);
 *             nothing is called when K is absent (reins=0)
 *
 * observable: result flag, tree->count, "AA level rules hold" and "height <= 2*log2(n+1)"
 * as inspected through the public struct AANode{left,right,level}, in-order keys obtained
 * with aatree_walk(), keys passed to release_cb during the op (in call order).
 * internal (after " ## "): pre-order dump of the whole structure; for destroy also the order
 * of the release calls (observable there: the sorted keys).
 */
#include "hcommon.h"
#include <stdarg.h>
#include <limits.h>
#include <setjmp.h>
#include <usual/aatree.h>

struct N {
	struct AANode n;
	long long key;
};

#define NTREES 3
#define NOCB_TREE 2
static struct AATree trees[NTREES];
static struct AATree *cur = &trees[0];	/* tree addressed by the current op */
#define tree (*cur)

/* growing list of keys */
struct KL { long long *v; size_t n, cap; };
static void kl_add(struct KL *l, long long k)
{
	if (l->n == l->cap) {
		l->cap = l->cap ? l->cap * 2 : 64;
		l->v = realloc(l->v, l->cap * sizeof(long long));
	}
	l->v[l->n++] = k;
}

/* ---- output: every op renders its line into `ob`; emit() prints it or folds it into the
 * range hashes (perms mode) */
static char *ob;
static size_t on, ocap;
static void o_printf(const char *fmt, ...)
{
	va_list ap;
	int k;
	for (;;) {
		va_start(ap, fmt);
		k = vsnprintf(ob + on, ocap - on, fmt, ap);
		va_end(ap);
		if (k >= 0 && (size_t)k < ocap - on) { on += k; return; }
		ocap = ocap ? ocap * 2 : 4096;
		ob = realloc(ob, ocap);
	}
}
static int hash_mode;
static uint64_t h_obs, h_int;
static uint64_t fnv_bytes(uint64_t h, const char *p, size_t n)
{
	size_t i;
	for (i = 0; i < n; i++) { h ^= (unsigned char)p[i]; h *= 0x100000001b3ULL; }
	return h;
}
static void emit(void)
{
	if (!hash_mode) {
		fwrite(ob, 1, on, stdout);
		fputc('\n', stdout);
	} else {
		/* observable part + "\n" into h_obs, internal part + "\n" into h_int */
		char *sep;
		size_t a;
		ob[on] = 0;
		sep = strstr(ob, " ## ");
		a = sep ? (size_t)(sep - ob) : on;
		h_obs = fnv_bytes(h_obs, ob, a);
		h_obs = fnv_bytes(h_obs, "\n", 1);
		if (sep)
			h_int = fnv_bytes(h_int, sep + 4, on - a - 4);
		h_int = fnv_bytes(h_int, "\n", 1);
	}
	on = 0;
}

static struct KL rel;		/* release_cb calls during the current op */
static int rel_quiet;

enum { CMP_SIGN, CMP_DIFF, CMP_SAT };
static int cmp_mode = CMP_SIGN;

static int cmp_cb(uintptr_t value, struct AANode *node)
{
	long long k = (long long)(intptr_t)value;
	struct N *x = (struct N *)node;
	long long d;
	switch (cmp_mode) {
	case CMP_DIFF:		/* plain difference; keys are limited so that it fits an int */
		return (int)(k - x->key);
	case CMP_SAT:		/* difference saturated to the int range */
		d = k - x->key;
		if (d < INT_MIN) return INT_MIN;
		if (d > INT_MAX) return INT_MAX;
		return (int)d;
	default:
		return (k > x->key) - (k < x->key);
	}
}

/* nodes removed from the tree without callback: owned by the harness again */
static struct N **grave;
static size_t ngrave, capgrave;
static void grave_add(struct N *x)
{
	if (ngrave == capgrave) {
		capgrave = capgrave ? capgrave * 2 : 64;
		grave = realloc(grave, capgrave * sizeof(*grave));
	}
	grave[ngrave++] = x;
}

static void release_cb(struct AANode *node, void *arg)
{
	struct N *x = (struct N *)node;
	if (arg != &tree) {
		o_printf("release-bad-arg ");
	}
	size_t i;
	if (!rel_quiet)
		kl_add(&rel, x->key);
	/* a node that was handed back to the harness must never show up here; if it does it is
	 * logged above, and taken off the harness' list so that it is freed only once */
	for (i = 0; i < ngrave; i++)
		if (grave[i] == x) {
			grave[i] = grave[--ngrave];
			o_printf("release-foreign-node ");
			break;
		}
	/* give the memory back at once: any later touch of the node is an ASan report */
	free(x);
}

static void collect_cb(struct AANode *node, void *arg)
{
	kl_add((struct KL *)arg, ((struct N *)node)->key);
}

#define LIMIT 40

static void put_keys(const struct KL *l)
{
	size_t i;
	if (l->n == 0) {
		o_printf("-");
	} else if (l->n <= LIMIT) {
		for (i = 0; i < l->n; i++)
			o_printf(i ? ",%lld" : "%lld", l->v[i]);
	} else {
		uint64_t h = HC_FNV_INIT;
		for (i = 0; i < l->n; i++)
			h = hc_fnv(h, (uint64_t)l->v[i]);
		o_printf("#%zu:%016llx", l->n, (unsigned long long)h);
	}
}

/* ---- inspection through the public node struct */
static size_t t_size(const struct AANode *n)
{
	if (aatree_is_nil_node(n)) return 0;
	return t_size(n->left) + 1 + t_size(n->right);
}
static size_t t_height(const struct AANode *n)
{
	size_t a, b;
	if (aatree_is_nil_node(n)) return 0;
	a = t_height(n->left); b = t_height(n->right);
	return (a > b ? a : b) + 1;
}
/* the AA level rules, same clauses as Usual.C07.aa */
static int t_aa(const struct AANode *n)
{
	if (aatree_is_nil_node(n))
		return n->level == 0 && n->right == n;
	return t_aa(n->left) && t_aa(n->right)
		&& n->left->level + 1 == n->level
		&& (n->right->level == n->level || n->right->level + 1 == n->level)
		&& n->right->right->level < n->level;
}
static void t_shape(const struct AANode *n)
{
	if (aatree_is_nil_node(n)) { o_printf("."); return; }
	o_printf("(%lld:%d ", ((const struct N *)n)->key, n->level);
	t_shape(n->left);
	o_printf(" ");
	t_shape(n->right);
	o_printf(")");
}
static uint64_t t_shape_hash(const struct AANode *n, uint64_t h)
{
	if (aatree_is_nil_node(n)) return hc_fnv(h, 0);
	h = hc_fnv(h, 1);
	h = hc_fnv(h, (uint64_t)((const struct N *)n)->key);
	h = hc_fnv(h, (uint64_t)(int64_t)n->level);
	h = t_shape_hash(n->left, h);
	return t_shape_hash(n->right, h);
}
static unsigned ilog2(size_t v) { unsigned r = 0; while (v >>= 1) r++; return r; }

static int cmp_ll(const void *a, const void *b)
{
	long long x = *(const long long *)a, y = *(const long long *)b;
	return (x > y) - (x < y);
}

/* is_destroy: the property fixes WHICH nodes are released, not the order in which destroy
 * visits them: observable = sorted keys, internal = call order */
static void mut_line(const char *r, int is_destroy)
{
	struct KL in = { NULL, 0, 0 };
	struct KL ord = { NULL, 0, 0 };
	if (is_destroy) {
		size_t i;
		for (i = 0; i < rel.n; i++) kl_add(&ord, rel.v[i]);
		if (rel.n)
			qsort(rel.v, rel.n, sizeof(long long), cmp_ll);
	}
	size_t n = t_size(tree.root);
	aatree_walk(&tree, AA_WALK_IN_ORDER, collect_cb, &in);
	o_printf("%s c=%d aa=%d hb=%d in=", r, tree.count, t_aa(tree.root) ? 1 : 0,
	       t_height(tree.root) <= 2 * (size_t)ilog2(n + 1) ? 1 : 0);
	put_keys(&in);
	o_printf(" rel=");
	put_keys(&rel);
	o_printf(" ## ");
	if (n <= LIMIT)
		t_shape(tree.root);
	else
		o_printf("#%zu:%016llx", n, (unsigned long long)t_shape_hash(tree.root, HC_FNV_INIT));
	if (is_destroy) {
		o_printf(" ord=");
		put_keys(&ord);
		free(ord.v);
	}
	emit();
	free(in.v);
}

static int parse_key(const char *s, long long *out)
{
	const char *p = s;
	size_t n;
	if (*p == '-') p++;
	n = strlen(p);
	if (n == 0 || n > 18) return 0;
	if (strspn(p, "0123456789") != n) return 0;
	*out = strtoll(s, NULL, 10);
	return 1;
}

static void collect_ptr_cb(struct AANode *node, void *arg)
{
	grave_add((struct N *)node);
}

/* all trees back to aatree_init state; comparator unchanged */
static void reset(void)
{
	int t;
	size_t i;
	rel_quiet = 1;
	for (t = 0; t < NTREES; t++) {
		if (t == NOCB_TREE) {
			/* no callback: collect the nodes (children first), forget the tree */
			aatree_walk(&trees[t], AA_WALK_POST_ORDER, collect_ptr_cb, NULL);
		} else {
			cur = &trees[t];
			aatree_destroy(&trees[t]);
		}
		aatree_init(&trees[t], cmp_cb, t == NOCB_TREE ? NULL : release_cb);
	}
	for (i = 0; i < ngrave; i++)
		free(grave[i]);
	ngrave = 0;
	on = 0;
	rel_quiet = 0;
	cur = &trees[0];
}

/* locate a node by key / by address through the public link fields only (independent of
 * aatree_search and of the comparator under test): descent first, whole tree as fallback */
static struct AANode *t_find_all(struct AANode *n, long long k, const struct AANode *p)
{
	struct AANode *r;
	if (aatree_is_nil_node(n)) return NULL;
	if (p ? n == p : ((struct N *)n)->key == k) return n;
	r = t_find_all(n->left, k, p);
	return r ? r : t_find_all(n->right, k, p);
}
static struct AANode *t_find_key(long long k)
{
	struct AANode *n = tree.root;
	while (!aatree_is_nil_node(n)) {
		long long x = ((struct N *)n)->key;
		if (k == x) return n;
		n = k < x ? n->left : n->right;
	}
	return t_find_all(tree.root, k, NULL);
}
static int t_linked(const struct AANode *p, long long k)
{
	struct AANode *n = t_find_key(k);
	return n == p || t_find_all(tree.root, 0, p) != NULL;
}

static int quiet_ops;	/* perms mode: perform the op, do not render/hash its line */

static void op_ins(long long k)
{
	struct N *x = calloc(1, sizeof *x);
	int linked;
	rel.n = 0;
	x->key = k;
	/* garbage in the link fields: insert_sub must initialise them itself */
	x->n.left = x->n.right = (struct AANode *)(uintptr_t)0x10;
	x->n.level = 77;
	aatree_insert(&tree, (uintptr_t)(intptr_t)k, &x->n);
	linked = t_linked(&x->n, k);
	if (!linked)
		free(x);
	if (!quiet_ops)
		mut_line(linked ? "ins=1" : "ins=0", 0);
}

/* insert a present key again, passing the very node object that is linked in the tree */
static void op_reins(long long k)
{
	struct AANode *r;
	rel.n = 0;
	r = t_find_key(k);
	if (r)
		aatree_insert(&tree, (uintptr_t)(intptr_t)k, r);
	if (!quiet_ops)
		mut_line(r ? "reins=1" : "reins=0", 0);
}

static void op_rem(long long k)
{
	struct AANode *r = NULL;
	rel.n = 0;
	if (cur == &trees[NOCB_TREE])
		r = t_find_key(k);
	aatree_remove(&tree, (uintptr_t)(intptr_t)k);
	/* no callback on this tree: an unlinked node belongs to the harness again */
	if (r && !t_linked(r, k))
		grave_add((struct N *)r);
	mut_line("rem", 0);
}

static int parse_nat(const char *s, long *out);

/* ---- height */
static void op_height(void)
{
	size_t n = t_size(tree.root), h = t_height(tree.root), lim = 2 * (size_t)ilog2(n + 1);
	printf("hb=%d ## h=%zu n=%zu lim=%zu\n", h <= lim ? 1 : 0, h, n, lim);
}

/* ---- bulk insertion without per-op output */
static uint64_t mix64(uint64_t z)
{
	z *= 0x9E3779B97F4A7C15ULL;
	z = (z ^ (z >> 30)) * 0xBF58476D1CE4E5B9ULL;
	z = (z ^ (z >> 27)) * 0x94D049BB133111EBULL;
	return z ^ (z >> 31);
}

static int bulk_ins(long long k)
{
	struct N *x = calloc(1, sizeof *x);
	x->key = k;
	x->n.left = x->n.right = (struct AANode *)(uintptr_t)0x10;
	x->n.level = 77;
	aatree_insert(&tree, (uintptr_t)(intptr_t)k, &x->n);
	if (t_linked(&x->n, k))
		return 1;
	free(x);
	return 0;
}

static int op_bulk(const char *kind, const char *ns, const char *ss)
{
	long n, seed = 0, i, lo, hi, linked = 0;
	char lbl[48];
	if (!parse_nat(ns, &n) || n < 1 || n > 200000) return 0;
	if (!strcmp(kind, "rnd")) {
		if (!ss || !parse_nat(ss, &seed)) return 0;
	} else if (ss || (strcmp(kind, "asc") && strcmp(kind, "desc") && strcmp(kind, "alt"))) {
		return 0;
	}
	rel.n = 0;
	if (!strcmp(kind, "asc")) {
		for (i = 1; i <= n; i++) linked += bulk_ins(i);
	} else if (!strcmp(kind, "desc")) {
		for (i = n; i >= 1; i--) linked += bulk_ins(i);
	} else if (!strcmp(kind, "alt")) {
		for (lo = 1, hi = n; lo <= hi; lo++, hi--) {
			linked += bulk_ins(lo);
			if (hi != lo) linked += bulk_ins(hi);
		}
	} else {
		for (i = 1; i <= n; i++)
			linked += bulk_ins((long long)(mix64(((uint64_t)seed << 32) + (uint64_t)i) >> 35));
	}
	snprintf(lbl, sizeof lbl, "bulk=%ld", linked);
	mut_line(lbl, 0);
	return 1;
}

/* ---- nested walks */
#define NW_MAX 8
struct NW {
	struct KL outer;
	struct KL inner[NW_MAX];
	long idx[NW_MAX];
	int nidx, pos;
	long visits, cap;
	struct AATree *itree;
	enum AATreeWalkType iorder;
	jmp_buf runaway;
};

static void nw_outer_cb(struct AANode *node, void *arg)
{
	struct NW *c = arg;
	if (c->visits >= c->cap)
		longjmp(c->runaway, 1);		/* a walk that does not end is a result too */
	kl_add(&c->outer, ((struct N *)node)->key);
	if (c->pos < c->nidx && c->visits == c->idx[c->pos]) {
		int p = c->pos++;
		aatree_walk(c->itree, c->iorder, collect_cb, &c->inner[p]);
	}
	c->visits++;
}

static int parse_order(const char *s, enum AATreeWalkType *t)
{
	if (!strcmp(s, "in")) *t = AA_WALK_IN_ORDER;
	else if (!strcmp(s, "pre")) *t = AA_WALK_PRE_ORDER;
	else if (!strcmp(s, "post")) *t = AA_WALK_POST_ORDER;
	else return 0;
	return 1;
}

static void put_canon(const struct KL *l, enum AATreeWalkType t)
{
	if (t == AA_WALK_IN_ORDER) {
		put_keys(l);
	} else {
		struct KL srt = { NULL, 0, 0 };
		size_t i;
		for (i = 0; i < l->n; i++) kl_add(&srt, l->v[i]);
		if (srt.n)
			qsort(srt.v, srt.n, sizeof(long long), cmp_ll);
		put_keys(&srt);
		free(srt.v);
	}
}

static int op_nwalk(char **w)
{
	static struct NW c;
	enum AATreeWalkType oo;
	char *p, *q;
	int i, ran_away = 0;
	memset(&c, 0, sizeof c);
	if (!parse_order(w[1], &oo) || !parse_order(w[2], &c.iorder)) return 0;
	if (!(w[3][0] == 't' && w[3][1] >= '0' && w[3][1] < '0' + NTREES && w[3][2] == 0)) return 0;
	c.itree = &trees[w[3][1] - '0'];
	for (p = w[4]; ; p = q + 1) {
		char save;
		q = p + strcspn(p, ",");
		save = *q;
		*q = 0;
		if (c.nidx == NW_MAX || !parse_nat(p, &c.idx[c.nidx])) return 0;
		if (c.nidx && c.idx[c.nidx] <= c.idx[c.nidx - 1]) return 0;
		c.nidx++;
		if (!save) break;
	}
	c.cap = 4 * (long)(t_size(tree.root) + t_size(c.itree->root)) + 16;
	if (setjmp(c.runaway) == 0)
		aatree_walk(&tree, oo, nw_outer_cb, &c);
	else
		ran_away = 1;
	o_printf(ran_away ? "nw-runaway=" : "nw=");
	put_canon(&c.outer, oo);
	for (i = 0; i < c.pos; i++) {
		o_printf(" i%ld=", c.idx[i]);
		put_canon(&c.inner[i], c.iorder);
	}
	o_printf(" ## ");
	put_keys(&c.outer);
	for (i = 0; i < c.pos; i++) {
		o_printf(" ");
		put_keys(&c.inner[i]);
	}
	emit();
	free(c.outer.v);
	for (i = 0; i < NW_MAX; i++) free(c.inner[i].v);
	return 1;
}

/* idx-th permutation of 1..n in lexicographic order (factoradic digits) */
static void nth_perm(int n, long idx, int *out)
{
	int avail[16], i, j, m = n;
	long f = 1;
	for (i = 0; i < n; i++) avail[i] = i + 1;
	for (i = 2; i < n; i++) f *= i;		/* (n-1)! */
	for (i = 0; i < n; i++) {
		long d = idx / f;
		idx %= f;
		out[i] = avail[d];
		for (j = d; j < m - 1; j++) avail[j] = avail[j + 1];
		m--;
		if (m > 1) f /= m;
	}
}

static long fact(int n) { long f = 1; int i; for (i = 2; i <= n; i++) f *= i; return f; }

static int parse_nat(const char *s, long *out)
{
	size_t n = strlen(s);
	if (n == 0 || n > 9 || strspn(s, "0123456789") != n) return 0;
	*out = strtol(s, NULL, 10);
	return 1;
}

/* perms n ilo ihi jlo jhi: for every insertion order i in [ilo,ihi) and removal order j in
 * [jlo,jhi) of the keys 1..n: fresh tree, insert in order i, remove in order j.  Answers the
 * hashes (observable ## internal) of the op output lines in this order: for each i the n
 * insertion lines, n lines `reins 1` .. `reins n` and n+1 lines `find 0` .. `find n` once, then
 * for each j the n removal lines. */
static int op_perms(char **w)
{
	long n, ilo, ihi, jlo, jhi, i, j;
	int pi[16], pj[16], t;
	/* saturating comparator: keys 2^31 apart, so that adjacent keys compare as exactly
	 * INT_MIN and farther ones saturate */
	long long scale = cmp_mode == CMP_SAT ? 2147483648LL : 1, off = cmp_mode == CMP_SAT ? 3 : 0;
	if (!parse_nat(w[1], &n) || !parse_nat(w[2], &ilo) || !parse_nat(w[3], &ihi) ||
	    !parse_nat(w[4], &jlo) || !parse_nat(w[5], &jhi))
		return 0;
	if (n < 1 || n > 9 || ilo > ihi || jlo > jhi || ihi > fact(n) || jhi > fact(n))
		return 0;
	reset();
	hash_mode = 1;
	h_obs = h_int = HC_FNV_INIT;
	for (i = ilo; i < ihi; i++) {
		nth_perm(n, i, pi);
		for (j = jlo; j < jhi; j++) {
			nth_perm(n, j, pj);
			reset();
			quiet_ops = (j != jlo);
			for (t = 0; t < n; t++) op_ins((pi[t] - off) * scale);
			if (!quiet_ops) {
				for (t = 1; t <= n; t++) op_reins((t - off) * scale);
				/* and aatree_search for every key plus one absent key below all */
				for (t = 0; t <= n; t++) {
					long long k = (t - off) * scale;
					struct AANode *r = aatree_search(&tree, (uintptr_t)(intptr_t)k);
					if (r)
						o_printf("f=1:%lld", ((struct N *)r)->key);
					else
						o_printf("f=0");
					emit();
				}
			}
			quiet_ops = 0;
			for (t = 0; t < n; t++) op_rem((pj[t] - off) * scale);
		}
	}
	hash_mode = 0;
	reset();
	printf("ph=%016llx ## %016llx\n", (unsigned long long)h_obs, (unsigned long long)h_int);
	return 1;
}

static int key_ok(long long k)
{
	return cmp_mode != CMP_DIFF || (k > -(1LL << 30) && k < (1LL << 30));
}

int main(void)
{
	char *line;
	char *wbuf[10];
	int t;
	/* line buffered: after a crash every completed op has been reported */
	setvbuf(stdout, NULL, _IOLBF, 0);
	for (t = 0; t < NTREES; t++)
		aatree_init(&trees[t], cmp_cb, t == NOCB_TREE ? NULL : release_cb);
	while ((line = hc_line()) != NULL) {
		int nw = hc_words(line, wbuf, 10);
		char **w = wbuf;
		long long k;
		rel.n = 0;
		cur = &trees[0];
		if (nw >= 2 && w[0][0] == 't' && w[0][1] >= '0' && w[0][1] < '0' + NTREES && w[0][2] == 0) {
			cur = &trees[w[0][1] - '0'];
			w++;
			nw--;
		}
		if (nw == 1 && strcmp(w[0], "#case") == 0 && w == wbuf) {
			cmp_mode = CMP_SIGN;
			reset();
			puts("#case");
		} else if (nw == 2 && strcmp(w[0], "cmp") == 0 && w == wbuf &&
			   (!strcmp(w[1], "sign") || !strcmp(w[1], "diff") || !strcmp(w[1], "sat"))) {
			reset();
			cmp_mode = !strcmp(w[1], "sign") ? CMP_SIGN : !strcmp(w[1], "diff") ? CMP_DIFF : CMP_SAT;
			printf("cmp=%s\n", w[1]);
		} else if (nw == 2 && strcmp(w[0], "ins") == 0 && parse_key(w[1], &k) && key_ok(k)) {
			op_ins(k);
		} else if (nw == 2 && strcmp(w[0], "rem") == 0 && parse_key(w[1], &k) && key_ok(k)) {
			op_rem(k);
		} else if (nw == 2 && strcmp(w[0], "reins") == 0 && parse_key(w[1], &k) && key_ok(k)) {
			op_reins(k);
		} else if (nw == 2 && strcmp(w[0], "find") == 0 && parse_key(w[1], &k) && key_ok(k)) {
			struct AANode *r = aatree_search(&tree, (uintptr_t)(intptr_t)k);
			if (r)
				printf("f=1:%lld\n", ((struct N *)r)->key);
			else
				puts("f=0");
		} else if (nw == 2 && strcmp(w[0], "walk") == 0 &&
			   (!strcmp(w[1], "in") || !strcmp(w[1], "pre") || !strcmp(w[1], "post"))) {
			struct KL l = { NULL, 0, 0 };
			enum AATreeWalkType wt = w[1][1] == 'n' ? AA_WALK_IN_ORDER :
				w[1][1] == 'r' ? AA_WALK_PRE_ORDER : AA_WALK_POST_ORDER;
			aatree_walk(&tree, wt, collect_cb, &l);
			if (wt == AA_WALK_IN_ORDER) {
				/* the order of an in-order walk is pinned by the property */
				o_printf("w=");
				put_keys(&l);
			} else {
				/* pre/post-order: the property pins the set of visited nodes (observable:
				 * sorted), the order depends on the shape (internal) */
				struct KL srt = { NULL, 0, 0 };
				size_t i;
				for (i = 0; i < l.n; i++) kl_add(&srt, l.v[i]);
				if (srt.n)
					qsort(srt.v, srt.n, sizeof(long long), cmp_ll);
				o_printf("w=");
				put_keys(&srt);
				o_printf(" ## ");
				put_keys(&l);
				free(srt.v);
			}
			emit();
			free(l.v);
		} else if (nw == 1 && strcmp(w[0], "destroy") == 0 &&
			   !(cur == &trees[NOCB_TREE] && !aatree_is_nil_node(tree.root))) {
			aatree_destroy(&tree);
			mut_line("destroy", 1);
		} else if (nw == 1 && strcmp(w[0], "height") == 0) {
			op_height();
		} else if ((nw == 3 || nw == 4) && strcmp(w[0], "bulk") == 0 && op_bulk(w[1], w[2], nw == 4 ? w[3] : NULL)) {
			/* answered */
		} else if (nw == 5 && strcmp(w[0], "nwalk") == 0 && op_nwalk(w)) {
			/* answered */
		} else if (nw == 1 && strcmp(w[0], "count") == 0) {
			printf("c=%d\n", tree.count);
		} else if (nw == 6 && strcmp(w[0], "perms") == 0 && w == wbuf && op_perms(w)) {
			/* answered */
		} else {
			puts("bad-op");
		}
	}
	fflush(stdout);
	return 0;
}
