/* C13 harness: calls pg_quote_literal / pg_quote_ident / pg_quote_fqident /
 * pg_is_reserved_word / pg_parse_array of the working-tree sources in-process.
 *
 * Ops (one per line, hex arguments, "-" = empty):
 *   lit <hex|null> <dstlen>   pg_quote_literal(dst, src, dstlen)
 *   id  <hex> <dstlen>        pg_quote_ident
 *   fq  <hex> <dstlen>        pg_quote_fqident
 *   kw  <hex>                 pg_is_reserved_word
 *   arr <hex>                 pg_parse_array(text, NULL)
 *
 * Every destination is exactly dstlen bytes filled with 0xAA, flush against a PROT_NONE guard
 * page at its end (also for dstlen 0) and with a checked canary in front; every input is an
 * exact-size malloc copy (len + 1 bytes incl. the NUL) so that AddressSanitizer aborts on the
 * first byte read outside.  Arguments containing a NUL byte are `bad-op`.
 *
 * Output: quote ops `<ret> [<output bytes up to the NUL> | unterminated] ## <whole dst block>`
 *         kw `0|1`; arr `null` or `list <n> (N | s:<hex>)…`
 */
#include <usual/pgutil.h>
#include <usual/string.h>
#include "hcommon.h"

static uint8_t *arg_cstr(const char *hex, long *len_p)
{
	uint8_t *raw, *s;
	long n = hc_unhex(hex, &raw);
	if (n < 0)
		return NULL;
	if (memchr(raw, 0, n)) {
		free(raw);
		return NULL;
	}
	s = malloc(n + 1);
	memcpy(s, raw, n);
	s[n] = 0;
	free(raw);
	*len_p = n;
	return s;
}

static bool parse_len(const char *w, long *out)
{
	char *e;
	if (!*w || *w == '-' || *w == '+')
		return false;
	*out = strtol(w, &e, 10);
	return *e == 0 && *out >= 0 && *out <= 1000000;
}

typedef bool (*quote_fn)(char *, const char *, int);

/* Destination blocks: one mapping [PROT_NONE page][data][PROT_NONE page]; the destination of
 * a call is the LAST dstlen bytes of the data area, i.e. dst + dstlen is the first byte of the
 * guard page, for every dstlen including 0 (ASan's malloc(0) hands out an addressable byte, so a
 * one-byte overrun of a zero-sized destination was invisible).  The 64 bytes in front of dst
 * carry a canary that is checked after the call (`UNDERRUN`).  A store at or past dst[dstlen]
 * faults and ends the harness: vf turns that into a CRASH line. */
#include <sys/mman.h>
#include <unistd.h>
#define DST_MAX (1 << 20)
#define CANARY 64
static uint8_t *dst_area_end;

static void dst_area_init(void)
{
	long pg = sysconf(_SC_PAGESIZE);
	size_t data = ((DST_MAX + CANARY + pg - 1) / pg) * pg;
	uint8_t *m = mmap(NULL, data + 2 * pg, PROT_READ | PROT_WRITE, MAP_PRIVATE | MAP_ANONYMOUS, -1, 0);
	if (m == MAP_FAILED) { perror("mmap"); exit(3); }
	if (mprotect(m, pg, PROT_NONE) || mprotect(m + pg + data, pg, PROT_NONE)) { perror("mprotect"); exit(3); }
	dst_area_end = m + pg + data;
}

static void do_quote(quote_fn fn, const uint8_t *src, long dstlen)
{
	uint8_t *dst;
	bool ok;
	int i, under = 0;
	if (!dst_area_end)
		dst_area_init();
	if (dstlen > DST_MAX) { printf("bad-op\n"); return; }
	dst = dst_area_end - dstlen;
	memset(dst - CANARY, 0x5A, CANARY);
	memset(dst, 0xAA, dstlen);
	ok = fn((char *)dst, (const char *)src, (int)dstlen);
	for (i = 1; i <= CANARY; i++)
		if (dst[-i] != 0x5A)
			under = 1;
	if (under) {
		printf("UNDERRUN ");
	}
	if (ok) {
		uint8_t *z = dstlen ? memchr(dst, 0, dstlen) : NULL;
		if (z) {
			printf("1 ");
			hc_puthex(dst, z - dst);
		} else {
			printf("1 unterminated");
		}
	} else {
		printf("0");
	}
	printf(" ## ");
	hc_puthex(dst, dstlen);
	printf("\n");
}

static void do_arr(const uint8_t *txt)
{
	struct StrList *l = pg_parse_array((const char *)txt, NULL);
	int n = 0, cap = 16, i;
	char **el;
	if (!l) {
		printf("null\n");
		return;
	}
	el = malloc(cap * sizeof(*el));
	while (!strlist_empty(l)) {
		if (n == cap) {
			cap *= 2;
			el = realloc(el, cap * sizeof(*el));
		}
		el[n++] = strlist_pop(l);
	}
	printf("list %d", n);
	for (i = 0; i < n; i++) {
		if (!el[i]) {
			printf(" N");
		} else {
			printf(" s:");
			hc_puthex(el[i], strlen(el[i]));
			free(el[i]);
		}
	}
	printf("\n");
	free(el);
	strlist_free(l);
}

int main(void)
{
	char *line;
	while ((line = hc_line()) != NULL) {
		char *w[8];
		int nw;
		long n = 0, len = 0;
		uint8_t *s = NULL;
		if (strcmp(line, "#case") == 0) {
			printf("#case\n");
			continue;
		}
		nw = hc_words(line, w, 8);
		if (nw == 3 && !strcmp(w[0], "lit") && !strcmp(w[1], "null") && parse_len(w[2], &n)) {
			do_quote(pg_quote_literal, NULL, n);
		} else if (nw == 3 && (!strcmp(w[0], "lit") || !strcmp(w[0], "id") || !strcmp(w[0], "fq"))
			   && parse_len(w[2], &n) && (s = arg_cstr(w[1], &len)) != NULL) {
			do_quote(w[0][0] == 'l' ? pg_quote_literal : w[0][0] == 'i' ? pg_quote_ident : pg_quote_fqident,
				 s, n);
		} else if (nw == 2 && !strcmp(w[0], "kw") && (s = arg_cstr(w[1], &len)) != NULL) {
			printf("%d\n", pg_is_reserved_word((const char *)s) ? 1 : 0);
		} else if (nw == 2 && !strcmp(w[0], "arr") && (s = arg_cstr(w[1], &len)) != NULL) {
			do_arr(s);
		} else {
			printf("bad-op\n");
		}
		free(s);
		fflush(stdout);
	}
	return 0;
}
