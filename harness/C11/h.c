/* C11 harness: calls the real usual/utf8.c in-process (ASan+UBSan) and speaks the same line
 * protocol as lean/Driver/C11.lean (see the comment there for the ops).
 *
 * Every source buffer is an exact-size malloc block of `avail` bytes with the window flush
 * against its end, every destination buffer ends exactly `room` bytes after the destination
 * pointer: a read at/after `srcend` or a store at/after `dstend` is a heap-buffer-overflow
 * report, i.e. a crash of this process, which the check treats as a result. */
#include <usual/utf8.h>
#include "hcommon.h"

static inline uint64_t mix(uint64_t h, uint64_t v)
{
	uint64_t x = (h ^ v) * 0x9E3779B97F4A7C15ULL;
	return x ^ (x >> 29);
}

static const uint8_t b3set[8] = { 0x00, 0x7F, 0x80, 0x8F, 0x90, 0xBF, 0xC0, 0xFF };

static int parse_u64(const char *s, uint64_t *out)
{
	uint64_t v = 0;
	if (!*s || strlen(s) > 19) return 0;
	for (; *s; s++) {
		if (*s < '0' || *s > '9') return 0;
		v = v * 10 + (uint64_t)(*s - '0');
	}
	*out = v;
	return 1;
}

static int parse_hex64(const char *s, uint64_t *out)
{
	uint64_t v = 0;
	if (!*s || strlen(s) > 16) return 0;
	for (; *s; s++) {
		int d = hc_hexval(*s);
		if (d < 0) return 0;
		v = v * 16 + (uint64_t)d;
	}
	*out = v;
	return 1;
}

/* one call of validate_seq / get_char on an exact-size buffer */
static inline uint64_t call_v(const uint8_t *buf, unsigned avail)
{
	return (uint64_t)(uint32_t)utf8_validate_seq((const char *)buf, (const char *)buf + avail);
}

static inline uint64_t call_g(const uint8_t *buf, unsigned avail)
{
	const char *p = (const char *)buf;
	int r = utf8_get_char(&p, (const char *)buf + avail);
	uint64_t adv = (uint64_t)(p - (const char *)buf);
	return (uint64_t)(uint32_t)r | (adv << 32);
}

static void op_win(int is_v, int quick, unsigned avail, uint64_t lo, uint64_t hi)
{
	uint8_t *buf = malloc(avail);
	uint64_t h = HC_FNV_INIT, n = 0, i;
	for (i = lo; i < hi; i++) {
		uint64_t r;
		if (quick) {
			uint64_t w = i >> 3;
			buf[0] = w >> 16; buf[1] = w >> 8; buf[2] = w; buf[3] = b3set[i & 7];
		} else {
			unsigned k;
			for (k = 0; k < avail; k++)
				buf[k] = (uint8_t)(i >> (8 * (avail - 1 - k)));
		}
		if (is_v) {
			r = call_v(buf, avail);
			if (r != 0) n++;
		} else {
			r = call_g(buf, avail);
			if ((r & 0xffffffffULL) < 0x80000000ULL) n++;
		}
		h = mix(h, r);
	}
	free(buf);
	printf("%016llx %llu\n", (unsigned long long)h, (unsigned long long)n);
}

/* put_char with exactly `room` bytes before dstend; returns packed result, fills out[] */
static uint64_t call_put(unsigned c, unsigned room, uint8_t *out, unsigned *nout, int *okp)
{
	size_t alloc = room ? room : 1;
	uint8_t *buf = malloc(alloc);
	char *dst0 = (char *)buf + alloc - room, *dst = dst0, *end = (char *)buf + alloc;
	bool ok;
	uint64_t v, adv;
	unsigned k;
	memset(buf, 0xAA, alloc);
	ok = utf8_put_char(c, &dst, end);
	adv = (uint64_t)(dst - dst0);
	v = (ok ? 1 : 0) | (adv << 8);
	for (k = 0; k < adv && k < 4; k++)
		v |= (uint64_t)(uint8_t)dst0[k] << (16 + 8 * k);
	/* bytes of the destination that the call did not claim must be untouched */
	for (k = (unsigned)adv; k < room; k++)
		if ((uint8_t)dst0[k] != 0xAA) v |= 1ULL << 63;
	if (adv > room) v |= 1ULL << 62;
	if (out) {
		*nout = (unsigned)(adv <= room ? adv : room);
		memcpy(out, dst0, *nout);
		*okp = ok;
	}
	free(buf);
	return v;
}

static void op_put(uint64_t lo, uint64_t hi)
{
	uint64_t h = HC_FNV_INIT, n = 0, c;
	for (c = lo; c < hi; c++) {
		unsigned room;
		h = mix(h, (uint64_t)(uint32_t)utf8_char_size((unsigned)c));
		for (room = 0; room <= 4; room++) {
			uint64_t v = call_put((unsigned)c, room, NULL, NULL, NULL);
			if ((v & 1) && ((v >> 8) & 0xff) > 0) n++;
			h = mix(h, v);
		}
	}
	printf("%016llx %llu\n", (unsigned long long)h, (unsigned long long)n);
}

static void op_seq(uint64_t lo, uint64_t hi)
{
	uint64_t h = HC_FNV_INIT, n = 0, b;
	for (b = lo; b < hi; b++) {
		uint64_t r = (uint64_t)(uint32_t)utf8_seq_size((unsigned char)b);
		if (r != 0) n++;
		h = mix(h, r);
	}
	printf("%016llx %llu\n", (unsigned long long)h, (unsigned long long)n);
}

/* utf8_seq_size the way a C caller uses it: THROUGH THE HEADER's prototype, with the lead byte
 * taken from the `char` buffers every other function of utf8.h works on, and through
 * signed/unsigned char lvalues.  The conversion of the argument is done by the compiler
 * according to the prototype in force (working tree's usual/utf8.h) and the signedness of
 * plain char of this build. */
static uint64_t call_seqc(unsigned v, int out[3])
{
	char cbuf[1];
	signed char sc;
	unsigned char uc = (unsigned char)v;
	const char *p = cbuf;
	int r1, r2, r3;
	memcpy(cbuf, &uc, 1);
	memcpy(&sc, &uc, 1);
	r1 = utf8_seq_size(*p);
	r2 = utf8_seq_size(sc);
	r3 = utf8_seq_size(uc);
	if (out) { out[0] = r1; out[1] = r2; out[2] = r3; }
	return (uint64_t)(uint8_t)r1 | ((uint64_t)(uint8_t)r2 << 8) | ((uint64_t)(uint8_t)r3 << 16);
}

static void op_seqc(uint64_t lo, uint64_t hi)
{
	uint64_t h = HC_FNV_INIT, n = 0, b;
	for (b = lo; b < hi; b++) {
		uint64_t r = call_seqc((unsigned)b, NULL);
		if (r != 0) n++;
		h = mix(h, r);
	}
	printf("%016llx %llu\n", (unsigned long long)h, (unsigned long long)n);
}

/* put_char into 4 bytes of room, then get_char on an exact-size copy of what was stored */
static uint64_t call_rt(unsigned c, int *okp, unsigned *np, int *retp, long *advp)
{
	uint8_t out[16];
	unsigned nout = 0;
	int ok = 0, ret = 0;
	long adv = 0;
	uint64_t v;
	call_put(c, 4, out, &nout, &ok);
	if (ok && nout > 0) {
		uint8_t *b = malloc(nout);
		const char *p = (const char *)b;
		memcpy(b, out, nout);
		ret = utf8_get_char(&p, (const char *)b + nout);
		adv = (long)(p - (const char *)b);
		free(b);
		v = (uint64_t)(uint32_t)ret | ((uint64_t)adv << 32) | ((uint64_t)nout << 40);
	} else {
		v = 0xFFFFFFFFFFFFFFFFULL ^ (ok ? 1 : 0);
	}
	if (okp) { *okp = ok; *np = nout; *retp = ret; *advp = adv; }
	return v;
}

static void op_rt(uint64_t lo, uint64_t hi)
{
	uint64_t h = HC_FNV_INIT, n = 0, c;
	for (c = lo; c < hi; c++) {
		int ok, ret; unsigned nout; long adv;
		uint64_t v = call_rt((unsigned)c, &ok, &nout, &ret, &adv);
		if (ok && nout > 0 && (uint32_t)ret == (uint32_t)c && adv == (long)nout) n++;
		h = mix(h, v);
	}
	printf("%016llx %llu\n", (unsigned long long)h, (unsigned long long)n);
}

int main(void)
{
	char *line, *w[8];
	while ((line = hc_line()) != NULL) {
		int nw;
		uint64_t a, lo, hi;
		uint8_t *bytes = NULL;
		long len;
		if (strcmp(line, "#case") == 0) { puts("#case"); fflush(stdout); continue; }
		nw = hc_words(line, w, 8);
		if (nw == 5 && !strcmp(w[0], "win") && (!strcmp(w[1], "v") || !strcmp(w[1], "g")) &&
		    parse_u64(w[2], &a) && parse_u64(w[3], &lo) && parse_u64(w[4], &hi) &&
		    a >= 1 && a <= 4 && lo <= hi && hi <= (1ULL << (8 * a))) {
			op_win(w[1][0] == 'v', 0, (unsigned)a, lo, hi);
		} else if (nw == 4 && !strcmp(w[0], "winq") && (!strcmp(w[1], "v") || !strcmp(w[1], "g")) &&
			   parse_u64(w[2], &lo) && parse_u64(w[3], &hi) && lo <= hi && hi <= (1ULL << 27)) {
			op_win(w[1][0] == 'v', 1, 4, lo, hi);
		} else if (nw == 3 && !strcmp(w[0], "put") && parse_u64(w[1], &lo) && parse_u64(w[2], &hi) &&
			   lo <= hi && hi <= (1ULL << 32)) {
			op_put(lo, hi);
		} else if (nw == 3 && !strcmp(w[0], "seq") && parse_u64(w[1], &lo) && parse_u64(w[2], &hi) &&
			   lo <= hi && hi <= 256) {
			op_seq(lo, hi);
		} else if (nw == 3 && !strcmp(w[0], "seqc") && parse_u64(w[1], &lo) && parse_u64(w[2], &hi) &&
			   lo <= hi && hi <= 256) {
			op_seqc(lo, hi);
		} else if (nw == 3 && !strcmp(w[0], "rt") && parse_u64(w[1], &lo) && parse_u64(w[2], &hi) &&
			   lo <= hi && hi <= (1ULL << 32)) {
			op_rt(lo, hi);
		} else if (nw == 2 && !strcmp(w[0], "seqsizec") && parse_hex64(w[1], &a) && a < 256) {
			int r[3];
			call_seqc((unsigned)a, r);
			printf("%d %d %d\n", r[0], r[1], r[2]);
		} else if (nw == 2 && !strcmp(w[0], "rtc") && parse_hex64(w[1], &a) && a < (1ULL << 32)) {
			int ok, ret; unsigned nout; long adv;
			call_rt((unsigned)a, &ok, &nout, &ret, &adv);
			if (ok && nout > 0) printf("%d %u %d %ld\n", ok, nout, ret, adv);
			else printf("%d 0 - -\n", ok);
		} else if (nw == 2 && !strcmp(w[0], "vseq") && (len = hc_unhex(w[1], &bytes)) >= 1) {
			printf("%d\n", utf8_validate_seq((char *)bytes, (char *)bytes + len));
			free(bytes);
		} else if (nw == 2 && !strcmp(w[0], "getc") && (len = hc_unhex(w[1], &bytes)) >= 1) {
			const char *p = (char *)bytes;
			int r = utf8_get_char(&p, (char *)bytes + len);
			printf("%d %ld\n", r, (long)(p - (char *)bytes));
			free(bytes);
		} else if (nw == 3 && !strcmp(w[0], "putc") && parse_hex64(w[1], &a) && parse_u64(w[2], &lo) &&
			   a < (1ULL << 32) && lo <= 16) {
			uint8_t out[16];
			unsigned nout = 0;
			int ok = 0;
			uint64_t v = call_put((unsigned)a, (unsigned)lo, out, &nout, &ok);
			printf("%d %llu ", ok, (unsigned long long)((v >> 8) & 0xff));
			hc_puthex(out, nout);
			if (v >> 62) printf(" CLOBBER");
			putchar('\n');
		} else if (nw == 2 && !strcmp(w[0], "seqsize") && parse_hex64(w[1], &a) && a < 256) {
			printf("%d\n", utf8_seq_size((unsigned char)a));
		} else if (nw == 2 && !strcmp(w[0], "charsize") && parse_hex64(w[1], &a) && a < (1ULL << 32)) {
			printf("%d\n", utf8_char_size((unsigned)a));
		} else if (nw == 2 && !strcmp(w[0], "vstr") && (len = hc_unhex(w[1], &bytes)) >= 0) {
			/* exact-size block; for the empty string src == end == one past a 1-byte block */
			const char *s = (char *)bytes + (len == 0 ? 1 : 0);
			printf("%d\n", utf8_validate_string(s, s + len) ? 1 : 0);
			free(bytes);
		} else {
			if (bytes) free(bytes);
			puts("bad-op");
		}
		fflush(stdout);
	}
	return 0;
}
