/* C08 harness: TLS server-name verification on certificates built in memory.
 *
 * Op lines (one output line per input line):
 *   #case                                      -> "#case"
 *   pton <mode> <hex-name>                     -> "4:<hex>" | "6:<hex>" | "none"
 *   cert <mode> <entry>... name:<hex>          -> "rc=<0|-1|-2> err=<class> contains=<0|1>"
 *   hs   <mode> <entry>... name:<hex>          -> "hs=<ok|fail> err=<class>"   (real handshake over a
 *                                                 socketpair, self-signed cert, verify_cert off)
 *   hsn  <mode> <entry>... name:<hex>          -> like hs, but the client goes through the public
 *                                                 tls_connect_servername("127.0.0.1", port, name) over a
 *                                                 loopback TCP connection (hs itself uses tls_connect_socket,
 *                                                 chs tls_connect_fds); "hs=nonet" never matches the model and
 *                                                 is only printed when loopback TCP is unavailable
 *   hsq  <mode> <flags> <entry>... q:<hex>... name:<hex>
 *                                              -> "hs=<ok|fail> err=<class> q=<0|1>,... [sq=<0|1>,...]"
 *        a handshake followed by tls_peer_cert_contains_name(<q>) on the LIVE client connection for every
 *        q:<hex> word (1..12 of them, C strings).  <flags> letters: v = verify_name on, n = verify_name OFF
 *        (tls_config_insecure_noverifyname: the handshake completes whatever the name is); s / f / t =
 *        tls_connect_socket / tls_connect_fds / tls_connect_servername (loopback TCP); m = mutual: the
 *        client presents the same certificate, the server (verify_client, that certificate as CA) is asked
 *        the same questions about its peer ("sq=").  Every answer must be the verdict for (certificate,
 *        queried name) alone - whatever servername, verify_name setting and handshake state are - and 0
 *        when no peer certificate was recorded (client handshake refused).
 *   noise <1|2|3>                              -> "ok"  an unrelated failing library call in this thread that
 *                                                 leaves entries in the OpenSSL error queue (1: client context
 *                                                 whose CA file is missing, tls_connect_fds fails; 2: PEM parse
 *                                                 of garbage; 3: ERR_raise directly).  Frame condition: no later
 *                                                 verdict may depend on it.  "#case" clears the queue.  The hsq
 *                                                 flag e injects noise 1..3 between handshake and the queries.
 *   hsr  <mode> <script> <entry>... name:<hex> -> "calls=<res>,<res>,..."  one connection, the calls of
 *                                                 <script> (1..8 letters: h = tls_handshake, w = tls_write of
 *                                                 1 byte, r = tls_read of 1 byte) are made one after the other
 *                                                 on the SAME client context, each driven until it returns
 *                                                 something else than TLS_WANT_POLLIN/POLLOUT;
 *                                                 <res> = ok | fail:<tls_error class> | stuck.  A refused name
 *                                                 must stay refused on every retry and inside read/write.
 *   Client-context reuse (one persistent client context per #case, created on first use):
 *   cnew                                       -> "ok"   drop the persistent context (next use makes a fresh one)
 *   cfail <mode> name:<hex>                    -> "connect=fail"  a tls_connect_fds() for <name> that fails
 *                                                 half-way (verify_cert on, CA file unreadable)
 *   creset                                     -> "ok"   tls_reset() on the persistent context
 *   chs  <mode> <entry>... name:<hex>          -> like hs, but on the persistent context (re-configured
 *                                                 with the working config, NOT reset): the handshake
 *                                                 must judge the name given to THIS connect call
 *   xpairs <mode> <san-dns|cn> <alpha-hex> <Lc> <Ln> <lo> <hi> -> "h=<fnv64> ok=<n> nomatch=<n> err=<n>"
 *        range-hash protocol over the exhaustive domain: pair index p in [lo,hi) denotes
 *        (cert string #p/N(Ln), name #p%N(Ln)) where string #i enumerates all strings over the
 *        alphabet <alpha-hex> (2..8 non-NUL symbols) by length (<= Lc resp. <= Ln), then lexicographically; the certificate
 *        carries the string as its only dNSName (dns) or as its CN (cn).
 *   <entry> ::= san-dns:<hex>   dNSName (IMPLICIT [2] IA5String: whatever string type is put in, the
 *                               decoded extension carries an IA5String, so the code's
 *                               "format != IA5STRING" branch cannot be reached from a certificate)
 *             | san-ip:<hex>    iPAddress, raw octets
 *             | san-mail:<hex>  rfc822Name (never considered)
 *             | cn:<hex>        subject commonName (UTF8String); several allowed, first one counts
 *   <mode> ::= g (platform inet_pton, glibc here)  |  c (usual/socket_pton.c forced in)
 *   The harness is compiled once per mode and answers "bad-mode" for the other one.
 *   name is a C string (may be empty); a NUL inside name:<hex> is rejected with "bad-op".
 *
 * The functions under test come from /repo's working tree: tls_verify.c is #included so that
 * the static helpers are the real ones; tls_peer.c / tls_client.c / tls.c are linked.
 */
#include <usual/base.h>
#include <usual/socket.h>
#include <usual/string.h>

#ifdef C08_COMPAT_PTON
/* force the compat implementation of usual/socket_pton.c although the platform has inet_pton */
#undef HAVE_INET_PTON
#undef inet_pton
#define inet_pton(a,b,c) usual_inet_pton(a,b,c)
#include "usual/socket_pton.c"
#define MY_MODE 'c'
#else
#define MY_MODE 'g'
#endif

#include "usual/tls/tls_verify.c"

#include <openssl/x509.h>
#include <openssl/x509v3.h>
#include <openssl/evp.h>
#include <openssl/pem.h>
#include <fcntl.h>
#include <poll.h>
#include <sys/socket.h>
#include <netinet/in.h>
#include <arpa/inet.h>

#include "hcommon.h"

#ifndef USUAL_LIBSSL_FOR_TLS
#error "libusual was configured without TLS"
#endif

static struct tls *g_ctx;

static const char *err_class(const char *msg)
{
	if (msg == NULL)
		return "none";
	if (strstr(msg, "NUL byte in subjectAltName"))
		return "nul-san";
	if (strstr(msg, "NUL byte in Common Name"))
		return "nul-cn";
	if (strstr(msg, "a dNSName of \" \" must not be used"))
		return "space";
	if (strstr(msg, "not present in server certificate"))
		return "notpresent";
	return "other";
}

static void clear_error(struct tls *ctx)
{
	free(ctx->error.msg);
	ctx->error.msg = NULL;
	ctx->error.num = 0;
}

/* builds the certificate described by words w[2..n-2]; returns NULL on malformed op */
static X509 *build_cert(char **w, int n, int *bad)
{
	X509 *x = X509_new();
	GENERAL_NAMES *gens = sk_GENERAL_NAME_new_null();
	int nsan = 0, i;

	*bad = 0;
	for (i = 2; i < n - 1 && !*bad; i++) {
		char *colon = strchr(w[i], ':');
		uint8_t *buf = NULL;
		long len;
		int gtype = -1, stype = V_ASN1_IA5STRING;

		if (!colon) { *bad = 1; break; }
		*colon = 0;
		len = hc_unhex(colon + 1, &buf);
		if (len < 0) { *bad = 1; break; }

		if (strcmp(w[i], "cn") == 0) {
			X509_NAME *nm = X509_get_subject_name(x);
			if (!X509_NAME_add_entry_by_NID(nm, NID_commonName, V_ASN1_UTF8STRING,
							buf, (int)len, -1, 0))
				*bad = 2;
			free(buf);
			continue;
		} else if (strcmp(w[i], "san-dns") == 0) {
			gtype = GEN_DNS;
		} else if (strcmp(w[i], "san-ip") == 0) {
			gtype = GEN_IPADD; stype = V_ASN1_OCTET_STRING;
		} else if (strcmp(w[i], "san-mail") == 0) {
			gtype = GEN_EMAIL;
		} else {
			*bad = 1;
			free(buf);
			break;
		}
		{
			GENERAL_NAME *g = GENERAL_NAME_new();
			ASN1_STRING *s = ASN1_STRING_type_new(stype);
			ASN1_STRING_set(s, buf, (int)len);
			GENERAL_NAME_set0_value(g, gtype, s);
			sk_GENERAL_NAME_push(gens, g);
			nsan++;
		}
		free(buf);
	}
	if (!*bad && nsan) {
		if (X509_add1_ext_i2d(x, NID_subject_alt_name, gens, 0, X509V3_ADD_DEFAULT) != 1)
			*bad = 2;
	}
	sk_GENERAL_NAME_pop_free(gens, GENERAL_NAME_free);
	if (*bad) {
		X509_free(x);
		return NULL;
	}
	return x;
}

/* name:<hex> -> fresh exact-size NUL-terminated C string; NULL if malformed or contains NUL */
static char *parse_name(char *word)
{
	uint8_t *buf = NULL;
	long len;
	char *s;

	if (strncmp(word, "name:", 5) != 0)
		return NULL;
	len = hc_unhex(word + 5, &buf);
	if (len < 0)
		return NULL;
	if (memchr(buf, 0, len) != NULL) {
		free(buf);
		return NULL;
	}
	s = malloc(len + 1);
	memcpy(s, buf, len);
	s[len] = 0;
	free(buf);
	return s;
}

/* ------------------------------------------------------------------ handshake */

static EVP_PKEY *g_key;
static char *g_key_pem;
static size_t g_key_pem_len;

static void hs_init(void)
{
	BIO *b;
	char *p;
	long n;

	if (g_key)
		return;
	g_key = EVP_EC_gen("P-256");
	b = BIO_new(BIO_s_mem());
	PEM_write_bio_PrivateKey(b, g_key, NULL, NULL, 0, NULL, NULL);
	n = BIO_get_mem_data(b, &p);
	g_key_pem = malloc(n + 1);
	memcpy(g_key_pem, p, n);
	g_key_pem[n] = 0;
	g_key_pem_len = n;
	BIO_free(b);
}

static void set_nonblock(int fd)
{
	int fl = fcntl(fd, F_GETFL);
	fcntl(fd, F_SETFL, fl | O_NONBLOCK);
}

/* Real handshake: server presents the (self-signed) certificate x, client asks for `name` with
 * verify_cert off and verify_name on.  The client is driven like an application would drive it:
 * TLS_WANT_POLLIN / TLS_WANT_POLLOUT mean "call again", 0 is success, anything else is failure.
 * Prints hs=ok | hs=fail | hs=stuck (client still wants to poll after 200 rounds) and the class of
 * the client's tls_error text. */
static struct tls_config *g_good_cfg, *g_bad_cfg;
static struct tls *g_pcli;		/* persistent client context of the current #case */

static void cfg_init(void)
{
	if (g_good_cfg)
		return;
	g_good_cfg = tls_config_new();
	tls_config_insecure_noverifycert(g_good_cfg);	/* verify_name stays enabled */
	g_bad_cfg = tls_config_new();
	tls_config_set_ca_file(g_bad_cfg, "/nonexistent/verif-C08/ca-bundle.crt");
}

static struct tls *pcli_get(void)
{
	if (!g_pcli)
		g_pcli = tls_client();
	return g_pcli;
}

static void pcli_drop(void)
{
	if (g_pcli)
		usual_tls_free(g_pcli);
	g_pcli = NULL;
}

/* one client call of the script, driven to a definite answer; the server side is pumped in
 * between (handshake, then 8 bytes of application data).  returns 1 ok, 0 failed, -1 stuck */
static int drive_call(char what, struct tls *cli, struct tls *sconn, int *sdone, int *swrote)
{
	int rounds;
	for (rounds = 0; rounds < 200; rounds++) {
		long r;
		char buf[1] = { 'C' };
		if (what == 'h')
			r = tls_handshake(cli);
		else if (what == 'w')
			r = tls_write(cli, buf, 1);
		else
			r = tls_read(cli, buf, 1);
		if (r != TLS_WANT_POLLIN && r != TLS_WANT_POLLOUT) {
			if (what == 'h')
				return r == 0;
			return r > 0;
		}
		if (!*sdone) {
			int sr = tls_handshake(sconn);
			if (sr == 0) *sdone = 1;
			else if (sr != TLS_WANT_POLLIN && sr != TLS_WANT_POLLOUT) *sdone = 2;
		}
		if (*sdone == 1 && !*swrote) {
			if (tls_write(sconn, "SSSSSSSS", 8) == 8)
				*swrote = 1;
		}
	}
	return -1;
}

/* pcli != NULL: use (and keep) this client context instead of a fresh one.
 * script != NULL: hsr op (see top of file) instead of the single handshake */
static void make_noise(int k)
{
	if (k == 1) {
		struct tls *c = tls_client();
		cfg_init();
		tls_configure(c, g_bad_cfg);
		(void)tls_connect_fds(c, 0, 0, "noise.example");
		usual_tls_free(c);
	} else if (k == 2) {
		static const char junk[] = "-----BEGIN CERTIFICATE-----\nnot base64 at all!\n-----END CERTIFICATE-----\n";
		BIO *b = BIO_new_mem_buf(junk, -1);
		X509 *x = PEM_read_bio_X509(b, NULL, NULL, NULL);
		X509_free(x);
		BIO_free(b);
	} else {
		ERR_raise(ERR_LIB_X509V3, ERR_R_PASSED_INVALID_ARGUMENT);
	}
}

static int g_via_servername;	/* set by the hsn op for the next do_handshake */
static const char *g_hsq_flags;	/* set by the hsq op for the next do_handshake */
static char **g_hsq_q;		/* queried names */
static int g_hsq_nq;

/* loopback TCP pair through tls_connect_servername; returns 0 ok, -1 no network, -2 connect failed */
static int tcp_connect_servername(struct tls *cli, const char *name, int *srv_fd, int *cli_fd)
{
	struct sockaddr_in sa;
	socklen_t sl = sizeof sa;
	char port[16];
	int ls = socket(AF_INET, SOCK_STREAM, 0), afd;

	if (ls < 0)
		return -1;
	memset(&sa, 0, sizeof sa);
	sa.sin_family = AF_INET;
	sa.sin_addr.s_addr = htonl(INADDR_LOOPBACK);
	if (bind(ls, (struct sockaddr *)&sa, sizeof sa) != 0 || listen(ls, 4) != 0 ||
	    getsockname(ls, (struct sockaddr *)&sa, &sl) != 0) {
		close(ls);
		return -1;
	}
	snprintf(port, sizeof port, "%d", ntohs(sa.sin_port));
	if (tls_connect_servername(cli, "127.0.0.1", port, name) != 0) {
		close(ls);
		return -2;
	}
	afd = accept(ls, NULL, NULL);
	close(ls);
	if (afd < 0)
		return -1;
	*srv_fd = afd;
	*cli_fd = cli->socket;
	return 0;
}

static void do_handshake(X509 *x, const char *name, struct tls *pcli, const char *script)
{
	struct tls_config *scfg = NULL, *ccfg = NULL;
	struct tls *srv = NULL, *sconn = NULL, *cli = NULL;
	int sv[2] = { -1, -1 };
	const char *hsq = g_hsq_flags;
	int use_fds = pcli != NULL || (hsq && strchr(hsq, 'f'));
	BIO *b;
	char *cpem;
	long clen;
	int cdone = 0, sdone = 0, cfail = 0, sfail = 0, rounds = 0;
	const char *stage = "";

	hs_init();
	cfg_init();
	/* finish and self-sign the certificate */
	X509_set_version(x, 2);
	ASN1_INTEGER_set(X509_get_serialNumber(x), 1);
	X509_gmtime_adj(X509_getm_notBefore(x), -3600);
	X509_gmtime_adj(X509_getm_notAfter(x), 3600);
	X509_set_issuer_name(x, X509_get_subject_name(x));
	X509_set_pubkey(x, g_key);
	if (!X509_sign(x, g_key, EVP_sha256())) { printf("hs=setup-fail err=sign\n"); return; }
	b = BIO_new(BIO_s_mem());
	PEM_write_bio_X509(b, x);
	clen = BIO_get_mem_data(b, &cpem);

	scfg = tls_config_new();
	if (tls_config_set_keypair_mem(scfg, (const uint8_t *)cpem, clen,
				       (const uint8_t *)g_key_pem, g_key_pem_len) != 0) { stage = "keypair"; goto setup_fail; }
	if (hsq) {
		ccfg = tls_config_new();
		tls_config_insecure_noverifycert(ccfg);
		if (strchr(hsq, 'n'))
			tls_config_insecure_noverifyname(ccfg);
		if (strchr(hsq, 'm')) {
			if (tls_config_set_keypair_mem(ccfg, (const uint8_t *)cpem, clen,
						       (const uint8_t *)g_key_pem, g_key_pem_len) != 0 ||
			    tls_config_set_ca_mem(scfg, (const uint8_t *)cpem, clen) != 0) { stage = "mutual"; goto setup_fail; }
			tls_config_verify_client(scfg);
		}
	}
	srv = tls_server();
	cli = pcli ? pcli : tls_client();
	if (tls_configure(srv, scfg) != 0) { stage = "srvcfg"; goto setup_fail; }
	if (tls_configure(cli, ccfg ? ccfg : g_good_cfg) != 0) { stage = "clicfg"; goto setup_fail; }
	clear_error(cli);	/* an application reads tls_error only after a failure of THIS attempt */
	if (g_via_servername) {
		int r;
		g_via_servername = 0;
		r = tcp_connect_servername(cli, name, &sv[0], &sv[1]);
		if (r == -1) { printf("hs=nonet err=none\n"); goto out; }
		if (r == -2) { printf("hs=connect-fail err=%s\n", err_class(tls_error(cli))); goto out; }
		set_nonblock(sv[0]);
		set_nonblock(sv[1]);
		if (tls_accept_socket(srv, &sconn, sv[0]) != 0) { stage = "accept"; goto setup_fail; }
		goto connected;
	}
	if (socketpair(AF_UNIX, SOCK_STREAM, 0, sv) != 0) { stage = "socketpair"; goto setup_fail; }
	set_nonblock(sv[0]);
	set_nonblock(sv[1]);
	if (tls_accept_fds(srv, &sconn, sv[0], sv[0]) != 0) { stage = "accept"; goto setup_fail; }
	if ((use_fds ? tls_connect_fds(cli, sv[1], sv[1], name) : tls_connect_socket(cli, sv[1], name)) != 0) {
		/* e.g. OpenSSL refuses the SNI value: happens before any name verification */
		printf("hs=connect-fail err=%s\n", err_class(tls_error(cli)));
		goto out;
	}
connected:
	if (script) {
		int sd = 0, sw = 0, i;
		printf("calls=");
		for (i = 0; script[i]; i++) {
			int ok;
			clear_error(cli);	/* the text must be set by THIS call */
			ok = drive_call(script[i], cli, sconn, &sd, &sw);
			if (i) putchar(',');
			if (ok == 1) printf("ok");
			else if (ok == 0) printf("fail:%s", err_class(tls_error(cli)));
			else printf("stuck");
		}
		putchar('\n');
		goto out;
	}
	while ((!cdone || !sdone) && rounds++ < 200) {
		int r;
		if (!cdone) {
			r = tls_handshake(cli);
			if (r == 0) cdone = 1;
			else if (r != TLS_WANT_POLLIN && r != TLS_WANT_POLLOUT) { cdone = 1; cfail = 1; }
		}
		if (!sdone) {
			r = tls_handshake(sconn);
			if (r == 0) sdone = 1;
			else if (r != TLS_WANT_POLLIN && r != TLS_WANT_POLLOUT) { sdone = 1; sfail = 1; }
		}
		if (cdone && cfail)
			break;	/* client gave up: the server side outcome is irrelevant */
	}
	if (hsq) {
		int i;
		const char *cls = err_class(tls_error(cli));
		printf("hs=%s err=%s q=", !cdone ? "stuck" : cfail ? "fail" : "ok", cls);
		if (strchr(hsq, 'e')) {
			make_noise(1 + (g_hsq_nq % 3));
			make_noise(3);
		}
		for (i = 0; i < g_hsq_nq; i++)
			printf("%s%d", i ? "," : "", tls_peer_cert_contains_name(cli, g_hsq_q[i]));
		if (strchr(hsq, 'm')) {
			/* let the server finish (it only needs to read what the client already sent) */
			for (rounds = 0; !sdone && rounds < 50; rounds++) {
				int r = tls_handshake(sconn);
				if (r == 0) sdone = 1;
				else if (r != TLS_WANT_POLLIN && r != TLS_WANT_POLLOUT) { sdone = 1; sfail = 1; }
			}
			if (!sdone || sfail || !tls_peer_cert_provided(sconn))
				printf(" sq=none(%s)", !sdone ? "stuck" : sfail ? "srvfail" : "nocert");
			else {
				printf(" sq=");
				for (i = 0; i < g_hsq_nq; i++)
					printf("%s%d", i ? "," : "", tls_peer_cert_contains_name(sconn, g_hsq_q[i]));
			}
		}
		putchar('\n');
		goto out;
	}
	if (!cdone)
		printf("hs=stuck err=%s\n", err_class(tls_error(cli)));
	else if (cfail)
		printf("hs=fail err=%s\n", err_class(tls_error(cli)));
	else
		printf("hs=ok err=%s\n", err_class(tls_error(cli)));
	(void)sfail;
	goto out;
setup_fail:
	printf("hs=setup-fail err=%s\n", stage);
out:
	BIO_free(b);
	if (cli && !pcli) usual_tls_free(cli);
	if (sconn) usual_tls_free(sconn);
	if (srv) usual_tls_free(srv);
	if (scfg) tls_config_free(scfg);
	if (ccfg) tls_config_free(ccfg);
	if (sv[0] >= 0) close(sv[0]);
	if (sv[1] >= 0) close(sv[1]);
}

/* ------------------------------------------------------------------ exhaustive pairs */

static char XALPHA[16];
static int XK;

static uint64_t xcount(int maxlen)
{
	uint64_t n = 0, p = 1;
	int l;
	for (l = 0; l <= maxlen; l++) { n += p; p *= XK; }
	return n;
}

/* string number idx (by length, then lexicographic with XALPHA order) */
static int xstring(uint64_t idx, char *out)
{
	int len = 0, i;
	uint64_t p = 1;
	while (idx >= p) { idx -= p; p *= XK; len++; }
	for (i = len - 1; i >= 0; i--) { out[i] = XALPHA[idx % XK]; idx /= XK; }
	out[len] = 0;
	return len;
}

static int cls_index(const char *cls)
{
	if (!strcmp(cls, "none")) return 0;
	if (!strcmp(cls, "nul-san")) return 1;
	if (!strcmp(cls, "space")) return 2;
	if (!strcmp(cls, "nul-cn")) return 3;
	return 9;
}

static void hexstr(const char *s, int len, char *out)
{
	int i;
	if (len == 0) { strcpy(out, "-"); return; }
	for (i = 0; i < len; i++) sprintf(out + 2 * i, "%02x", (unsigned char)s[i]);
}

static void do_xpairs(const char *kind, int lc, int ln, uint64_t lo, uint64_t hi)
{
	uint64_t nn = xcount(ln), p, h = HC_FNV_INIT;
	uint64_t cnt[3] = { 0, 0, 0 };
	for (p = lo; p < hi; p++) {
		char cs[16], ns[16], w2[64], w3[64], hx[40];
		char *w[4];
		int bad = 0, rc, contains, clen, nlen;
		const char *cls;
		X509 *x;
		clen = xstring(p / nn, cs);
		nlen = xstring(p % nn, ns);
		hexstr(cs, clen, hx);
		snprintf(w2, sizeof w2, "%s:%s", kind, hx);
		hexstr(ns, nlen, hx);
		snprintf(w3, sizeof w3, "name:%s", hx);
		w[0] = "cert"; w[1] = "x"; w[2] = w2; w[3] = w3;
		x = build_cert(w, 4, &bad);
		if (!x) { h = hc_fnv(h, 0xdead); continue; }
		clear_error(g_ctx);
		rc = tls_check_name(g_ctx, x, ns);
		cls = err_class(tls_error(g_ctx));
		clear_error(g_ctx);
		g_ctx->ssl_peer_cert = x;
		contains = tls_peer_cert_contains_name(g_ctx, ns);
		g_ctx->ssl_peer_cert = NULL;
		X509_free(x);
		h = hc_fnv(h, (uint64_t)(rc + 2) | ((uint64_t)cls_index(cls) << 4) | ((uint64_t)contains << 8));
		cnt[rc == 0 ? 0 : rc == -1 ? 1 : 2]++;
	}
	printf("h=%016llx ok=%llu nomatch=%llu err=%llu\n", (unsigned long long)h,
	       (unsigned long long)cnt[0], (unsigned long long)cnt[1], (unsigned long long)cnt[2]);
}

/* ------------------------------------------------------------------ main loop */

int main(void)
{
	char *line;
	char *w[64];

	tls_init();
	g_ctx = tls_client();
	signal(SIGPIPE, SIG_IGN);

	while ((line = hc_line()) != NULL) {
		int n;

		if (strncmp(line, "noise ", 6) == 0 && strlen(line) == 7 && line[6] >= '1' && line[6] <= '3') {
			make_noise(line[6] - '0');
			puts("ok");
			continue;
		}
		if (strcmp(line, "#case") == 0) {
			ERR_clear_error();
			pcli_drop();
			puts("#case");
			continue;
		}
		if (strcmp(line, "cnew") == 0) {
			pcli_drop();
			puts("ok");
			continue;
		}
		if (strcmp(line, "creset") == 0) {
			tls_reset(pcli_get());
			puts("ok");
			continue;
		}
		n = hc_words(line, w, 64);
		if (n >= 2 && (strcmp(w[1], "g") == 0 || strcmp(w[1], "c") == 0) && w[1][0] != MY_MODE) {
			puts("bad-mode");
			continue;
		}
		if (n == 3 && strcmp(w[0], "cfail") == 0 && strlen(w[1]) == 1) {
			char *name = parse_name(w[2]);
			struct tls *c;
			if (!name) { puts("bad-op"); continue; }
			cfg_init();
			c = pcli_get();
			tls_configure(c, g_bad_cfg);
			printf("connect=%s\n", tls_connect_fds(c, 0, 0, name) == 0 ? "ok" : "fail");
			free(name);
			continue;
		}
		if (n == 3 && strcmp(w[0], "pton") == 0 && strlen(w[1]) == 1) {
			uint8_t *buf = NULL, addr[16];
			long len = hc_unhex(w[2], &buf);
			char *s;
			if (len < 0 || memchr(buf, 0, len)) { free(buf); puts("bad-op"); continue; }
			s = malloc(len + 1);
			memcpy(s, buf, len);
			s[len] = 0;
			free(buf);
			if (inet_pton(AF_INET, s, addr) == 1) {
				printf("4:"); hc_puthex(addr, 4); putchar('\n');
			} else if (inet_pton(AF_INET6, s, addr) == 1) {
				printf("6:"); hc_puthex(addr, 16); putchar('\n');
			} else {
				puts("none");
			}
			free(s);
			continue;
		}
		if (n == 8 && strcmp(w[0], "xpairs") == 0 && strlen(w[1]) == 1 &&
		    (strcmp(w[2], "san-dns") == 0 || strcmp(w[2], "cn") == 0)) {
			int lc = atoi(w[4]), ln = atoi(w[5]);
			uint64_t lo = strtoull(w[6], NULL, 10), hi = strtoull(w[7], NULL, 10);
			uint8_t *ab = NULL;
			long alen = hc_unhex(w[3], &ab);
			if (alen < 2 || alen > 8 || memchr(ab, 0, alen)) { free(ab); puts("bad-op"); continue; }
			memcpy(XALPHA, ab, alen);
			XK = (int)alen;
			free(ab);
			if (lc < 0 || lc > 7 || ln < 0 || ln > 7 || lo > hi || hi > xcount(lc) * xcount(ln)) {
				puts("bad-op");
				continue;
			}
			do_xpairs(w[2], lc, ln, lo, hi);
			continue;
		}
		if (n >= 3 && n < 64 && strlen(w[1]) == 1 &&
		    (strcmp(w[0], "cert") == 0 || strcmp(w[0], "hs") == 0 || strcmp(w[0], "chs") == 0 ||
		     strcmp(w[0], "hsr") == 0 || strcmp(w[0], "hsn") == 0 || strcmp(w[0], "hsq") == 0)) {
			int bad = 0;
			int is_chs = (strcmp(w[0], "chs") == 0);
			int is_hsr = (strcmp(w[0], "hsr") == 0);
			int is_hs = (w[0][0] == 'h') || is_chs;
			const char *script = NULL;
			if (is_hsr) {
				/* w[2] is the script; shift it out so that entries start at w[2] again */
				int k;
				script = w[2];
				if (n < 4 || strlen(script) < 1 || strlen(script) > 8 ||
				    strspn(script, "hwr") != strlen(script)) { puts("bad-op"); continue; }
				for (k = 2; k < n - 1; k++) w[k] = w[k + 1];
				n--;
			}
			char *qn[12];
			int nq = 0, qbad = 0;
			const char *qflags = NULL;
			if (strcmp(w[0], "hsq") == 0) {
				/* w[2] = flags; q:<hex> words are taken out of the entry list */
				int k, j = 2;
				qflags = w[2];
				if (n < 5 || strlen(qflags) < 1 || strlen(qflags) > 5 ||
				    strspn(qflags, "vnsftme") != strlen(qflags)) { puts("bad-op"); continue; }
				for (k = 3; k < n; k++) {
					if (strncmp(w[k], "q:", 2) == 0) {
						uint8_t *qb = NULL;
						long ql = hc_unhex(w[k] + 2, &qb);
						if (ql < 0 || nq >= 12 || memchr(qb, 0, ql)) { qbad = 1; free(qb); break; }
						qn[nq] = malloc(ql + 1);
						memcpy(qn[nq], qb, ql);
						qn[nq][ql] = 0;
						nq++;
						free(qb);
					} else
						w[j++] = w[k];
				}
				n = j;
				if (qbad || nq == 0 || n < 3) {
					while (nq > 0) free(qn[--nq]);
					puts("bad-op");
					continue;
				}
			}
			char *name = parse_name(w[n - 1]);
			X509 *x;
			if (!name) { while (nq > 0) free(qn[--nq]); puts("bad-op"); continue; }
			x = build_cert(w, n, &bad);
			if (!x) {
				puts(bad == 2 ? "build-fail" : "bad-op");
				free(name);
				while (nq > 0) free(qn[--nq]);
				continue;
			}
			if (is_hs) {
				g_via_servername = (strcmp(w[0], "hsn") == 0) || (qflags && strchr(qflags, 't'));
				g_hsq_flags = qflags;
				g_hsq_q = qn;
				g_hsq_nq = nq;
				do_handshake(x, name, is_chs ? pcli_get() : NULL, script);
				g_hsq_flags = NULL;
			} else {
				int rc, contains;
				const char *cls;
				clear_error(g_ctx);
				rc = tls_check_name(g_ctx, x, name);
				cls = err_class(tls_error(g_ctx));
				printf("rc=%d err=%s", rc, cls);
				clear_error(g_ctx);
				g_ctx->ssl_peer_cert = x;
				contains = tls_peer_cert_contains_name(g_ctx, name);
				g_ctx->ssl_peer_cert = NULL;
				printf(" contains=%d\n", contains);
			}
			X509_free(x);
			free(name);
			while (nq > 0) free(qn[--nq]);
			continue;
		}
		puts("bad-op");
	}
	fflush(stdout);
	return 0;
}
