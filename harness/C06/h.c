/* C06 harness: drives usual/cbtree.c, strpool.c, mdict.c through the line protocol.
 * All library allocations go through the tracking allocator (trk_cx); the number of live
 * regions attributable to each structure is kept as a running delta. */
#include "hcommon.h"
#include "trkcx.h"
#include <usual/cbtree.h>
#include <usual/strpool.h>
#include <usual/mdict.h>
#include <usual/mbuf.h>

/* cbtree.c is included so that the node structure can be dumped (internal projection) */
#include <usual/cbtree.c>

struct Obj { int id; size_t len; uint8_t key[]; };

static char freed_log[1 << 20];
static size_t freed_len;

static size_t obj_getkey(void *ctx, void *obj, const void **dst_p)
{
	struct Obj *o = obj;
	*dst_p = o->key;
	return o->len;
}

/* what the free callback returns (the library documents no meaning for it: it must be ignored)
 * and the byte the callback scrubs the object's key with before releasing it */
static bool free_ret = true;
static int scrub_byte;

static bool obj_free(void *ctx, void *obj)
{
	struct Obj *o = obj;
	if (freed_len < sizeof(freed_log) - 16)
		freed_len += sprintf(freed_log + freed_len, "%s%d", freed_len ? "," : "", o->id);
	/* a caller may hand cbtree_delete() the key stored inside the object (strpool_decref does):
	 * after the callback that memory is gone, so scrub it to make a late read visible */
	memset(o->key, scrub_byte, o->len);
	scrub_byte ^= 0xff;
	free(o);
	return free_ret;
}

static void dump_node(struct Node *n)
{
	if (is_node(n)) {
		printf("(%zu ", n->bitpos);
		dump_node(n->child[0]);
		printf(" ");
		dump_node(n->child[1]);
		printf(")");
	} else {
		struct Obj *o = get_external(n);
		printf("#%d", o->id);
	}
}

static void dump_tree(struct CBTree *t)
{
	if (!t->root) printf("nil"); else dump_node(t->root);
}

struct WalkSt { int stop; int seen; int first; };
static bool walk_cb(void *arg, void *obj)
{
	struct WalkSt *w = arg;
	struct Obj *o = obj;
	if (!w->first) printf(",");
	w->first = 0;
	hc_puthex(o->key, o->len);
	w->seen++;
	return !(w->stop && w->seen == w->stop);
}

/* strpool handle table: ids are given in creation order */
#define MAXH 200000
static struct PStr *handles[MAXH];
static int nhandles;

static int handle_lookup(struct PStr *p)
{
	int i;
	for (i = nhandles; i >= 1; i--)
		if (handles[i] == p) return i;
	return 0;
}

static void put_val(const struct MBuf *v)
{
	if (mbuf_data(v) == NULL) printf("nil");
	else hc_puthex(mbuf_data(v), mbuf_written(v));
}
struct MW { int first; };
static bool mwalk_cb(void *arg, const struct MBuf *k, const struct MBuf *v)
{
	struct MW *w = arg;
	if (!w->first) printf(";");
	w->first = 0;
	hc_puthex(mbuf_data(k), mbuf_written(k));
	printf("=");
	put_val(v);
	return true;
}

/* serialise pairs for the comparison in `mrt` */
static bool collect_cb(void *arg, const struct MBuf *k, const struct MBuf *v)
{
	struct MBuf *dst = arg;
	uint32_t kl = mbuf_written(k), vl = mbuf_written(v);
	uint8_t isnull = mbuf_data(v) == NULL;
	mbuf_write(dst, &kl, 4);
	mbuf_write(dst, mbuf_data(k), kl);
	mbuf_write_byte(dst, isnull);
	if (!isnull) {
		mbuf_write(dst, &vl, 4);
		mbuf_write(dst, mbuf_data(v), vl);
	}
	return true;
}

static struct CBTree *cb;
static int cb_next;
static struct StrPool *sp;
static struct MDict *md;
static long live_cb, live_sp, live_md;

static void reset_all(void)
{
	int i;
	long t;
	if (cb) { freed_len = 0; cbtree_destroy(cb); }
	if (sp) strpool_free(sp);
	if (md) mdict_free(md);
	trk_live = 0; trk_live_bytes = 0;	/* a leak was already reported by the op that saw it */
	t = trk_live; cb = cbtree_create(obj_getkey, obj_free, NULL, &trk_cx); live_cb = trk_live - t;
	cb_next = 1;
	t = trk_live; sp = strpool_create(&trk_cx); live_sp = trk_live - t;
	t = trk_live; md = mdict_new(&trk_cx); live_md = trk_live - t;
	for (i = 0; i <= nhandles; i++) handles[i] = NULL;
	nhandles = 0;
}

int main(void)
{
	char *line, *w[8];
	int n;
	uint8_t *k, *v;
	long kl, vl, t;

	setvbuf(stdout, NULL, _IOFBF, 1 << 16);
	reset_all();
	while ((line = hc_line()) != NULL) {
		n = hc_words(line, w, 8);
		k = v = NULL;
		t = trk_live;
		if (n == 1 && !strcmp(w[0], "#case")) {
			free_ret = true;
			reset_all();
			puts("#case");
			fflush(stdout);	/* a crash later must not swallow earlier cases' output */
		/* ------------------------------------------------------ cbtree */
		} else if (n == 2 && !strcmp(w[0], "ins") && (kl = hc_unhex(w[1], &k)) >= 0) {
			struct Obj *o = malloc(sizeof(*o) + kl);
			bool ok;
			o->id = cb_next++; o->len = kl; memcpy(o->key, k, kl);
			ok = cbtree_insert(cb, o);
			if (!ok) free(o);
			live_cb += trk_live - t;
			printf("%d ## ", ok); dump_tree(cb); printf(" live=%ld\n", live_cb);
		} else if (n == 2 && !strcmp(w[0], "get") && (kl = hc_unhex(w[1], &k)) >= 0) {
			struct Obj *o = cbtree_lookup(cb, k, kl);
			if (o) printf("#%d\n", o->id); else puts("nil");
		} else if (n == 2 && !strcmp(w[0], "del") && (kl = hc_unhex(w[1], &k)) >= 0) {
			bool ok;
			freed_len = 0; freed_log[0] = 0;
			ok = cbtree_delete(cb, k, kl);
			live_cb += trk_live - t;
			if (ok) printf("1 freed=%s ## ", freed_log); else printf("0 ## ");
			dump_tree(cb); printf(" live=%ld\n", live_cb);
		} else if (n == 2 && !strcmp(w[0], "delown") && (kl = hc_unhex(w[1], &k)) >= 0) {
			/* delete through the key stored inside the object itself */
			struct Obj *o = cbtree_lookup(cb, k, kl);
			bool ok;
			freed_len = 0; freed_log[0] = 0;
			ok = o ? cbtree_delete(cb, o->key, o->len) : cbtree_delete(cb, k, kl);
			live_cb += trk_live - t;
			if (ok) printf("1 freed=%s ## ", freed_log); else printf("0 ## ");
			dump_tree(cb); printf(" live=%ld\n", live_cb);
		} else if (n == 3 && (!strcmp(w[0], "getpfx") || !strcmp(w[0], "delpfx")) && (kl = hc_unhex(w[1], &k)) >= 0) {
			/* the key argument ALIASES the key stored inside an object, with a shorter length:
			 * look up / delete the first <n> bytes of the stored key through the object's own buffer */
			struct Obj *o = cbtree_lookup(cb, k, kl);
			long pl = atol(w[2]);
			const void *kp = (o && pl <= (long)o->len) ? (const void *)o->key : (const void *)k;
			if (pl > kl) pl = kl;
			if (w[0][0] == 'g') {
				struct Obj *r = cbtree_lookup(cb, kp, pl);
				if (r) printf("#%d\n", r->id); else puts("nil");
			} else {
				bool ok;
				freed_len = 0; freed_log[0] = 0;
				ok = cbtree_delete(cb, kp, pl);
				live_cb += trk_live - t;
				if (ok) printf("1 freed=%s ## ", freed_log); else printf("0 ## ");
				dump_tree(cb); printf(" live=%ld\n", live_cb);
			}
		} else if (n == 2 && !strcmp(w[0], "freeret")) {
			free_ret = atoi(w[1]) != 0;
			puts("ok");
		} else if (n == 2 && !strcmp(w[0], "walk")) {
			struct WalkSt ws = { atoi(w[1]), 0, 1 };
			bool ok = cbtree_walk(cb, walk_cb, &ws);
			printf(" %s\n", ok ? "ok" : "stop");
		} else if (n == 1 && !strcmp(w[0], "destroy")) {
			freed_len = 0; freed_log[0] = 0;
			cbtree_destroy(cb);
			live_cb += trk_live - t;
			printf("freed=%s live=%ld\n", freed_log, live_cb);
			t = trk_live;
			cb = cbtree_create(obj_getkey, obj_free, NULL, &trk_cx);
			live_cb = trk_live - t;
		/* ----------------------------------------------------- strpool */
		} else if (n == 2 && !strcmp(w[0], "sget") && (kl = hc_unhex(w[1], &k)) >= 0) {
			/* strpool_get copies len+1 bytes: give it a NUL-terminated exact-size copy */
			char *s = malloc(kl + 1);
			struct PStr *p;
			memcpy(s, k, kl); s[kl] = 0;
			p = strpool_get(sp, s, kl);
			free(s);
			live_sp += trk_live - t;
			if (!p) {
				printf("nil ## live=%ld\n", live_sp);
			} else {
				int id = handle_lookup(p);
				if (!id) { id = ++nhandles; handles[id] = p; }
				printf("h%d ref=%d ## live=%ld\n", id, p->refcnt, live_sp);
			}
		} else if (n == 2 && !strcmp(w[0], "sinc") && atoi(w[1]) >= 1 && atoi(w[1]) <= nhandles
			   && handles[atoi(w[1])]) {
			struct PStr *p = handles[atoi(w[1])];
			strpool_incref(p);
			printf("ref=%d\n", p->refcnt);
		} else if (n == 2 && !strcmp(w[0], "sdec") && atoi(w[1]) >= 1 && atoi(w[1]) <= nhandles
			   && handles[atoi(w[1])]) {
			int id = atoi(w[1]);
			struct PStr *p = handles[id];
			bool rel = p->refcnt == 1;
			strpool_decref(p);
			if (rel) handles[id] = NULL;
			live_sp += trk_live - t;
			printf("%s ## live=%ld\n", rel ? "released" : "kept", live_sp);
		} else if (n == 1 && !strcmp(w[0], "stotal")) {
			printf("%d\n", strpool_total(sp));
		} else if (n == 1 && !strcmp(w[0], "sfree")) {
			int i;
			strpool_free(sp);
			live_sp += trk_live - t;
			printf("live=%ld\n", live_sp);
			for (i = 0; i <= nhandles; i++) handles[i] = NULL;
			t = trk_live; sp = strpool_create(&trk_cx); live_sp = trk_live - t;
		/* ------------------------------------------------------- mdict */
		} else if (n == 3 && !strcmp(w[0], "mput") && (kl = hc_unhex(w[1], &k)) >= 0 &&
			   (!strcmp(w[2], "nil") || (vl = hc_unhex(w[2], &v)) >= 0)) {
			bool ok = mdict_put_str(md, (char *)k, kl, (char *)v, v ? vl : 0);
			live_md += trk_live - t;
			printf("%d ## live=%ld\n", ok, live_md);
		} else if (n == 2 && !strcmp(w[0], "mget") && (kl = hc_unhex(w[1], &k)) >= 0) {
			const struct MBuf *b = mdict_get_buf(md, (char *)k, kl);
			if (!b) puts("absent"); else { put_val(b); puts(""); }
		} else if (n == 2 && !strcmp(w[0], "mdel") && (kl = hc_unhex(w[1], &k)) >= 0) {
			bool ok = mdict_del_key(md, (char *)k, kl);
			live_md += trk_live - t;
			printf("%d ## live=%ld\n", ok, live_md);
		} else if (n == 1 && !strcmp(w[0], "mwalk")) {
			struct MW mw = { 1 };
			mdict_walk(md, mwalk_cb, &mw);
			puts("");
		} else if (n == 1 && !strcmp(w[0], "menc")) {
			struct MBuf dst;
			mbuf_init_dynamic(&dst);
			if (!mdict_urlencode(md, &dst)) puts("fail");
			else { hc_puthex(mbuf_data(&dst), mbuf_written(&dst)); puts(""); }
			mbuf_free(&dst);
		} else if (n == 2 && !strcmp(w[0], "mdec") && (kl = hc_unhex(w[1], &k)) >= 0) {
			bool ok = mdict_urldecode(md, (char *)k, kl);
			live_md += trk_live - t;
			printf("%d ## live=%ld\n", ok, live_md);
		} else if (n == 1 && !strcmp(w[0], "mrt")) {
			/* url-encode, decode into a fresh dict, compare the two dicts */
			struct MBuf enc, a, b;
			struct MDict *d2 = mdict_new(&trk_cx);
			bool ok, same;
			mbuf_init_dynamic(&enc); mbuf_init_dynamic(&a); mbuf_init_dynamic(&b);
			ok = mdict_urlencode(md, &enc);
			if (ok) {
				/* exact-size copy so that ASan sees over-reads of the text */
				unsigned el = mbuf_written(&enc);
				char *copy = malloc(el ? el : 1);
				if (el) memcpy(copy, mbuf_data(&enc), el);
				ok = mdict_urldecode(d2, copy, el);
				free(copy);
			}
			mdict_walk(md, collect_cb, &a);
			mdict_walk(d2, collect_cb, &b);
			same = ok && mbuf_written(&a) == mbuf_written(&b) &&
				(mbuf_written(&a) == 0 || memcmp(mbuf_data(&a), mbuf_data(&b), mbuf_written(&a)) == 0);
			mdict_free(d2);
			mbuf_free(&enc); mbuf_free(&a); mbuf_free(&b);
			if (trk_live != t) printf("%s leak=%ld\n", same ? "same" : "diff", trk_live - t);
			else puts(same ? "same" : "diff");
			trk_live = t;
		} else if (n == 1 && !strcmp(w[0], "mfree")) {
			mdict_free(md);
			live_md += trk_live - t;
			printf("live=%ld\n", live_md);
			t = trk_live; md = mdict_new(&trk_cx); live_md = trk_live - t;
		} else {
			puts("bad-op");
		}
		free(k); free(v);
	}
	return 0;
}
